"""Shared machinery for all property checks (see DESIGN.md §2).

One check run = regenerate Gen/*.lean from /repo -> lake build Props + audit axioms
-> correspondence (impl vs Lean model/spec vs Python oracle) -> verdict -> evidence.
"""
import contextlib
import fcntl
import hashlib
import importlib
import json
import os
import random
import re
import subprocess
import sys
import time
import traceback
import warnings
from pathlib import Path

warnings.filterwarnings("ignore")

VERIF = Path(__file__).resolve().parent.parent
LEAN = VERIF / "lean"
REPO = Path(os.environ.get("BNP_REPO", "/repo"))
EVIDENCE = VERIF / "evidence"
REPLAYS = VERIF / "replays"
CORPUS = VERIF / "corpus"
LOCK = LEAN / ".verif.lock"
ALLOWED_AXIOMS = {"propext", "Classical.choice", "Quot.sound"}
FORBIDDEN = re.compile(r"\bsorry\b|\badmit\b|^axiom |native_decide|bv_decide|implemented_by|\bunsafe |maxHeartbeats 0")

os.environ.setdefault("BIONUMPY_BIONUMPY_VERIF", "1")

TRUSTED_BASE = [
    "Lean 4.33.0 kernel; property theorems may depend only on propext, Classical.choice, Quot.sound (audited every run by #print axioms); no sorry/admit/native_decide/bv_decide/user axioms (grep every run)",
    "harness: Gen/*.lean tabulator (calls the public API of the package imported from /repo on whole finite domains), correspondence driver, canonicaliser, Python reference oracle",
    "modelled-not-verified externals: NumPy, npstructures, gzip/OS file reads, Python runtime; IEEE rounding",
]


class Skip:
    """oracle/impl return value for 'outside the property's domain'"""
    def __repr__(self):
        return "SKIP"


SKIP = Skip()


def import_bionumpy():
    sys.path.insert(0, str(REPO))
    import logging
    logging.disable(logging.CRITICAL)      # the package logs (also at ERROR level, before re-raising); observations are return values and exceptions
    with contextlib.redirect_stderr(open(os.devnull, "w")):
        import bionumpy  # noqa
    f = Path(bionumpy.__file__).resolve()
    if not str(f).startswith(str(REPO.resolve())):
        raise RuntimeError(f"bionumpy imported from {f}, not from {REPO}")
    return bionumpy


@contextlib.contextmanager
def lean_lock(shared=False):
    LOCK.parent.mkdir(exist_ok=True)
    with open(LOCK, "w") as fh:
        fcntl.flock(fh, fcntl.LOCK_SH if shared else fcntl.LOCK_EX)
        try:
            yield
        finally:
            fcntl.flock(fh, fcntl.LOCK_UN)


def run(cmd, cwd=LEAN, timeout=3000, input=None):
    p = subprocess.run(cmd, cwd=cwd, capture_output=True, text=True, timeout=timeout, input=input)
    return p.returncode, p.stdout + p.stderr


def write_if_changed(path: Path, text: str) -> bool:
    path.parent.mkdir(parents=True, exist_ok=True)
    if path.exists() and path.read_text() == text:
        return False
    path.write_text(text)
    return True


def strip_comments(src: str) -> str:
    # remove /- ... -/ (nested not handled beyond one level) and -- line comments
    out, depth, i = [], 0, 0
    while i < len(src):
        if src.startswith("/-", i):
            depth += 1
            i += 2
        elif src.startswith("-/", i) and depth:
            depth -= 1
            i += 2
        elif depth:
            if src[i] == "\n":
                out.append("\n")
            i += 1
        elif src.startswith("--", i):
            while i < len(src) and src[i] != "\n":
                i += 1
        else:
            out.append(src[i])
            i += 1
    return "".join(out)


def grep_forbidden(files):
    hits = []
    for f in files:
        if not f.exists():
            continue
        for n, line in enumerate(strip_comments(f.read_text()).splitlines(), 1):
            if FORBIDDEN.search(line):
                hits.append(f"{f.relative_to(LEAN)}:{n}: {line.strip()[:120]}")
    return hits


def lean_sources_for(pid):
    """all hand-written + generated Lean files a property's theorems can depend on"""
    files = []
    for sub in ("Base", "Model", "Gen", "Lemmas", "Props", "Spec"):
        d = LEAN / "BnpVerif" / sub
        if d.exists():
            files += sorted(d.rglob("*.lean"))
    return files


def theorem_at(path: Path, line: int):
    """name of the theorem/def enclosing `line` (nearest preceding declaration)"""
    try:
        lines = path.read_text().splitlines()
    except OSError:
        return None
    for i in range(min(line, len(lines)) - 1, -1, -1):
        m = re.match(r"\s*(?:@\[[^\]]*\]\s*)?(?:private\s+|protected\s+)?(theorem|lemma|def|example|instance|abbrev)\s+([^\s:({\[]+)?", lines[i])
        if m:
            return (m.group(2) or "example") + f" ({path.name}:{i+1})"
    return f"{path.name}:{line}"


def build_and_audit(pid, log):
    """lake build Props.<pid> + driver, then #print axioms. Returns dict."""
    res = {"build_ok": False, "theorems": {}, "broken": [], "forbidden": [], "output": "", "driver_ok": False}
    t0 = time.time()
    # fast path: nothing to rebuild (read-only check under the shared lock, so concurrent checks do not serialise)
    with lean_lock(shared=True):
        rc0, _ = run(["lake", "build", "--no-build", f"BnpVerif.Props.{pid}", f"driver_{pid}"])
    if rc0 == 0:
        res["build_ok"] = True
        res["driver_ok"] = True
        res["output"] = "up to date"
    else:
        with lean_lock(shared=False):
            rc, out = run(["lake", "build", f"BnpVerif.Props.{pid}"])
            res["output"] = out[-6000:]
            res["build_ok"] = rc == 0
            if rc != 0:
                for m in re.finditer(r"error: ([^\s:]+\.lean):(\d+):(\d+)", out):
                    name = theorem_at(LEAN / m.group(1), int(m.group(2)))
                    if name and name not in res["broken"]:
                        res["broken"].append(name)
                if not res["broken"]:
                    res["broken"].append(f"lake build BnpVerif.Props.{pid} failed")
            rc2, out2 = run(["lake", "build", f"driver_{pid}"])
            res["driver_ok"] = rc2 == 0
            if rc2 != 0:
                res["driver_output"] = out2[-4000:]
    res["build_s"] = round(time.time() - t0, 1)
    audit = LEAN / "BnpVerif" / "Audit" / f"{pid}.lean"
    names = re.findall(r"^#print axioms\s+(\S+)", audit.read_text(), re.M) if audit.exists() else []
    res["declared"] = names
    if res["build_ok"] and audit.exists():
        with lean_lock(shared=True):
            rc3, out3 = run(["lake", "env", "lean", str(audit.relative_to(LEAN))])
        for m in re.finditer(r"'([^']+)' depends on axioms: \[([^\]]*)\]", out3, re.S):
            res["theorems"][m.group(1)] = [a.strip() for a in m.group(2).replace("\n", " ").split(",") if a.strip()]
        for m in re.finditer(r"'([^']+)' does not depend on any axioms", out3):
            res["theorems"][m.group(1)] = []
        for n in names:
            if n not in res["theorems"]:
                res["broken"].append(f"{n} (missing from audit)")
            elif not set(res["theorems"][n]) <= ALLOWED_AXIOMS:
                res["broken"].append(f"{n} (axioms {res['theorems'][n]})")
    res["forbidden"] = grep_forbidden(lean_sources_for(pid))
    if res["forbidden"]:
        res["broken"].append("forbidden construct: " + "; ".join(res["forbidden"][:3]))
    return res


def driver_run(lines, pid):
    """send JSON lines to the compiled Lean driver, return list of parsed replies"""
    if not lines:
        return []
    exe = LEAN / ".lake" / "build" / "bin" / f"driver_{pid}"
    payload = "\n".join(lines) + "\n"
    with lean_lock(shared=True):
        if exe.exists():
            p = subprocess.run([str(exe)], input=payload, capture_output=True, text=True, timeout=3000)
        else:
            p = subprocess.run(["lake", "env", "lean", "--run", f"Drivers/{pid}.lean"], cwd=LEAN, input=payload,
                               capture_output=True, text=True, timeout=3000)
    outs = [l for l in p.stdout.splitlines() if l.startswith("{")]
    if len(outs) != len(lines):
        raise RuntimeError(f"driver returned {len(outs)} replies for {len(lines)} lines; rc={p.returncode}; stderr={p.stderr[-2000:]}")
    return [json.loads(l) for l in outs]


def _np_default(o):
    import numpy as np
    if isinstance(o, np.bool_):
        return bool(o)
    if isinstance(o, np.integer):
        return int(o)
    if isinstance(o, np.floating):
        return float(o)
    if isinstance(o, np.ndarray):
        return o.tolist()
    return str(o)


def canon(x):
    """canonical JSON text for comparison"""
    return json.dumps(x, sort_keys=True, separators=(",", ":"), default=_np_default)


def load_known():
    f = VERIF / "known_findings.json"
    if not f.exists():
        return []
    return json.loads(f.read_text()).get("findings", [])


def case_hash(case):
    return hashlib.sha1(canon(case).encode()).hexdigest()[:10]


_EVAL_MOD = None


class CaseTimeout(Exception):
    pass


def _alarm(*_):
    raise CaseTimeout("implementation did not return within the per-case limit")


def _eval_one(c):
    """one case on the real implementation, under a per-case wall-clock limit (a hang is an observation, not a stuck check)"""
    import signal
    mod = _EVAL_MOD
    limit = int(getattr(mod, "CASE_TIMEOUT_S", 120))
    old = signal.signal(signal.SIGALRM, _alarm)
    signal.alarm(limit)
    try:
        got = mod.impl(c)
    except Exception as e:
        got = "E:harness:" + type(e).__name__ + ":" + str(e)[:200]
    finally:
        signal.alarm(0)
        signal.signal(signal.SIGALRM, old)
    return got, mod.oracle(c)


def _eval_chunk(chunk):
    return [_eval_one(c) for c in chunk]


def _run_in_child(fn, arg, timeout):
    """fn(arg) in a forked child; (True, result) or (False, reason) when the child died or did not answer in time"""
    import multiprocessing as mp
    ctx = mp.get_context("fork")
    recv, send = ctx.Pipe(False)

    def target(conn):
        try:
            conn.send(fn(arg))
        finally:
            conn.close()
    p = ctx.Process(target=target, args=(send,))
    p.start()
    send.close()
    res, ok = None, False
    try:
        if recv.poll(timeout):
            res, ok = recv.recv(), True
    except (EOFError, OSError):
        ok = False
    p.join(2)
    if p.is_alive():
        p.kill()
        p.join(2)
    return (True, res) if ok else (False, f"exit={p.exitcode}")


def _eval_all(mod, cases):
    """(impl(c), oracle(c)) for every case; forked workers when the module sets PARALLEL.
    A worker that dies (a crash inside native code) or never answers must not hang the check: unfinished chunks are re-run in
    children of their own, and a chunk that kills its child is re-run case by case — the culprit is reported as an observation."""
    global _EVAL_MOD
    _EVAL_MOD = mod
    n = int(getattr(mod, "PARALLEL", 0) or 0)
    if n <= 1 or len(cases) < 200:
        return [_eval_one(c) for c in cases]
    import multiprocessing as mp
    from concurrent.futures import ProcessPoolExecutor, as_completed
    cores = os.cpu_count() or 1
    n = min(n, cores)
    try:   # share the machine: several checks may run at once
        n = max(2, min(n, int(n * cores / max(float(cores), os.getloadavg()[0] + 1.0))))
    except OSError:
        pass
    size = max(1, len(cases) // (n * 8))
    chunks = [cases[i:i + size] for i in range(0, len(cases), size)]
    limit = int(getattr(mod, "CASE_TIMEOUT_S", 120))
    done = [None] * len(chunks)
    ex = ProcessPoolExecutor(max_workers=n, mp_context=mp.get_context("fork"))
    try:
        futs = {ex.submit(_eval_chunk, ch): i for i, ch in enumerate(chunks)}
        for f in as_completed(futs, timeout=max(1800, 2 * limit)):
            done[futs[f]] = f.result()
    except Exception:      # BrokenProcessPool (a worker died), TimeoutError (a worker is stuck in native code), …
        pass
    finally:
        for proc in list(getattr(ex, "_processes", {}).values() or []):
            try:
                proc.kill()
            except Exception:
                pass
        ex.shutdown(wait=False, cancel_futures=True)
    for i, ch in enumerate(chunks):
        if done[i] is not None:
            continue
        ok, res = _run_in_child(_eval_chunk, ch, len(ch) * limit + 60)
        if ok:
            done[i] = res
            continue
        out = []
        for c in ch:       # the chunk kills its worker: find the case
            ok1, r1 = _run_in_child(_eval_one, c, limit + 30)
            out.append(r1 if ok1 else ("E:harness:WorkerDied(" + str(r1) + ")", mod.oracle(c)))
        done[i] = out
    return [r for ch in done for r in ch]


def _abridge(x, max_list=24, max_str=300):
    """evidence samples are for a reader: long byte arrays / strings are abridged (the full case is in the replay when it matters)"""
    if isinstance(x, dict):
        return {k: _abridge(v, max_list, max_str) for k, v in list(x.items())[:40]}
    if isinstance(x, (list, tuple)):
        if len(x) > max_list:
            return [_abridge(v, max_list, max_str) for v in x[:max_list]] + [f"... ({len(x) - max_list} more)"]
        return [_abridge(v, max_list, max_str) for v in x]
    if isinstance(x, str) and len(x) > max_str:
        return x[:max_str] + f"... ({len(x) - max_str} more chars)"
    return x


class Machinery(Exception):
    pass


def gen_dependencies(pid):
    """other properties whose generated tables the Lean files of `pid` import (transitively)"""
    seen, todo, deps = set(), [f"BnpVerif.Props.{pid}", f"BnpVerif.Drv.{pid}"], set()
    while todo:
        m = todo.pop()
        if m in seen:
            continue
        seen.add(m)
        f = LEAN / (m.replace(".", "/") + ".lean")
        if not f.exists():
            continue
        for imp in re.findall(r"^import\s+(BnpVerif\.[\w.]+)", f.read_text(), re.M):
            g = re.match(r"BnpVerif\.Gen\.(C\d\d)$", imp)
            if g and g.group(1) != pid:
                deps.add(g.group(1))
            todo.append(imp)
    return sorted(deps)


def run_check(mod, tier, seed, replay=None):
    """mod: property module with the interface documented in harness/props/README"""
    pid = mod.ID
    t0 = time.time()
    rng = random.Random(seed)
    log = []
    EVIDENCE.mkdir(exist_ok=True)
    REPLAYS.mkdir(exist_ok=True)
    import_bionumpy()

    # 1. regenerate
    gen_changed = []
    gen_error = None
    try:
        for rel, text in (mod.regenerate() if hasattr(mod, "regenerate") else []):
            if write_if_changed(LEAN / rel, text):
                gen_changed.append(rel)
    except Exception as e:  # tabulation of the real code failed: treat as correspondence break
        gen_error = f"{type(e).__name__}: {e}"
    # the Lean files of this property may import other properties' theorems (C03 imports C02, C15 imports C01, …):
    # their generated tables must describe the CURRENT tree too, or a stale table breaks this property's build
    for dep in gen_dependencies(pid):
        try:
            dmod = importlib.import_module(f"harness.props.{dep.lower()}")
            for rel, text in (dmod.regenerate() if hasattr(dmod, "regenerate") else []):
                if write_if_changed(LEAN / rel, text):
                    gen_changed.append(rel)
        except Exception as e:
            log.append(f"could not regenerate the tables of {dep} (imported by {pid}): {type(e).__name__}: {e}")
    committed_diff = []
    if gen_changed or True:
        rc, out = run(["git", "status", "--porcelain", "--", "lean/BnpVerif/Gen"], cwd=VERIF)
        committed_diff = [l[3:] for l in out.splitlines() if l.strip()]

    # 2. prove
    proof = build_and_audit(pid, log)
    obligations = len(proof["declared"])
    discharged = sum(1 for n in proof["declared"] if n in proof["theorems"] and set(proof["theorems"][n]) <= ALLOWED_AXIOMS) if proof["build_ok"] else 0
    proof_broken = (not proof["build_ok"]) or bool(proof["broken"]) or gen_error is not None
    if not proof["driver_ok"]:
        # the models themselves do not compile: only generated tables can cause this on a changed tree
        proof_broken = True
        proof["broken"].append("Driver (models) failed to build")

    # 3. correspond
    stats = {"evaluations": 0, "nontrivial": set(), "kinds": {}, "tags": {}, "model_compared": 0, "spec_compared": 0,
             "oracle_compared": 0, "skipped": 0, "impl_errors": {}}
    failures = []       # property failures (impl vs spec/oracle)
    corr_breaks = []    # impl vs model
    samples = []
    model_vs_spec = []

    known = [k for k in load_known() if k["property"] == pid and k.get("status") == "known"]
    known_keys = {k["key"]: k for k in known}

    def explore(cases):
        cases = list(cases)
        lines, idx = [], []
        for i, c in enumerate(cases):
            if not proof["driver_ok"]:
                continue
            req = mod.model_request(c) if hasattr(mod, "model_request") else c
            if req is not None and req.get("op") in getattr(mod, "MODEL_OPS", ()):
                lines.append(canon(dict(req, p=pid)))
                idx.append(i)
        replies = {}
        if lines:
            for i, r in zip(idx, driver_run(lines, pid)):
                replies[i] = r
        results = _eval_all(mod, cases)
        for i, c in enumerate(cases):
            stats["evaluations"] += 1
            k = c.get("op", "?")
            stats["kinds"][k] = stats["kinds"].get(k, 0) + 1
            got, exp = results[i]
            if hasattr(mod, "tags"):          # input distribution: free-form tags per case (format, size class, branch, error kind hit …)
                try:
                    for t in mod.tags(c, got):
                        stats["tags"][t] = stats["tags"].get(t, 0) + 1
                except Exception:
                    pass
            if isinstance(got, str) and got.startswith("E:harness:"):
                n = got.split(":")[2]
                stats["impl_errors"][n] = stats["impl_errors"].get(n, 0) + 1
            if isinstance(exp, Skip):
                stats["skipped"] += 1
                continue
            if mod.nontrivial(c):
                stats["nontrivial"].add(case_hash(c))
            if mod.nontrivial(c):      # evidence samples: a small random reservoir of non-trivial cases
                if len(samples) < 6:
                    samples.append({"case": c, "impl": got, "expected": exp})
                elif rng.random() < 0.002:
                    samples[rng.randrange(6)] = {"case": c, "impl": got, "expected": exp}
            elif not samples:
                samples.append({"case": c, "impl": got, "expected": exp})
            stats["oracle_compared"] += 1
            ok = mod.agree(c, got, exp) if hasattr(mod, "agree") else canon(got) == canon(exp)
            fkey = None
            if not ok:
                fkey = mod.finding_key(c, got, exp) if hasattr(mod, "finding_key") else k
            r = replies.get(i)
            if r is not None:
                if "err" in r:
                    raise Machinery(f"driver error on {c}: {r['err']}")
                m, s = r.get("m"), r.get("s")
                stats["model_compared"] += 1
                if s is not None:
                    stats["spec_compared"] += 1
                    same = mod.agree_spec(c, s, exp) if hasattr(mod, "agree_spec") else canon(s) == canon(exp)
                    if not same:
                        model_vs_spec.append({"case": c, "lean_spec": s, "python_oracle": exp})
                if m is not None and not (mod.agree_model(c, got, m) if hasattr(mod, "agree_model") else canon(got) == canon(m)):
                    if fkey is None or fkey not in known_keys:   # a recorded known finding explains this disagreement
                        corr_breaks.append({"case": c, "impl": got, "model": m, "expected": exp})
            if not ok:
                failures.append({"case": c, "impl": got, "expected": exp, "key": fkey})

    if replay:
        rp = json.loads(Path(replay).read_text())
        explore([rp["case"]] if "case" in rp else [])
    else:
        corpus_dir = CORPUS / pid
        corpus = [json.loads(f.read_text()) for f in sorted(corpus_dir.glob("*.json"))] if corpus_dir.exists() else []
        explore(corpus)
        explore(mod.cases(tier, rng))
    # history / aliasing probe: a result must still be right after a LATER call (no shared output buffers, no state
    # carried between calls).  Opt-in: impl_live(case) -> (live_object, canon_fn).
    if hasattr(mod, "impl_live") and not replay:
        pool = [c for c in (mod.live_cases(tier, rng) if hasattr(mod, "live_cases") else [])]
        n_pairs = min(len(pool) // 2, 1500 if tier in ("thorough", "widen") else 300)
        rng.shuffle(pool)
        stats["kinds"]["history_pair"] = 0
        for i in range(n_pairs):
            c1, c2 = pool[2 * i], pool[2 * i + 1]
            exp1 = mod.oracle(c1)
            if isinstance(exp1, Skip):
                continue
            try:
                obj1, canon1 = mod.impl_live(c1)
                before = canon1(obj1)
                keep2 = mod.impl_live(c2)      # kept alive while the first result is read again
                after = canon1(obj1)
            except Exception:
                continue                        # a raising call is judged by the ordinary cases, not here
            stats["kinds"]["history_pair"] += 1
            stats["evaluations"] += 1
            ok_before = mod.agree(c1, before, exp1) if hasattr(mod, "agree") else canon(before) == canon(exp1)
            if ok_before and canon(before) != canon(after):
                failures.append({"case": {"op": "history_pair", "first": c1, "then": c2}, "impl": {"before": before, "after": after},
                                 "expected": exp1, "key": "history:result-changed-after-a-later-call"})
            # a caller may modify a RESULT in place; an identical later call must still give the original answer
            # (no cache handing out the same object twice).  Opt-in: mutate_live(obj) -> True if it modified obj.
            if ok_before and hasattr(mod, "mutate_live"):
                try:
                    mutated = mod.mutate_live(obj1, c1)
                except Exception:
                    mutated = False
                if mutated:
                    try:
                        obj3, canon3 = mod.impl_live(c1)
                        again = canon3(obj3)
                    except Exception as e:      # the call returned before: raising now is a difference too
                        again = "E:" + type(e).__name__
                    stats["evaluations"] += 1
                    if canon(again) != canon(before):
                        failures.append({"case": {"op": "history_mutate", "first": c1}, "impl": {"first_call": before, "same_call_after_result_was_modified": again},
                                         "expected": exp1, "key": "history:same-call-differs-after-its-earlier-result-was-modified"})
    # after results (and lists handed out by getters) were modified by the probe: a sample of the ordinary cases once more — state
    # that such a modification leaves behind in the package shows as ordinary failures here
    if hasattr(mod, "mutate_live") and not replay and stats["kinds"].get("history_pair"):
        again = list(mod.cases("quick", random.Random(seed + 13)))
        explore(again[::max(1, len(again) // 800)])
    if model_vs_spec:
        raise Machinery("Lean spec and Python oracle disagree (machinery error): " + canon(model_vs_spec[0])[:1500])

    new_fail = [f for f in failures if f["key"] not in known_keys]
    widened = False
    if not new_fail and (proof_broken or corr_breaks) and not replay:
        widened = True
        wrng = random.Random(seed + 7919)
        explore(mod.cases("widen", wrng))
        new_fail = [f for f in failures if f["key"] not in known_keys]

    # 4. decide
    violation = None
    lines_out = []
    if new_fail:
        best = min(new_fail, key=lambda f: len(canon(f["case"])))
        rp = {"property": pid, "kind": "input", "case": best["case"], "expected": best["expected"],
              "observed": best["impl"], "finding_key": best["key"], "seed": seed,
              "broken": proof["broken"] + ([f"correspondence impl≠model on {len(corr_breaks)} cases"] if corr_breaks else []),
              "n_failing_cases": len(new_fail),
              "how_to_run": f"./check {pid} --replay <this file>"}
        path = REPLAYS / f"{pid}-{case_hash(best['case'])}.json"
        path.write_text(json.dumps(rp, indent=1, default=_np_default))
        violation = f"VIOLATION property={pid} replay={path}"
    elif proof_broken or corr_breaks:
        rp = {"property": pid, "kind": "no-failing-input-found", "broken": proof["broken"],
              "gen_error": gen_error, "gen_changed_vs_committed": committed_diff,
              "correspondence_breaks": corr_breaks[:5], "lean_output": proof["output"][-3000:], "seed": seed,
              "searched": stats["evaluations"]}
        path = REPLAYS / f"{pid}-unproved-{hashlib.sha1(canon(rp['broken']).encode() + canon(corr_breaks[:1]).encode()).hexdigest()[:8]}.json"
        path.write_text(json.dumps(rp, indent=1, default=_np_default))
        violation = f"VIOLATION property={pid} replay={path} no-failing-input-found"
    seen_known = {}
    for f in failures:
        if f["key"] in known_keys and f["key"] not in seen_known:
            seen_known[f["key"]] = f
    for key, f in seen_known.items():
        lines_out.append(f"KNOWN-FINDING: property={pid} {key}: {known_keys[key]['what']}")

    ev = {
        "property_id": pid, "tier": "thorough" if tier == "thorough" else "quick", "seed": seed, "level": "proof",
        "coverage": {
            "obligations": max(obligations, 0), "discharged": discharged,
            "checker_cmd": f"cd lean && lake build BnpVerif.Props.{pid} && lake env lean BnpVerif/Audit/{pid}.lean" + (" && lake env leanchecker BnpVerif.Props." + pid if tier == "thorough" else ""),
            "trusted_base": TRUSTED_BASE + list(getattr(mod, "TRUSTED_EXTRA", [])),
            "theorems": proof["theorems"], "broken": proof["broken"],
            "gen_changed_this_run": gen_changed, "gen_differs_from_committed": committed_diff, "gen_error": gen_error,
            "evaluations": stats["evaluations"], "distinct_nontrivial": len(stats["nontrivial"]),
            "rule": getattr(mod, "RULE", ""), "samples": _abridge(samples[:6]) or [{"note": "no cases"}],
            "exhaustive": bool(getattr(mod, "EXHAUSTIVE", {}).get(tier, False)),
            "case_kinds": stats["kinds"], "input_distribution": dict(sorted(stats["tags"].items())), "compared_with_lean_model": stats["model_compared"],
            "compared_with_lean_spec": stats["spec_compared"], "compared_with_python_oracle": stats["oracle_compared"],
            "outside_domain_skipped": stats["skipped"], "correspondence_breaks": len(corr_breaks),
            "property_failures": len(failures), "known_findings_reproduced": sorted(seen_known),
            "widened_search": widened, "build_s": proof.get("build_s"),
        },
        "assumptions": list(getattr(mod, "ASSUMPTIONS", [])),
        "wall_s": round(time.time() - t0, 2), "violations": 1 if violation else 0,
    }
    if hasattr(mod, "extra_evidence"):
        ev["coverage"].update(mod.extra_evidence())
    (EVIDENCE / f"{pid}.json").write_text(json.dumps(ev, indent=1, default=_np_default))
    for l in lines_out:
        print(l)
    if violation:
        print(violation)
        return 1
    print(f"OK property={pid} tier={tier} theorems={discharged}/{obligations} cases={stats['evaluations']} "
          f"nontrivial={len(stats['nontrivial'])} lean-compared={stats['model_compared']} wall={ev['wall_s']}s")
    return 0


def thorough_leanchecker(pid):
    with lean_lock(shared=True):
        rc, out = run(["lake", "env", "leanchecker", f"BnpVerif.Props.{pid}"], timeout=1500)
    return rc, out


def main(argv):
    import argparse
    ap = argparse.ArgumentParser()
    ap.add_argument("pid")
    ap.add_argument("--tier", default=os.environ.get("VERIF_TIER", "quick"))
    ap.add_argument("--replay")
    a = ap.parse_args(argv)
    seed = int(os.environ.get("VERIF_SEED", "0"))
    sys.path.insert(0, str(VERIF))
    # one scratch directory per run, inherited by every worker and child process (forked workers skip their atexit handlers,
    # so whatever they create is removed here by the parent)
    import shutil
    import tempfile
    scratch = tempfile.mkdtemp(prefix="bnpverif_")
    os.environ["TMPDIR"] = scratch
    tempfile.tempdir = scratch
    try:
        return _main(a, seed)
    finally:
        shutil.rmtree(scratch, ignore_errors=True)


def _main(a, seed):
    try:
        mod = importlib.import_module(f"harness.props.{a.pid.lower()}")
        rc = run_check(mod, a.tier, seed, a.replay)
        if rc == 0 and a.tier == "thorough" and not a.replay:
            lrc, lout = thorough_leanchecker(a.pid)
            if lrc != 0:
                print("leanchecker failed:", lout[-2000:])
                return 2
            print("leanchecker ok")
        return rc
    except subprocess.TimeoutExpired as e:
        print("TIMEOUT", e)
        return 2
    except Exception:
        traceback.print_exc()
        return 2
