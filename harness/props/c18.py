"""C18 — numbers survive conversion between text and arrays (bionumpy/io/strops.py)."""
import itertools
import math
import struct
from fractions import Fraction

import numpy as np

from .. import core
from ..core import SKIP

ID = "C18"
RULE = ("ints: 0, +-(10^k-2..10^k+2) for k=0..18, int64 extremes, every permutation and sub-batch of batches <= 4 drawn from "
        "those, random batches mixing widths 1..19 and signs, random int64; integer texts with optional sign and leading zeros "
        "(also > 19 characters), List[int] join/split; float texts with 1..17 significant digits, optional sign, fraction, "
        "exponent -300..300, >= 19 fractional digits / long zero runs (ulp distance to Python float(text) <= 4), repr round trip of "
        "random doubles (also through the Lean model of the produced text), batch vs single-row evaluation; integer columns "
        "through a DelimitedBuffer (fixed-width digit matrix; widest entry 10/19/20 characters, values around 2^31..10^10, signed "
        "columns), optional columns with missing values, integer matrices through matrix_dump, integer/float/List[int] columns "
        "written and parsed through a delimited buffer; every function also on fresh views (reordered / masked / sliced / stepped / "
        "reversed selections of a larger array, ragged array or table, also chained) and on every integer dtype; int_to_str, empty "
        "batches, join/split (several separators), bool / List[bool] / Optional[int] / Optional[float] columns, float matrices "
        "with row names, missing floats, array arguments in every memory layout (C / Fortran / transposed / strided / "
        "negative-stride / column-sliced views of the same values; 2-d matrices of several non-square shapes and 1-d columns), "
        "and texts that are not numbers (lone sign, lone dot, two dots) which must be reported; sub-batches of a LAZILY read file "
        "(a six-column table int / signed int / float / List[int] / Optional[int] / str through a DelimitedBuffer, and BED files; "
        "read_chunk / read / concatenated read_chunks): programs of 2..8 steps that select rows from the table the reader returns "
        "(index lists with repeats and negative indices, permutations, boolean masks dropping an early row, tail / head / stepped / "
        "reversed / inner slices, chained, also empty) BEFORE, between and after the accesses to its columns in every order, and "
        "write the selected table in between; lines of equal length in one table in four; every column read and every written "
        "line must be that selection of the file's values, each integer column also against the Lean model of the column reader "
        "on exactly that sub-batch; one program in three is a TREE of tables all alive at once (every selection a new table taken "
        "from any earlier one; reads and writes name the table): a child slice / mask / index list is written or read, then its "
        "PARENT, a sibling or a grandchild is read for the first time - a table is the list of its rows' values whatever was "
        "derived from it. Non-trivial = |n| within 2 "
        "of a power of ten, an int64 extreme, a sign, or a batch with >= 2 widths (ints); >= 2 rows or an exponent or >= 16 "
        "digits (floats)")
EXHAUSTIVE = {"quick": False, "thorough": False}
MODEL_OPS = {"fmt", "parse", "parse1", "intlists", "splitparse", "fparse", "column_ints", "parse_missing", "froundtrip",
             "int_to_str", "join", "split", "boollists", "fparse_missing", "reject", "frepr", "lazy_ints"}
PARALLEL = 0
ASSUMPTIONS = [
    "int64 arithmetic is modelled as unbounded Int with wrap64 applied to the result (NumPy ops are ring homomorphisms mod 2^64)",
    "np.searchsorted(side='right') on the sorted power table = number of entries <= x; np.cumsum / fancy += / full as list functions",
    "npstructures RaggedArray reshape and per-row sum are modelled as unflatten / List.sum",
    "float clause: IEEE-754 rounding of 10.**p, products, sums and the division is NOT modelled; the Lean model gives the exact "
    "decimal the digit placement denotes, the implementation is compared with it and with Python float(text) by ulp distance <= 4",
    "float texts: mantissa and exponent may each carry '', '+' or '-'; results that overflow or are subnormal are outside the "
    "ulp clause (skipped)",
]
TRUSTED_EXTRA = ["Python float(str) / repr(float) (correctly rounded) as the reference for the float clauses"]

MANIFEST = {
    "text": "Lean 4 theorems, all inputs: power_array (the shared -1-fill/jump/cumsum table equals [L-1..0] per row for every list "
            "of positive row lengths), width_spec + format_int (ints_to_strings of every batch of int64 values = core Int.repr per "
            "element; the repaired integer digit count is proved equal to the number of digits), parse_int (str_to_int of every "
            "batch of signed digit strings with leading zeros of any length = value, int64 minimum included), parse_format and "
            "spec_roundtrip (round trips), int_lists / split_join / int_lists_roundtrip (List[int] join and split element by "
            "element), batch_independent (a batch is the concatenation of its one-row results), parse_single (non-ragged 1-D path), "
            "digit_matrix + column_ints (the right-aligned zero-filled digit matrix used for integer columns of files, any mix of "
            "widths), column_ints_selection (the column of ANY selection of the rows - index list in any order, with repeats - is "
            "that selection of the values, whichever route the selected rows take), compact_fields + lineRows_wf + lineRows_field + "
            "lazyColumnInts_spec + lazy_column_values (a lazily read table laid out as text, any row selection compacted "
            "as _make_contigous does, the column read from the compacted text: exactly the selected values), parse_missing (optional columns), float_logic_partial / float_logic_sci_partial / float_logic_spec_partial "
            "(for every text of the numeral grammar [+-]I[.F][e[+-]X] the float parser's validity check, sign/dot handling, digit "
            "placement and exponent denote exactly the numeral's value), format_wide / int_to_str_spec (all magnitudes < 10^20), "
            "canonical_unique, parse_int_some_iff (succeeds exactly on the grammar), join_split + split_pieces + splitBy_spec, "
            "digit_lists (List[bool] writer), wrap64_spec, cumsum_get, plus refutations of the rule shipped before the repair "
            "(10^15-1 -> '0999999999999999', -2^63 -> '-2'). Correspondence of the real strops functions (and int/float/List[int] "
            "columns through a delimited buffer) with the Lean model, the Lean spec and an independent Python oracle; float "
            "rounding by ulp distance (<= 4) to Python float(text); repr round trip compared bit-exactly.",
    "note": "IEEE rounding (float parse within 4 ulps, repr round trip) is only corresponded, not proved: the float_logic theorems "
            "cover the logic over exact decimals m*10^e. The repr round trip is not bit-exact in the shipped code (1-3 ulps off for "
            "~30% of doubles): known finding float_roundtrip:inexact-within-4ulp.",
    "technique": "Lean 4 proof (induction over the ragged power table and digit strings) + differential correspondence with the implementation",
    "design": "§6 C18",
}

I64MIN, I64MAX = -2 ** 63, 2 ** 63 - 1


def _strops():
    from bionumpy.io import strops
    return strops


def _bnp():
    import bionumpy as bnp
    from bionumpy.encodings.exceptions import EncodingError
    from bionumpy.encoded_array import EncodingException
    return bnp, (EncodingError, EncodingException)


def _rows(era):
    return [r.to_string() for r in era]


# ---------------------------------------------------------------- helpers

def f2h(x):
    return float(x).hex()


def _ord(x):
    i = struct.unpack("<q", struct.pack("<d", x))[0]
    return -(i & 0x7FFFFFFFFFFFFFFF) if i < 0 else i


def ulps(a, b):
    """distance in representable doubles; inf/nan only equal to themselves"""
    if math.isnan(a) or math.isnan(b):
        return 0 if (math.isnan(a) and math.isnan(b)) else 10 ** 9
    if math.isinf(a) or math.isinf(b):
        return 0 if a == b else 10 ** 9
    return abs(_ord(a) - _ord(b))


def dec_to_float(d):
    """correctly rounded double of m * 10^e"""
    m, e = d["m"], d["e"]
    fr = Fraction(m) * (Fraction(10) ** e)
    try:
        return float(fr)
    except OverflowError:
        return math.inf if fr > 0 else -math.inf


def parse_float_text(t):
    """exact decimal {m, e} of `[-]I[.F][e[+-]X]`, written from the numeral grammar; None if not in the grammar"""
    s = t
    exp = 0
    if "e" in s:
        s, x = s.split("e", 1)
        xs = x[1:] if x[:1] in "+-" else x
        if not xs or not xs.isdigit() or not xs.isascii():
            return None
        exp = int(xs) * (-1 if x[:1] == "-" else 1)
    neg = s.startswith("-")
    if neg or s.startswith("+"):
        s = s[1:]
    if "." in s:
        i, f = s.split(".", 1)
    else:
        i, f = s, ""
        if not i:
            return None
    if not (i + f) or not (i + f).isdigit() or not (i + f).isascii():
        return None
    m = int(i + f)
    return {"m": -m if neg else m, "e": exp - len(f)}


# ---------------------------------------------------------------- cases

def _special_ints():
    out = [0, I64MIN, I64MIN + 1, I64MAX, I64MAX - 1]
    for k in range(0, 19):
        for d in (-2, -1, 0, 1, 2):
            v = 10 ** k + d
            for s in (1, -1):
                if I64MIN <= s * v <= I64MAX:
                    out.append(s * v)
    return sorted(set(out))


def _rand_int(rng):
    w = rng.randint(1, 19)
    v = rng.randrange(10 ** (w - 1) if w > 1 else 0, 10 ** w)
    v = min(v, I64MAX)
    return -v if rng.random() < 0.4 else v


def _int_text(rng, v=None):
    if v is None:
        v = rng.choice(_SPECIAL) if rng.random() < 0.3 else _rand_int(rng)
    t = str(abs(v))
    if rng.random() < 0.3:
        t = "0" * rng.choice([1, 2, 5, 19, 25]) + t
    if v < 0:
        t = "-" + t
    elif rng.random() < 0.2:
        t = "+" + t
    return t


_SPECIAL = _special_ints()


def _float_text(rng, nd=None):
    nd = nd or rng.randint(1, 17)
    digs = str(rng.randint(1, 9)) + "".join(rng.choice("0123456789") for _ in range(nd - 1))
    if rng.random() < 0.15:
        digs = "0" * rng.randint(1, 3) + digs            # leading zeros are not significant digits
    shape = rng.random()
    if shape < 0.2:
        t = digs                                          # integer-looking
    else:
        p = rng.randint(0, len(digs))
        t = digs[:p] + "." + digs[p:]
        if t.startswith(".") and rng.random() < 0.7:
            t = "0" + t
        if t.startswith("0.") and rng.random() < 0.3:
            t = "0." + "0" * rng.randint(1, 6) + t[2:]    # small magnitudes
    sg = rng.random()
    if sg < 0.4:
        t = "-" + t
    elif sg < 0.5:
        t = "+" + t
    if rng.random() < 0.5:
        e = rng.choice([rng.randint(-300, 300), rng.randint(-30, 30), rng.choice([-300, -1, 0, 1, 22, 23, 300])])
        t += "e" + rng.choice(["", "+"] if e >= 0 else ["-"]) + (str(abs(e)) if rng.random() < 0.8 else "%02d" % abs(e))
    return t


def _rand_double(rng):
    k = rng.random()
    if k < 0.4:
        return struct.unpack("<d", struct.pack("<Q", rng.getrandbits(64)))[0]
    if k < 0.7:
        return rng.uniform(-1, 1) * 10 ** rng.randint(-20, 20)
    if k < 0.85:
        return float(rng.randint(-10 ** 6, 10 ** 6)) / rng.choice([1, 2, 4, 8, 10, 100, 1000])
    return float(rng.randint(-2 ** 53, 2 ** 53))


def _finite(x):
    """doubles whose repr is decimal/scientific float text with exponent in -300..300 (the property's float domain)"""
    return x if math.isfinite(x) and (x == 0 or 1e-300 < abs(x) < 1e300) else 1.5


def cases(tier, rng):
    big = tier in ("thorough", "widen")
    S = _SPECIAL
    # ---- formatting: every special value alone, in one batch, and next to a wide / narrow neighbour
    for v in S:
        yield {"op": "fmt", "ns": [v]}
    yield {"op": "fmt", "ns": S}
    yield {"op": "fmt", "ns": S[::-1]}
    for v in S:
        if big or rng.random() < 0.25:
            yield {"op": "fmt", "ns": [v, rng.choice([0, 7, -3])]}
            yield {"op": "fmt", "ns": [rng.choice([I64MAX, I64MIN + 1, 10 ** 18]), v]}
    # every permutation / sub-batch of small batches (independence clause)
    for _ in range(150 if big else 8):
        base = [rng.choice(S) if rng.random() < 0.6 else _rand_int(rng) for _ in range(rng.choice([2, 3, 4]))]
        for k in range(1, len(base) + 1):
            for sub in itertools.permutations(range(len(base)), k):
                yield {"op": "fmt", "ns": [base[i] for i in sub]}
                yield {"op": "parse", "rows": [str(base[i]) for i in sub]}
    for _ in range(12000 if big else 300):
        n = rng.choice([1, 2, 3, 5, 8, 20])
        yield {"op": "fmt", "ns": [rng.choice(S) if rng.random() < 0.3 else (rng.randint(I64MIN, I64MAX) if rng.random() < 0.3 else _rand_int(rng)) for _ in range(n)]}
    # ---- parsing
    for v in S:
        yield {"op": "parse", "rows": [str(v)]}
        yield {"op": "parse", "rows": ["000" + str(v) if v >= 0 else "-000" + str(-v), "5"]}
        if v >= 0:
            yield {"op": "parse", "rows": ["+" + str(v)]}
            yield {"op": "parse1", "s": str(v)}
            yield {"op": "parse1", "s": "00" + str(v)}
    yield {"op": "parse", "rows": [str(v) for v in S]}
    for _ in range(12000 if big else 300):
        n = rng.choice([1, 2, 3, 5, 8])
        yield {"op": "parse", "rows": [_int_text(rng) for _ in range(n)]}
    # round trip through the implementation's own formatter
    for _ in range(4000 if big else 100):
        n = rng.choice([1, 2, 4, 9])
        yield {"op": "roundtrip", "ns": [rng.choice(S) if rng.random() < 0.5 else rng.randint(I64MIN, I64MAX) for _ in range(n)]}
    # ---- int lists
    for _ in range(6000 if big else 200):
        rows = [[rng.choice(S) if rng.random() < 0.3 else _rand_int(rng) for _ in range(rng.choice([0, 1, 1, 2, 3, 6]))]
                for _ in range(rng.choice([1, 2, 3, 5]))]
        if not any(rows):
            rows[0] = [rng.choice(S)]
        yield {"op": "intlists", "rows": rows, "keep_last": rng.random() < 0.3}
        line = rng.choice([r for r in rows if r])
        yield {"op": "splitparse", "text": ",".join(_int_text(rng, v) for v in line)}
    # ---- floats
    for nd in range(1, 18):
        for _ in range(1500 if big else 25):
            n = rng.choice([1, 1, 2, 3, 6])
            rows = [_float_text(rng, nd if i == 0 else None) for i in range(n)]
            yield {"op": "fparse", "rows": rows}
    for t in ["0", "0.0", "-0.0", "1", "1.", ".5", "-.5", "+1.5", "+.5", "+3", "+2.5e+3", "0.1", "0.30000000000000004", "1e0", "1e22", "1e23", "1.5e-300",
              "9.999999999999999e22", "123456789012345678", "1.7976931348623157e308", "2.2250738585072014e-308", "1e-300", "1e300",
              "4.9e-300", "00012.5000", "100000000000000000000.0", "0.000000000000000000001"]:
        yield {"op": "fparse", "rows": [t]}
        yield {"op": "fparse", "rows": [t, "12345.678", "-1e-5"]}
    for _ in range(1000 if big else 40):
        n = rng.choice([1, 2, 5, 40])
        yield {"op": "froundtrip", "xs": [f2h(_finite(_rand_double(rng))) for _ in range(n)]}
    for _ in range(1500 if big else 40):
        rows = [_float_text(rng) for _ in range(rng.choice([2, 3, 4]))]
        yield {"op": "fbatch", "rows": rows}
    # formatting batches that repeat values and contain both zeros (equal as numbers, different doubles and texts)
    for xs in ([0.0, -0.0], [-0.0, 0.0], [0.0, 2.5, -0.0, 2.5, -1.25, 1e16], [-0.0, -0.0, 0.0], [1.5, 1.5], [-0.0, 2.5], [-0.0]):
        yield {"op": "froundtrip", "xs": [f2h(x) for x in xs]}
    for _ in range(400 if big else 40):
        pool = [0.0, -0.0] + [_finite(_rand_double(rng)) for _ in range(rng.choice([1, 2, 3]))]
        pool += [-pool[-1], float(int(pool[-1])) if abs(pool[-1]) < 1e15 else 1.0]
        yield {"op": "froundtrip", "xs": [f2h(rng.choice(pool)) for _ in range(rng.choice([2, 3, 5, 8, 20]))]}
    # ---- the remaining public entry points of strops and the writers/parsers built on them
    for v in S + [2 ** 31, 10 ** 10 - 1]:
        yield {"op": "int_to_str", "n": v}
    yield {"op": "fmt", "ns": []}                                   # the empty batch
    yield {"op": "parse", "rows": []}
    yield {"op": "intlists", "rows": [[], []], "keep_last": False}   # every row empty
    yield {"op": "intlists", "rows": [[]], "keep_last": True}
    for _ in range(300 if big else 40):
        strs = ["".join(rng.choice("ab,;1") for _ in range(rng.choice([0, 1, 2, 5]))) for _ in range(rng.choice([1, 2, 3, 6]))]
        yield {"op": "join", "strs": strs, "sep": rng.choice([",", "\t", ";"]), "keep_last": rng.random() < 0.5}
        text = "".join(rng.choice("12,;,;-") for _ in range(rng.choice([0, 1, 3, 8, 15])))
        yield {"op": "split", "text": text, "seps": rng.choice([[","], [";"], [",", ";"], [";", ",", "-"]]), "as_list": rng.random() < 0.7}
        rows = [[rng.randint(0, 1) for _ in range(rng.choice([0, 1, 2, 5]))] for _ in range(rng.choice([1, 2, 4]))]
        if rng.random() < 0.3:
            rows = [[rng.randint(0, 9) for _ in r] for r in rows]
        yield {"op": "boollists", "rows": rows}
        if all(all(v < 2 for v in r) and r for r in rows):
            yield {"op": "boolcolumn", "lists": rows, "flags": [rng.randint(0, 1) for _ in rows]}
        frows = [rng.choice(["", ".", _float_text(rng), _float_text(rng)]) for _ in range(rng.choice([1, 2, 3, 6, 10]))]
        yield {"op": "fparse_missing", "rows": frows}
        irows = [rng.choice(["", ".", _int_text(rng), _int_text(rng)]) for _ in frows]
        yield {"op": "optcolumn", "ints": irows, "floats": frows}
        k = rng.choice([1, 2, 3])
        yield {"op": "matrix_parse", "cells": [[_float_text(rng) for _ in range(k)] for _ in range(rng.choice([1, 2, 4]))],
               "names": rng.random() < 0.6, "sep": rng.choice(["\t", ","])}
    # texts that are not numbers (lone sign, lone dot, no digit, two dots): reported, never read as a value
    for bad, kind in [("-", "int"), ("+", "int"), ("-", "float"), ("+", "float"), (".", "float"), ("-.", "float"), ("+.", "float"),
                      ("1.2.3", "float"), ("..", "float"), ("-.e3", "float"), ("1..5e2", "float")]:
        for _ in range(3 if big else 1):
            rows = [(_int_text(rng) if kind == "int" else _float_text(rng)) for _ in range(rng.choice([0, 1, 3]))]
            rows.insert(rng.randrange(len(rows) + 1), bad)
            yield {"op": "reject", "kind": kind, "rows": rows}
    # ---- the same functions on fresh, not yet materialised views (row selections / reorderings / slices of a larger array)
    def view():
        return {"kind": rng.choice(VIEW_KINDS), "seed": rng.randrange(10 ** 6)}
    for _ in range(1500 if big else 150):
        n = rng.choice([1, 2, 3, 5, 8])
        ns = [rng.choice(S) if rng.random() < 0.3 else _rand_int(rng) for _ in range(n)]
        yield {"op": "fmt", "ns": ns, "view": view()}
        rows = [[rng.choice(S) if rng.random() < 0.2 else _rand_int(rng) for _ in range(rng.choice([0, 1, 1, 2, 3, 6]))] for _ in range(n)]
        if not any(rows):
            rows[0] = [7]
        yield {"op": "intlists", "rows": rows, "keep_last": rng.random() < 0.3, "view": view()}
        yield {"op": "parse", "rows": [_int_text(rng) for _ in range(n)], "view": view()}
        yield {"op": "fparse", "rows": [_float_text(rng) for _ in range(n)], "view": view()}
        if rng.random() < 0.3:
            k = rng.choice([1, 2, 3])
            yield {"op": "matrix", "rows": [[_rand_int(rng) for _ in range(k)] for _ in range(n)], "view": view()}
        if rng.random() < 0.3:
            yield {"op": "column", "ints": [_rand_int(rng) for _ in range(n)], "unsigned": rng.random() < 0.5,
                   "floats": [f2h(_finite(_rand_double(rng))) for _ in range(n)],
                   "lists": [[_rand_int(rng) for _ in range(rng.choice([1, 2, 4]))] for _ in range(n)], "view": view()}
    # ---- the memory layout of array arguments must not matter: C / Fortran / transposed / strided / negative-stride /
    #      column-sliced views holding the same values
    shapes = [(2, 3), (3, 2), (1, 4), (4, 1), (2, 2), (3, 5), (5, 3)]
    for lay in LAYOUTS_2D:
        for (n, k) in shapes if big else rng.sample(shapes, 4):
            yield {"op": "matrix", "rows": [[rng.choice(S) if rng.random() < 0.2 else _rand_int(rng) for _ in range(k)] for _ in range(n)],
                   "layout": lay}
    yield {"op": "matrix", "rows": [[1, -20, 300], [-4000, 50000, -600000]], "layout": "T"}
    for lay in LAYOUTS_1D:
        for _ in range(20 if big else 4):
            n = rng.choice([1, 2, 3, 6])
            yield {"op": "fmt", "ns": [rng.choice(S) if rng.random() < 0.3 else _rand_int(rng) for _ in range(n)], "layout": lay}
            yield {"op": "froundtrip", "xs": [f2h(rng.choice([0.0, -0.0, 2.5]) if rng.random() < 0.3 else _finite(_rand_double(rng))) for _ in range(n)],
                   "layout": lay}
            yield {"op": "column", "ints": [_rand_int(rng) for _ in range(n)], "unsigned": rng.random() < 0.5,
                   "floats": [f2h(_finite(_rand_double(rng))) for _ in range(n)],
                   "lists": [[_rand_int(rng) for _ in range(rng.choice([1, 2, 4]))] for _ in range(n)], "layout": lay}
    # ---- every integer dtype formats correctly (extremes of the narrower signed / unsigned types)
    for dt, lo, hi in [("int8", -2 ** 7, 2 ** 7 - 1), ("int16", -2 ** 15, 2 ** 15 - 1), ("int32", -2 ** 31, 2 ** 31 - 1),
                       ("int64", I64MIN, I64MAX), ("uint8", 0, 2 ** 8 - 1), ("uint16", 0, 2 ** 16 - 1), ("uint32", 0, 2 ** 32 - 1),
                       ("uint64", 0, 2 ** 64 - 1)]:
        yield {"op": "fmt", "ns": [lo, hi], "dtype": dt}
        yield {"op": "fmt", "ns": [lo], "dtype": dt}
        for _ in range(20 if big else 3):
            yield {"op": "fmt", "dtype": dt, "ns": [rng.choice([lo, hi, lo + 1, hi - 1, 0, rng.randint(lo, hi),
                                                                 max(lo, min(hi, rng.choice(S))), rng.randint(lo, hi)])
                                                    for _ in range(rng.choice([1, 2, 5]))]}
    # ---- overflow-sensitive integers: int32 edge, 10- and 19-character widest entries
    edge32 = [2 ** 31 - 1, 2 ** 31, 2 ** 31 + 1, 2 ** 32 - 1, 2 ** 32, 4999999999, 9999999999, 10 ** 10 - 2, 10 ** 10, -2 ** 31, -2 ** 31 - 1]
    for v in edge32:
        yield {"op": "fmt", "ns": [v]}
        yield {"op": "parse", "rows": [str(v)]}
        yield {"op": "column_ints", "rows": [str(abs(v)), "7"]}
    for _ in range(400 if big else 40):
        n = rng.choice([1, 2, 3, 6])
        widest = rng.choice([10, 19, 19, 20, 9, 11])
        top = rng.choice([I64MAX, 10 ** 18, I64MAX - 1, 10 ** 18 + 1]) if widest >= 19 else rng.randrange(max(2 ** 31 if widest >= 10 else 0, 10 ** (widest - 1)), 10 ** widest)
        vals = [top] + [rng.choice(edge32 + S) if rng.random() < 0.5 else _rand_int(rng) for _ in range(n)]
        vals = [abs(v) if v != I64MIN else 0 for v in vals]
        rng.shuffle(vals)
        rows = [str(v) for v in vals]
        if widest == 20:
            rows[0] = "0" + rows[0].rjust(19, "0")          # leading zeros: 20 characters, value unchanged
        yield {"op": "column_ints", "rows": rows}
        yield {"op": "parse", "rows": rows}
        yield {"op": "fmt", "ns": vals}
        signed = [(-v if rng.random() < 0.4 else v) for v in vals]
        yield {"op": "column_ints", "rows": [str(v) for v in signed]}
    for _ in range(400 if big else 40):
        rows = [rng.choice(["", ".", ".", str(rng.randint(0, 9)), _int_text(rng), _int_text(rng)]) for _ in range(rng.choice([1, 2, 3, 6, 10, 16]))]
        yield {"op": "parse_missing", "rows": rows, "missing": rng.choice([0, -1, 7])}
    yield {"op": "parse_missing", "rows": [".", "."], "missing": 0}
    yield {"op": "parse_missing", "rows": ["", ".", ""], "missing": -1}
    # int64 extremes inside lists and matrices
    for _ in range(200 if big else 20):
        k = rng.choice([1, 2, 3])
        pool = [I64MIN, I64MAX, I64MIN + 1, 10 ** 18, -10 ** 18, 999999999999999, 2 ** 31, 10 ** 10 - 1, 0]
        mat = [[rng.choice(pool) if rng.random() < 0.5 else _rand_int(rng) for _ in range(k)] for _ in range(rng.choice([1, 2, 4]))]
        yield {"op": "matrix", "rows": mat}
        yield {"op": "intlists", "rows": mat, "keep_last": False}
        yield {"op": "splitparse", "text": ",".join(str(v) for v in mat[0])}
    # float texts with >= 19 fractional digits (<= 17 significant) and long zero runs
    for _ in range(300 if big else 30):
        nd = rng.randint(1, 17)
        digs = str(rng.randint(1, 9)) + "".join(rng.choice("0123456789") for _ in range(nd - 1))
        z = rng.randint(max(0, 19 - nd), 30)
        t = rng.choice(["", "-", "+"]) + rng.choice(["0.", "."]) + "0" * z + digs
        if rng.random() < 0.3:
            t += "e" + str(rng.randint(-250, 250))
        yield {"op": "fparse", "rows": [t, "1.5"]}
        t2 = digs + "0" * rng.randint(3, 25) + rng.choice(["", ".", ".0"])
        yield {"op": "fparse", "rows": [t2]}
    # ---- columns of files (delimited buffer: int, float and List[int] columns)
    for _ in range(1000 if big else 30):
        n = rng.choice([1, 2, 3, 6])
        yield {"op": "column", "ints": [rng.choice(S) if rng.random() < 0.4 else _rand_int(rng) for _ in range(n)],
               "unsigned": rng.random() < 0.5,
               "floats": ([f2h(rng.choice([0.0, -0.0, 2.5, -2.5, 1e16])) for _ in range(n)] if rng.random() < 0.3 else
                          [f2h(_finite(_rand_double(rng) if rng.random() < 0.5 else float(_float_text(rng)))) for _ in range(n)]),
               "lists": [[_rand_int(rng) for _ in range(rng.choice([1, 2, 4]))] for _ in range(n)]}


    # ---- sub-batches of a LAZILY read file: rows are selected from the table the reader returns (index list / permutation /
    #      boolean mask / slices: tail, head, stepped, reversed, inner; chained) BEFORE, between and after the accesses to its
    #      number columns; the selected table is also written out in between (the writer compacts the selection in place)
    for _ in range(2500 if big else 220):
        yield _lazy_case(rng)


LAZY_TABLES = {"custom": [("a", "int"), ("b", "int"), ("x", "float"), ("l", "ilist"), ("o", "oint"), ("s", "str")],
               "bed": [("chromosome", "str"), ("start", "int"), ("stop", "int")]}


def _lazy_field(rng, typ, unsigned, equal_width):
    if typ == "int":
        if equal_width:
            return str(rng.randint(100, 999))
        if unsigned:
            v = abs(rng.choice(_SPECIAL) if rng.random() < 0.3 else _rand_int(rng))
            v = min(v, I64MAX)
            return ("0" * rng.choice([1, 2, 5]) if rng.random() < 0.15 else "") + str(v)
        return _int_text(rng)
    if typ == "float":
        return "%d.5" % rng.randint(10, 99) if equal_width else _float_text(rng)
    if typ == "ilist":
        return ",".join(str(_rand_int(rng)) for _ in range(rng.choice([0, 1, 1, 2, 4])))
    if typ == "oint":
        return rng.choice(["", ".", _int_text(rng), str(rng.randint(0, 99))])
    return rng.choice(["chr1", "chr2", "chrX", "c", "scaffold_12", "u"]) if not equal_width else "chr" + rng.choice("123456789")


def _rand_selector(rng, n):
    """a row selection of a table with n rows, as JSON: index list / permutation / boolean mask / slice"""
    k = rng.random()
    if n == 0:
        return {"t": "slice", "v": [None, None, None]}
    if k < 0.2:
        p = list(range(n))
        rng.shuffle(p)
        return {"t": "idx", "v": p, "arr": rng.random() < 0.5}                      # a permutation
    if k < 0.4:
        return {"t": "idx", "v": [rng.randrange(-n, n) for _ in range(rng.choice([1, 2, 3, n, n + 2]))], "arr": rng.random() < 0.5}
    if k < 0.6:
        m = [rng.random() < 0.6 for _ in range(n)]
        if not any(m) and rng.random() < 0.8:
            m[rng.randrange(n)] = True
        if rng.random() < 0.5:
            m[0] = False                                                             # an EARLY row dropped
        return {"t": "mask", "v": m}
    return {"t": "slice", "v": rng.choice([[1, None, None], [None, -1, None], [None, None, 2], [None, None, -1], [1, None, 2],
                                            [rng.randrange(n), None, None], [None, rng.randint(1, n), None], [None, None, -2],
                                            [rng.randrange(n), rng.randint(1, n), None], [n // 2, None, None]])}


def _apply_selector(seq, sel):
    if sel["t"] == "idx":
        return [seq[i] for i in sel["v"]]
    if sel["t"] == "mask":
        return [r for r, m in zip(seq, sel["v"]) if m]
    return seq[slice(*sel["v"])]


def _lazy_tree_steps(rng, n, cols, numeric):
    """several tables alive at once: every selection makes a NEW table ("src" = the register it is taken from, register 0 =
    the table the reader returned), reads and writes name the register they look at ("reg"): a child (slice / mask / index
    list / permutation) is written or read, THEN its parent - or a sibling, or a grandchild - is read for the first time"""
    lens = [n]
    steps = []

    def sel(src, slc=None):
        s_ = slc or _rand_selector(rng, lens[src])
        lens.append(len(_apply_selector(list(range(lens[src])), s_)))
        steps.append({"k": "sel", "sel": s_, "src": src})
        return len(lens) - 1
    if rng.random() < 0.5:
        # the canonical tree: a slice that does not start at row 0 (a VIEW of the parent's offsets in NumPy), the child
        # written / read, then every number column of the PARENT for the first time, then the child again
        a = rng.randrange(1, n) if n > 1 else 0
        child = sel(0, {"t": "slice", "v": rng.choice([[a, None, None], [a, rng.randint(a, n), None], [a, None, 2], [None, None, -1],
                                                        [-max(1, n // 2), None, None]])} if rng.random() < 0.8 else None)
        for _ in range(rng.choice([1, 1, 2])):
            steps.append(rng.choice([{"k": "write", "reg": child}, {"k": "write", "reg": child}, {"k": "get", "reg": child, "col": rng.choice(numeric)}]))
        if rng.random() < 0.4:
            grand = sel(child)
            steps.append({"k": "write", "reg": grand})
        for c_ in rng.sample(numeric, len(numeric)):
            steps.append({"k": "get", "reg": 0, "col": c_})
        steps.append({"k": "get", "reg": child, "col": rng.choice(numeric)})
        if rng.random() < 0.5:
            steps.append({"k": "write", "reg": 0})
        return steps
    for _ in range(rng.randint(3, 9)):
        k = rng.random()
        reg = rng.randrange(len(lens))
        if k < 0.35:
            sel(reg)
        elif k < 0.75:
            steps.append({"k": "get", "reg": reg, "col": rng.choice(numeric) if rng.random() < 0.8 else rng.choice([nm for nm, _ in cols])})
        else:
            steps.append({"k": "write", "reg": reg})
    for reg in rng.sample(range(len(lens)), min(len(lens), 3)):      # at the end: look at up to three of the tables once more
        steps.append({"k": "get", "reg": reg, "col": rng.choice(numeric)})
    return steps


def _lazy_case(rng):
    table = "bed" if rng.random() < 0.3 else "custom"
    cols = LAZY_TABLES[table]
    n = rng.choice([1, 2, 3, 4, 6, 9, 15])
    unsigned = table == "bed" or rng.random() < 0.5        # no sign anywhere in column a: the fixed-width digit matrix route
    equal_width = rng.random() < 0.25                      # lines of equal length: stale offsets would give no error
    rows = [[_lazy_field(rng, typ, unsigned or name != "b", equal_width) for name, typ in cols] for _ in range(n)]
    if table == "custom" and unsigned:
        for r in rows:                                     # column b signed only in some tables
            if rng.random() < 0.5:
                r[1] = _lazy_field(rng, "int", True, equal_width)
    numeric = [name for name, typ in cols if typ != "str"]
    if rng.random() < 0.35:
        return {"op": "lazy_prog", "table": table, "rows": rows, "steps": _lazy_tree_steps(rng, n, cols, numeric),
                "read": rng.choice(["read_chunk", "read_chunk", "read", "chunks"]), "chunk": rng.choice([1, 30, 100])}
    shape = rng.random()
    cur = n
    steps = []

    def sel():
        nonlocal cur
        s_ = _rand_selector(rng, cur)
        cur = len(_apply_selector(list(range(cur)), s_))
        steps.append({"k": "sel", "sel": s_})

    def get(col=None):
        steps.append({"k": "get", "col": col or rng.choice([name for name, _ in cols])})
    if shape < 0.35:                                       # select, then the number columns in some order
        sel()
        if rng.random() < 0.3:
            sel()
        order = list(numeric)
        rng.shuffle(order)
        for c_ in order:
            get(c_)
    elif shape < 0.5:                                      # one column first (cached), select, then the others and the first again
        first = rng.choice(numeric)
        get(first)
        sel()
        for c_ in rng.sample(numeric, len(numeric)):
            get(c_)
    elif shape < 0.65:                                     # select, write the selection, then read its columns; select again
        sel()
        steps.append({"k": "write"})
        get(rng.choice(numeric))
        sel()
        get(rng.choice(numeric))
        get(rng.choice(numeric))
    else:
        for _ in range(rng.randint(2, 7)):
            k = rng.random()
            if k < 0.4:
                sel()
            elif k < 0.9:
                get(rng.choice(numeric) if rng.random() < 0.8 else None)
            else:
                steps.append({"k": "write"})
        get(rng.choice(numeric))
    return {"op": "lazy_prog", "table": table, "rows": rows, "steps": steps,
            "read": rng.choice(["read_chunk", "read_chunk", "read", "chunks"]), "chunk": rng.choice([1, 30, 100])}


def nontrivial(c):
    op = c["op"]
    if op == "lazy_prog":
        return any(st["k"] == "sel" for st in c["steps"]) and len(c["rows"]) >= 2
    if op in ("fmt", "roundtrip"):
        ns = c["ns"]
    elif op == "intlists":
        ns = [v for r in c["rows"] for v in r]
    elif op == "column":
        ns = c["ints"]
    elif op in ("join", "split", "boollists", "boolcolumn", "fparse_missing", "optcolumn", "matrix_parse", "reject"):
        return True
    elif op == "int_to_str":
        ns = [c["n"]]
    elif op == "matrix":
        ns = [v for r in c["rows"] for v in r]
    elif op == "parse_missing":
        return any(r in ("", ".") for r in c["rows"]) and any(r not in ("", ".") for r in c["rows"])
    elif op in ("parse", "splitparse", "parse1", "column_ints"):
        rows = c["rows"] if op in ("parse", "column_ints") else (c["text"].split(",") if op == "splitparse" else [c["s"]])
        try:
            ns = [int(r) for r in rows]
        except ValueError:
            return False
        if any(r[0] in "+-0" and len(r) > 1 for r in rows):
            return True
    else:
        rows = c.get("rows") or c.get("xs")
        return len(rows) >= 2 or any("e" in r or len(r) >= 16 for r in rows)
    if any(n < 0 or n in (I64MIN, I64MAX) for n in ns):
        return True
    if len({len(str(abs(n))) for n in ns}) >= 2:
        return True
    return any(abs(abs(n) - 10 ** (len(str(abs(n))) - 1)) <= 2 or abs(abs(n) - 10 ** len(str(abs(n)))) <= 2 for n in ns)


# ---------------------------------------------------------------- implementation

_ROWBUF = None


def _row_buffer():
    global _ROWBUF
    if _ROWBUF is None:
        from typing import List
        from bionumpy.bnpdataclass import bnpdataclass
        from bionumpy.io.delimited_buffers import DelimitedBuffer

        @bnpdataclass
        class Row:
            a: int
            x: float
            l: List[int]

        class RowBuffer(DelimitedBuffer):
            dataclass = Row

        _ROWBUF = (Row, RowBuffer)
    return _ROWBUF


def _column_ints(c):
    if c["unsigned"]:
        return [abs(v) if v != I64MIN else 0 for v in c["ints"]]
    return list(c["ints"])


def _column_impl(c):
    from npstructures import RaggedArray
    Row, B = _row_buffer()
    floats = [float.fromhex(h) for h in c["floats"]]
    if c.get("view"):
        rows3 = list(zip(_column_ints(c), floats, c["lists"]))
        full, sels = _embed(rows3, c["view"], lambda r: (_junk_int(r), 2.5, _junk_ints(r) or [1]))
        data = Row(np.array([t[0] for t in full], dtype=np.int64), np.array([t[1] for t in full]), RaggedArray([t[2] for t in full]))
        for sel in sels:
            data = data[sel]
    else:
        lay = c.get("layout", "C")
        data = Row(_layout1d(_column_ints(c), lay), _layout1d(floats, lay, np.float64), RaggedArray(c["lists"]))
    raw = B.from_data(data)
    text = bytes(np.asarray(raw.raw(), dtype=np.uint8)).decode("ascii")
    buf = B.from_raw_buffer(np.frombuffer(text.encode("ascii"), dtype=np.uint8).copy())
    back = buf.get_data()
    return {"lines": text.split("\n"), "a": [int(v) for v in back.a], "x": [f2h(v) for v in back.x],
            "l": [[int(v) for v in r] for r in back.l]}


def _matrix_text(c):
    k = len(c["cells"][0])
    cols = ["c%d" % i for i in range(k)]
    head = (["name"] if c["names"] else []) + cols
    lines = [c["sep"].join(head)]
    for i, r in enumerate(c["cells"]):
        lines.append(c["sep"].join((["r%d" % i] if c["names"] else []) + r))
    return "\n".join(lines) + "\n"


_BOOLBUF = None
_OPTBUF = None


def _boolcolumn_impl(c):
    """bool and List[bool] columns written and read back through a DelimitedBuffer"""
    global _BOOLBUF
    from npstructures import RaggedArray
    if _BOOLBUF is None:
        from typing import List
        from bionumpy.bnpdataclass import bnpdataclass
        from bionumpy.io.delimited_buffers import DelimitedBuffer

        @bnpdataclass
        class BoolRow:
            b: bool
            l: List[bool]

        class BoolRowBuffer(DelimitedBuffer):
            dataclass = BoolRow

        _BOOLBUF = (BoolRow, BoolRowBuffer)
    Row, B = _BOOLBUF
    data = Row(np.array(c["flags"], dtype=bool), RaggedArray([[bool(v) for v in r] for r in c["lists"]]))
    text = bytes(np.asarray(B.from_data(data).raw(), dtype=np.uint8)).decode("ascii")
    back = B.from_raw_buffer(np.frombuffer(text.encode("ascii"), dtype=np.uint8).copy()).get_data()
    return {"lines": text.split("\n"), "b": [int(v) for v in back.b], "l": [[int(v) for v in r] for r in back.l]}


def _optcolumn_impl(c):
    """Optional[int] / Optional[float] columns ('.' or empty = missing) read through a DelimitedBuffer, and the Optional[int]
    column written back"""
    global _OPTBUF
    if _OPTBUF is None:
        from typing import Optional
        from bionumpy.bnpdataclass import bnpdataclass
        from bionumpy.io.delimited_buffers import DelimitedBuffer

        @bnpdataclass
        class OptRow:
            o: Optional[int]
            f: Optional[float]
            s: str

        class OptRowBuffer(DelimitedBuffer):
            dataclass = OptRow

        @bnpdataclass
        class OptOut:
            o: Optional[int]
            s: str

        class OptOutBuffer(DelimitedBuffer):
            dataclass = OptOut

        _OPTBUF = (OptRowBuffer, OptOut, OptOutBuffer)
    B, Out, OB = _OPTBUF
    text = "".join("%s\t%s\tz\n" % (i, f) for i, f in zip(c["ints"], c["floats"]))
    back = B.from_raw_buffer(np.frombuffer(text.encode("ascii"), dtype=np.uint8).copy()).get_data()
    o = [int(v) for v in back.o]
    written = bytes(np.asarray(OB.from_data(Out(np.array(o, dtype=np.int64), ["z"] * len(o))).raw(), dtype=np.uint8)).decode("ascii")
    return {"o": o, "f": [("missing" if math.isnan(v) else f2h(v)) for v in back.f], "written": written.split("\n")}


_INTBUF = None


def _column_ints_impl(c):
    """an integer column read through a DelimitedBuffer (fixed-width digit matrix, or the ragged path when signed)"""
    global _INTBUF
    if _INTBUF is None:
        from bionumpy.bnpdataclass import bnpdataclass
        from bionumpy.io.delimited_buffers import DelimitedBuffer

        @bnpdataclass
        class IntRow:
            a: int
            s: str

        class IntRowBuffer(DelimitedBuffer):
            dataclass = IntRow

        _INTBUF = IntRowBuffer
    text = "".join(t + "\tz\n" for t in c["rows"])
    buf = _INTBUF.from_raw_buffer(np.frombuffer(text.encode("ascii"), dtype=np.uint8).copy())
    return [int(v) for v in buf.get_data().a]


_LAZYBUF = None


def _lazy_buffer():
    global _LAZYBUF
    if _LAZYBUF is None:
        from typing import List, Optional
        from bionumpy.bnpdataclass import bnpdataclass
        from bionumpy.io.delimited_buffers import DelimitedBuffer

        @bnpdataclass
        class LazyRow:
            a: int
            b: int
            x: float
            l: List[int]
            o: Optional[int]
            s: str

        class LazyRowBuffer(DelimitedBuffer):
            dataclass = LazyRow

        _LAZYBUF = LazyRowBuffer
    return _LAZYBUF


def _np_selector(sel):
    if sel["t"] == "idx":
        return np.array(sel["v"], dtype=int) if sel.get("arr") else list(sel["v"])
    if sel["t"] == "mask":
        return np.array(sel["v"], dtype=bool)
    return slice(*sel["v"])


def _lazy_column(table, typ):
    if typ == "int" or typ == "oint":
        return [int(v) for v in table]
    if typ == "float":
        return [f2h(v) for v in table]
    if typ == "ilist":
        return [[int(v) for v in r] for r in table]
    return [str(v) for v in table.tolist()]


def _lazy_line(fields, cols):
    """the numbers (and texts) one written line denotes, read with Python's own int()/float()"""
    if len(fields) != len(cols):
        return {"err": "field-count", "n": len(fields)}
    out = []
    for f, (_, typ) in zip(fields, cols):
        if typ == "int":
            out.append(int(f))
        elif typ == "float":
            out.append(f2h(float(f)))
        elif typ == "ilist":
            out.append([int(v) for v in f.split(",") if v != ""])
        elif typ == "oint":
            out.append("missing" if f in ("", ".") else int(f))
        else:
            out.append(f)
    return out


def _lazy_prog_impl(c):
    import shutil
    import tempfile
    import bionumpy as bnp
    cols = LAZY_TABLES[c["table"]]
    d = tempfile.mkdtemp(prefix="c18-")
    try:
        suffix = ".bed" if c["table"] == "bed" else ".txt"
        kw = {} if c["table"] == "bed" else {"buffer_type": _lazy_buffer()}
        p = d + "/t" + suffix
        with open(p, "w") as fh:
            fh.write("".join("\t".join(r) + "\n" for r in c["rows"]))
        f = bnp.open(p, **kw)
        if c["read"] == "read_chunk":
            t = f.read_chunk()
        elif c["read"] == "read":
            t = f.read()
        else:
            t = np.concatenate(list(f.read_chunks(min_chunk_size=c["chunk"])))
        out = []
        n_written = 0
        regs = [t]                 # every table made by the program stays alive: register 0 = what the reader returned
        for st in c["steps"]:
            if st["k"] == "sel":
                regs.append(regs[st.get("src", -1)][_np_selector(st["sel"])])
            elif st["k"] == "get":
                typ = dict(cols)[st["col"]]
                out.append(_lazy_column(getattr(regs[st.get("reg", -1)], st["col"]), typ))
            else:
                q = d + "/w%d%s" % (n_written, suffix)
                n_written += 1
                with bnp.open(q, "w", **kw) as w:
                    w.write(regs[st.get("reg", -1)])
                lines = open(q).read().split("\n")
                if lines[-1] != "":
                    return {"err": "written-file-does-not-end-with-newline"}
                out.append([_lazy_line(ln.split("\t"), cols) for ln in lines[:-1]])
        return out
    finally:
        shutil.rmtree(d, ignore_errors=True)


LAYOUTS_2D = ["C", "F", "T", "strided", "neg", "colslice", "Tstrided"]
LAYOUTS_1D = ["C", "col", "fcol", "step", "neg", "row_of_F"]


def _layout2d(rows, kind, dtype=np.int64):
    """an array equal to np.array(rows) whose MEMORY LAYOUT is `kind`: C-contiguous, Fortran-ordered, a transposed view,
    a strided / negative-stride / column-sliced view of a larger array, a strided view of a transposed array"""
    a = np.array(rows, dtype=dtype)
    n, k = a.shape
    if kind == "C":
        out = a
    elif kind == "F":
        out = np.asfortranarray(a)
    elif kind == "T":
        out = np.ascontiguousarray(a.T).T
    elif kind == "strided":
        big = np.full((2 * n, 2 * k), 7, dtype=dtype)
        big[::2, ::2] = a
        out = big[::2, ::2]
    elif kind == "neg":
        out = np.ascontiguousarray(a[::-1, ::-1])[::-1, ::-1]
    elif kind == "colslice":
        big = np.full((n, k + 2), 7, dtype=dtype)
        big[:, 1:-1] = a
        out = big[:, 1:-1]
    elif kind == "Tstrided":
        big = np.full((2 * k, n), 7, dtype=dtype)
        big[::2, :] = a.T
        out = big[::2, :].T
    else:
        raise ValueError(kind)
    assert out.shape == a.shape and (out == a).all()
    return out


def _layout1d(values, kind, dtype=np.int64):
    """a 1-d array equal to np.array(values) laid out as `kind` (a column of a C matrix, a column of an F matrix, every
    second element, a reversed view, a row of an F matrix)"""
    a = np.array(values, dtype=dtype)
    n = a.size
    if kind == "C" or n == 0:
        return a
    if kind == "col":
        big = np.full((n, 3), 7, dtype=dtype); big[:, 1] = a; out = big[:, 1]
    elif kind == "fcol":
        big = np.asfortranarray(np.full((n, 3), 7, dtype=dtype)); big[:, 1] = a; out = big[:, 1]
    elif kind == "step":
        big = np.full(2 * n, 7, dtype=dtype); big[::2] = a; out = big[::2]
    elif kind == "neg":
        out = np.ascontiguousarray(a[::-1])[::-1]
    elif kind == "row_of_F":
        big = np.asfortranarray(np.full((3, n), 7, dtype=dtype)); big[1, :] = a; out = big[1, :]
    else:
        raise ValueError(kind)
    assert (out == a).all() or a.dtype.kind == "f"
    return out


VIEW_KINDS = ["order", "mask", "tail", "head", "step", "rev", "mask+order", "order+tail"]


def _embed(rows, view, junk):
    """(full_rows, selectors): a larger list of rows and index expressions such that full[sel0][sel1]... == rows.
    Deterministic in the case (view = {"kind", "seed"}); `junk(rng)` makes a filler row."""
    import random as _r
    rng = _r.Random(view["seed"])
    full, sels = list(rows), []
    for kind in reversed(view["kind"].split("+")):      # built inside-out: the last selector applied is embedded first
        n = len(full)
        if kind == "order":
            p = list(range(n))
            rng.shuffle(p)
            new = [None] * n
            for i, t in enumerate(p):
                new[t] = full[i]
            full, sel = new, list(p)
        elif kind == "mask":
            keep, new = [], []
            for r in full:
                while rng.random() < 0.4:
                    new.append(junk(rng)); keep.append(False)
                new.append(r); keep.append(True)
            if rng.random() < 0.6:
                new.append(junk(rng)); keep.append(False)
            full, sel = new, np.array(keep, dtype=bool)
        elif kind == "tail":
            full, sel = [junk(rng)] + full, slice(1, None)
        elif kind == "head":
            full, sel = full + [junk(rng)], slice(None, -1)
        elif kind == "step":
            new = []
            for r in full:
                new += [r, junk(rng)]
            full, sel = new, slice(None, None, 2)
        elif kind == "rev":
            full, sel = full[::-1], slice(None, None, -1)
        else:
            raise ValueError(kind)
        sels.insert(0, sel)
    return full, sels


def _viewed(rows, view, junk, make):
    """the container `make(full_rows)` with the selectors applied (or just make(rows) without a view)"""
    if not view:
        return make(rows)
    full, sels = _embed(rows, view, junk)
    obj = make(full)
    for sel in sels:
        obj = obj[sel]
    return obj


def _junk_int(rng):
    return rng.choice([0, -7, 10 ** 18, -10 ** 9, 12345678901, 5, I64MAX])


def _junk_ints(rng):
    return [_junk_int(rng) for _ in range(rng.choice([0, 1, 2, 3, 5]))]


def _junk_text(rng):
    return rng.choice(["7", "-123456789012", "0042", "+9", "31415926535897", "8"])


def _junk_ftext(rng):
    return rng.choice(["7.5", "-1234.56789012", "0.0042", "9e3", "3.1415926535897", "8"])


def impl(c):
    st = _strops()
    _, Err = _bnp()
    op = c["op"]
    try:
        if op == "fmt":
            dt = np.dtype(c.get("dtype", "int64"))
            return _rows(st.ints_to_strings(_viewed(c["ns"], c.get("view"), _junk_int if dt == np.int64 else (lambda r: 1),
                                                    lambda rows: _layout1d(rows, c.get("layout", "C"), dt))))
        if op == "parse":
            from bionumpy.encoded_array import as_encoded_array
            if c.get("view"):
                return [int(v) for v in st.str_to_int(_viewed(c["rows"], c["view"], _junk_text, as_encoded_array))]
            return [int(v) for v in st.str_to_int(c["rows"])]
        if op == "parse1":
            from bionumpy.encoded_array import as_encoded_array
            return int(st.str_to_int(as_encoded_array(c["s"])))
        if op == "roundtrip":
            return [int(v) for v in st.str_to_int(st.ints_to_strings(np.array(c["ns"], dtype=np.int64)))]
        if op == "intlists":
            from npstructures import RaggedArray
            return _rows(st.int_lists_to_strings(_viewed(c["rows"], c.get("view"), _junk_ints, RaggedArray), keep_last=c["keep_last"]))
        if op == "splitparse":
            from bionumpy.encoded_array import as_encoded_array
            return [int(v) for v in st.str_to_int(st.split(as_encoded_array(c["text"]), sep=","))]
        if op == "int_to_str":
            r = st.int_to_str(c["n"])
            return [str(r)] if str(r) == r.to_string() else {"err": "str-differs-from-to_string"}
        if op == "join":
            from bionumpy.encoded_array import as_encoded_array
            return st.join(as_encoded_array(c["strs"]), sep=c["sep"], keep_last=c["keep_last"]).to_string()
        if op == "split":
            from bionumpy.encoded_array import as_encoded_array
            sep = c["seps"] if (c.get("as_list") or len(c["seps"]) > 1) else c["seps"][0]
            return _rows(st.split(as_encoded_array(c["text"]), sep=sep))
        if op == "boollists":
            from npstructures import RaggedArray
            return _rows(st.int_lists_to_strings(RaggedArray(c["rows"]).astype(int), sep=""))
        if op == "boolcolumn":
            return _boolcolumn_impl(c)
        if op == "fparse_missing":
            return [("missing" if math.isnan(v) else f2h(v)) for v in st.str_to_float_with_missing(c["rows"])]
        if op == "optcolumn":
            return _optcolumn_impl(c)
        if op == "matrix_parse":
            from bionumpy.io.matrix_dump import parse_matrix
            m = parse_matrix(_matrix_text(c), field_type=float, rowname_type=str if c["names"] else None, sep=c["sep"])
            return {"data": [[f2h(v) for v in r] for r in m.data], "rows": None if m.row_names is None else _rows(m.row_names),
                    "cols": _rows(m.col_names)}
        if op == "reject":
            if c["kind"] == "int":
                return [int(v) for v in st.str_to_int(c["rows"])]
            return [f2h(v) for v in st.str_to_float(c["rows"])]
        if op == "column_ints":
            return _column_ints_impl(c)
        if op == "lazy_prog":
            return _lazy_prog_impl(c)
        if op == "parse_missing":
            return [int(v) for v in st.str_to_int_with_missing(c["rows"], c["missing"])]
        if op == "matrix":
            from bionumpy.io.matrix_dump import matrix_to_csv, parse_matrix
            k = len(c["rows"][0])
            m = _viewed(c["rows"], c.get("view"), lambda r: [_junk_int(r) for _ in range(k)],
                        lambda rows: _layout2d(rows, c.get("layout", "C")))
            text = matrix_to_csv(m, header=["c%d" % i for i in range(m.shape[1])]).to_string()
            back = parse_matrix(text, field_type=int, rowname_type=None, sep=",")
            return {"text": text, "back": [[int(v) for v in r] for r in back.data]}
        if op == "fparse":
            if c.get("view"):
                from bionumpy.encoded_array import as_encoded_array
                return [f2h(v) for v in st.str_to_float(_viewed(c["rows"], c["view"], _junk_ftext, as_encoded_array))]
            return [f2h(v) for v in st.str_to_float(c["rows"])]
        if op == "froundtrip":
            xs = _layout1d([float.fromhex(h) for h in c["xs"]], c.get("layout", "C"), np.float64)
            texts = st.float_to_strings(xs)
            back = st.str_to_float(texts)
            alone = [_rows(st.float_to_strings(xs[i:i + 1]))[0] for i in range(len(xs))]
            rev = _rows(st.float_to_strings(xs[::-1].copy()))[::-1]
            return {"text_ok": [f2h(float(t)) == f2h(x) for t, x in zip(_rows(texts), xs)],      # bit for bit: -0.0 is not 0.0
                    "back": [f2h(v) for v in back], "texts": _rows(texts),
                    "independent": _rows(texts) == alone == rev}
        if op == "fbatch":
            whole = [f2h(v) for v in st.str_to_float(list(c["rows"]))]
            alone = [f2h(st.str_to_float([r])[0]) for r in c["rows"]]
            rev = [f2h(v) for v in st.str_to_float(list(c["rows"])[::-1])][::-1]
            return {"whole": whole, "alone": alone, "reversed": rev}
        if op == "column":
            return _column_impl(c)
    except Err:
        return {"err": "encoding"}
    except Exception as e:
        if type(e).__name__ == "FormatException":
            return {"err": "encoding"}
        return {"err": "other:" + type(e).__name__}


# ---------------------------------------------------------------- oracle (from the property, never calls bionumpy)

def _int_text_value(t):
    s = t[1:] if t[:1] in "+-" else t
    if not s or not s.isascii() or not s.isdigit():
        return None
    v = int(s)
    return -v if t[0] == "-" else v


def oracle(c):
    op = c["op"]
    if op == "int_to_str":
        return [str(c["n"])] if I64MIN <= c["n"] <= I64MAX else SKIP
    if op == "join":
        return c["sep"].join(c["strs"]) + (c["sep"] if c["keep_last"] else "")
    if op == "split":
        import re
        return re.split("[" + re.escape("".join(c["seps"])) + "]", c["text"])
    if op == "boollists":
        return ["".join(str(v) for v in r) for r in c["rows"]] if all(0 <= v <= 9 for r in c["rows"] for v in r) else SKIP
    if op == "boolcolumn":
        return {"lines": ["%d\t%s" % (b, "".join(str(v) for v in l)) for b, l in zip(c["flags"], c["lists"])] + [""],
                "b": list(c["flags"]), "l": c["lists"]}
    if op in ("fparse_missing", "optcolumn"):
        fl = []
        for t in (c["rows"] if op == "fparse_missing" else c["floats"]):
            if t in ("", "."):
                fl.append("missing")
                continue
            d = parse_float_text(t)
            if d is None or not math.isfinite(float(t)) or (float(t) != 0 and abs(float(t)) < 2.3e-308) or ("e" in t and abs(int(t.split("e")[1])) > 300):
                return SKIP
            fl.append(d)
        if op == "fparse_missing":
            return fl
        o = []
        for t in c["ints"]:
            v = 0 if t in ("", ".") else _int_text_value(t)
            if v is None or not (I64MIN <= v <= I64MAX):
                return SKIP
            o.append(v)
        return {"o": o, "f": fl, "written": ["%d\tz" % v for v in o] + [""]}
    if op == "matrix_parse":
        ds = [[parse_float_text(t) for t in r] for r in c["cells"]]
        if any(d is None or not math.isfinite(float(t)) or (float(t) != 0 and abs(float(t)) < 2.3e-308) for r, dr in zip(c["cells"], ds) for t, d in zip(r, dr)):
            return SKIP
        if any("e" in t and abs(int(t.split("e")[1])) > 300 for r in c["cells"] for t in r):
            return SKIP
        return {"data": ds, "rows": ["r%d" % i for i in range(len(ds))] if c["names"] else None,
                "cols": ["c%d" % i for i in range(len(ds[0]))]}
    if op == "reject":
        return {"err": "encoding"}
    if op == "lazy_prog":
        cols = LAZY_TABLES[c["table"]]

        def value(t, typ):
            if typ == "int":
                v = _int_text_value(t)
                return v if v is not None and I64MIN <= v <= I64MAX else None
            if typ == "oint":
                if t in ("", "."):
                    return "missing"
                v = _int_text_value(t)
                return v if v is not None and I64MIN <= v <= I64MAX else None
            if typ == "float":
                dd = parse_float_text(t)
                if dd is None or not math.isfinite(float(t)) or (float(t) != 0 and abs(float(t)) < 2.3e-308) \
                        or ("e" in t and abs(int(t.split("e")[1])) > 300):
                    return None
                return dd
            if typ == "ilist":
                vs = [_int_text_value(u) for u in t.split(",") if u != ""]
                return None if any(v is None or not (I64MIN <= v <= I64MAX) for v in vs) else vs
            return t
        vals = [[value(t, typ) for t, (_, typ) in zip(r, cols)] for r in c["rows"]]
        if any(v is None for r in vals for v in r) or any(len(r) != len(cols) for r in c["rows"]):
            return SKIP
        names = [name for name, _ in cols]
        out = []
        regs = [vals]              # a table is the list of its rows' values, whatever else was derived from it, read or written
        for st in c["steps"]:
            if st["k"] == "sel":
                src = regs[st.get("src", -1)]
                if st["sel"]["t"] == "idx" and any(not (-len(src) <= i < len(src)) for i in st["sel"]["v"]):
                    return SKIP
                if st["sel"]["t"] == "mask" and len(st["sel"]["v"]) != len(src):
                    return SKIP
                regs.append(_apply_selector(src, st["sel"]))
            elif st["k"] == "get":
                j = names.index(st["col"])
                # a missing Optional[int] reads as 0 in the parsed column; in a written line it stays missing
                out.append({"col": [(0 if (cols[j][1] == "oint" and r[j] == "missing") else r[j]) for r in regs[st.get("reg", -1)]],
                            "typ": cols[j][1]})
            else:
                out.append({"lines": [list(r) for r in regs[st.get("reg", -1)]]})
        return out
    if op == "fmt":
        info = np.iinfo(np.dtype(c.get("dtype", "int64")))
        if any(not (int(info.min) <= n <= int(info.max)) for n in c["ns"]):
            return SKIP
        return [str(n) for n in c["ns"]]
    if op == "parse_missing":
        out = []
        for t in c["rows"]:
            if t in ("", "."):
                out.append(c["missing"])
            else:
                v = _int_text_value(t)
                if v is None or not (I64MIN <= v <= I64MAX):
                    return SKIP
                out.append(v)
        return out
    if op == "matrix":
        if not c["rows"] or any(not (I64MIN <= v <= I64MAX) for r in c["rows"] for v in r):
            return SKIP
        k = len(c["rows"][0])
        head = ",".join("c%d" % i for i in range(k)) + "\n"
        return {"text": head + "".join(",".join(str(v) for v in r) + "\n" for r in c["rows"]), "back": c["rows"]}
    if op in ("parse", "splitparse", "parse1", "column_ints"):
        rows = c["rows"] if op in ("parse", "column_ints") else (c["text"].split(",") if op == "splitparse" else [c["s"]])
        vals = [_int_text_value(t) for t in rows]
        if (not rows and op != "parse") or any(v is None or not (I64MIN <= v <= I64MAX) for v in vals):
            return SKIP
        if op == "parse1":
            return vals[0] if c["s"][0] not in "+-" else SKIP
        return vals
    if op == "roundtrip":
        return list(c["ns"])
    if op == "intlists":
        return [",".join(str(v) for v in r) + ("," if c["keep_last"] and r else "") for r in c["rows"]]
    if op == "fparse":
        ds = [parse_float_text(t) for t in c["rows"]]
        if any(d is None for d in ds) or any("e" in t and abs(int(t.split("e")[1])) > 300 for t in c["rows"]):
            return SKIP
        if any(not math.isfinite(float(t)) or (float(t) != 0 and abs(float(t)) < 2.3e-308) for t in c["rows"]):
            return SKIP   # overflow / subnormal results: "units in the last place" is not meaningful there
        return ds
    if op == "froundtrip":
        return {"text_ok": [True] * len(c["xs"]), "back": list(c["xs"]), "texts": [repr(float.fromhex(h)) for h in c["xs"]],
                "independent": True}
    if op == "fbatch":
        if any(parse_float_text(t) is None for t in c["rows"]):
            return SKIP
        return {"independent": True}
    if op == "column":
        ints = _column_ints(c)
        floats = [float.fromhex(h) for h in c["floats"]]
        lines = ["\t".join([str(a), repr(x), ",".join(str(v) for v in l)]) for a, x, l in zip(ints, floats, c["lists"])]
        return {"lines": lines + [""], "a": ints, "x": [f2h(x) for x in floats], "l": c["lists"]}
    return SKIP


ULP_TOL = 4


def _float_rows_ok(got, decs):
    if not isinstance(got, list) or len(got) != len(decs):
        return False
    for h, d in zip(got, decs):
        if d is None:
            return False
        if ulps(float.fromhex(h), dec_to_float(d)) > ULP_TOL:
            return False
    return True


def _opt_float_rows_ok(got, exp):
    if not isinstance(got, list) or len(got) != len(exp):
        return False
    for g, e in zip(got, exp):
        if (g == "missing") != (e == "missing"):
            return False
        if e != "missing" and (e is None or ulps(float.fromhex(g), dec_to_float(e)) > ULP_TOL):
            return False
    return True


def _lazy_value_ok(g, e, typ):
    if typ == "float":
        return isinstance(g, str) and isinstance(e, dict) and ulps(float.fromhex(g), dec_to_float(e)) <= ULP_TOL
    return type(g) is type(e) and g == e


def _lazy_agree(c, got, exp):
    cols = LAZY_TABLES[c["table"]]
    if not isinstance(got, list) or len(got) != len(exp):
        return False
    for g, e in zip(got, exp):
        if not isinstance(g, list):
            return False
        if "col" in e:
            if len(g) != len(e["col"]) or not all(_lazy_value_ok(a, b, e["typ"]) for a, b in zip(g, e["col"])):
                return False
        else:
            if len(g) != len(e["lines"]):
                return False
            for gl, el in zip(g, e["lines"]):
                if not isinstance(gl, list) or len(gl) != len(el) or not all(_lazy_value_ok(a, b, typ) for a, b, (_, typ) in zip(gl, el, cols)):
                    return False
    return True


def agree(c, got, exp):
    op = c["op"]
    if op == "lazy_prog":
        return _lazy_agree(c, got, exp)
    if op == "fparse":
        return _float_rows_ok(got, exp)
    if op == "fparse_missing":
        return _opt_float_rows_ok(got, exp)
    if op == "optcolumn":
        return isinstance(got, dict) and "o" in got and got["o"] == exp["o"] and got["written"] == exp["written"] and _opt_float_rows_ok(got["f"], exp["f"])
    if op == "matrix_parse":
        return (isinstance(got, dict) and "data" in got and got["rows"] == exp["rows"] and got["cols"] == exp["cols"]
                and len(got["data"]) == len(exp["data"]) and all(_float_rows_ok(g, e) for g, e in zip(got["data"], exp["data"])))
    if op == "fbatch":
        return isinstance(got, dict) and "whole" in got and got["whole"] == got["alone"] == got["reversed"]
    if op == "column":
        if not isinstance(got, dict) or "err" in got:
            return False
        if got["lines"] != exp["lines"] or got["a"] != exp["a"] or got["l"] != exp["l"]:
            return False
        return all(ulps(float.fromhex(g), float.fromhex(e)) <= ULP_TOL for g, e in zip(got["x"], exp["x"])) and len(got["x"]) == len(exp["x"])
    return core.canon(got) == core.canon(exp)


def _decs_denote(decs, xs):
    """every exact decimal, correctly rounded, IS the double (the logic-level round trip)"""
    return (isinstance(decs, list) and len(decs) == len(xs)
            and all(d is not None and dec_to_float(d) == float.fromhex(h) for d, h in zip(decs, xs)))   # m*10^e has no signed zero:
    # the sign of a zero is judged on the implementation's text and sign bit (agree), not on the exact decimal


def agree_model(c, got, m):
    if c["op"] == "lazy_prog":
        # the integer columns the program read, each against the Lean model of the column reader on that sub-batch
        b = _lazy_int_batches(c)
        if not isinstance(got, list):
            return all(x == {"err": "encoding"} for x in m) and got == {"err": "encoding"} if m else False
        return len(b) == len(m) and all(k < len(got) and core.canon(got[k]) == core.canon(mv) for (k, _, _), mv in zip(b, m))
    if c["op"] == "fparse":
        return _float_rows_ok(got, m)
    if c["op"] == "fparse_missing":
        return _opt_float_rows_ok(got, m)
    if c["op"] == "reject":
        rejected = (m == {"err": "encoding"}) or (isinstance(m, list) and any(d is None for d in m))
        return rejected == (got == {"err": "encoding"})
    if c["op"] == "froundtrip":
        # the model parses the text the implementation produced; its exact decimal must round to the double, and
        # the implementation's own result must be within the ulp tolerance of it
        return (isinstance(got, dict) and got.get("texts") == [repr(float.fromhex(h)) for h in c["xs"]]
                and _decs_denote(m, c["xs"]) and _float_rows_ok(got["back"], m))
    return core.canon(got) == core.canon(m)


def agree_spec(c, s, exp):
    if c["op"] == "lazy_prog":
        b = _lazy_int_batches(c)
        return len(b) == len(s) and all(core.canon(exp[k]["col"]) == core.canon(sv) for (k, _, _), sv in zip(b, s))
    if c["op"] == "froundtrip":
        return _decs_denote(s, c["xs"])
    if c["op"] == "reject":
        return s is None or (isinstance(s, list) and any(d is None for d in s))
    return core.canon(s) == core.canon(exp)


def _lazy_int_batches(c):
    """for every access to an `int` column in the program: (position among the program's observations, column number,
    file positions of the rows selected at that moment) - the selections are applied here to range(n) with plain list indexing"""
    cols = LAZY_TABLES[c["table"]]
    names = [name for name, _ in cols]
    regs = [list(range(len(c["rows"])))]
    out = []
    k = 0
    for st in c["steps"]:
        if st["k"] == "sel":
            try:
                regs.append(_apply_selector(regs[st.get("src", -1)], st["sel"]))
            except IndexError:
                return None
        else:
            if st["k"] == "get" and dict(cols)[st["col"]] == "int":
                out.append((k, names.index(st["col"]), list(regs[st.get("reg", -1)])))
            k += 1
    return out


def model_request(c):
    if c["op"] == "lazy_prog":
        b = _lazy_int_batches(c)
        if not b or any(len(r) != len(LAZY_TABLES[c["table"]]) for r in c["rows"]):
            return None
        return {"op": "lazy_ints", "lines": c["rows"], "reads": [{"col": col, "sel": sel} for _, col, sel in b]}
    if c["op"] == "froundtrip":
        # the Lean side checks the repr SHAPE of the text (reprGrammar) and then applies the parser's logic
        return {"op": "frepr", "rows": [repr(float.fromhex(h)) for h in c["xs"]]}
    if c["op"] == "int_to_str":
        return {"op": "fmt", "ns": [c["n"]]}
    if c["op"] == "reject":
        return {"op": "parse" if c["kind"] == "int" else "fparse", "rows": c["rows"]}
    return c


def finding_key(c, got, exp):
    op = c["op"]
    if op == "fmt" and not c["ns"]:
        return "ints_to_strings:empty-batch-raises"
    if op == "fmt" and isinstance(got, list) and len(got) == len(exp):
        bad = [(n, g) for n, g, e in zip(c["ns"], got, exp) if g != e]
        if bad and all(n == I64MIN for n, _ in bad):
            return "ints_to_strings:int64-min"
        if bad and all(g == "0" + str(n) or g == "-0" + str(-n) for n, g in bad if n != I64MIN):
            return "ints_to_strings:leading-zero-below-power-of-ten"
        return "ints_to_strings:wrong-text"
    if op == "froundtrip" and isinstance(got, dict) and "back" in got:
        if not all(got["text_ok"]) or got.get("texts") != exp["texts"]:
            return "float_to_strings:text-does-not-denote-the-double"
        if not got.get("independent", True):
            return "float_to_strings:text-depends-on-batch"
        if any((g[0] == "-") != (e[0] == "-") for g, e in zip(got["back"], exp["back"])):
            return "float_roundtrip:sign-changed"
        d = max(ulps(float.fromhex(g), float.fromhex(e)) for g, e in zip(got["back"], exp["back"]))
        return "float_roundtrip:inexact-within-4ulp" if d <= ULP_TOL else "float_roundtrip:off-by-more-than-4ulp"
    if op == "fparse":
        if isinstance(got, dict) and got.get("err") == "encoding" and any(t.startswith("+") for t in c["rows"]):
            return "str_to_float:plus-sign-rejected"
        return "str_to_float:more-than-4ulp-or-error"
    if op == "fbatch":
        if isinstance(got, dict) and got.get("err") == "encoding" and any(t.startswith("+") for t in c["rows"]):
            return "str_to_float:plus-sign-rejected"
        return "str_to_float:row-depends-on-batch"
    if op == "column":
        return "column:" + ("text" if isinstance(got, dict) and got.get("lines") != exp["lines"] else "parsed-value")
    if op == "intlists":
        if isinstance(got, dict) and "err" in got and not any(c["rows"]):
            return "ints_to_strings:empty-batch-raises"
        return "int_lists_to_strings:wrong-text"
    if op == "int_to_str":
        return "int_to_str:wrong-text"
    if op in ("boolcolumn", "boollists"):
        return "list_bool_column:cannot-be-written" if isinstance(got, dict) and "err" in got else op + ":wrong-result"
    if op == "reject":
        return "reject:not-a-number-read-as-a-value"
    if op == "lazy_prog":
        return "lazy_subbatch:" + ("error" if isinstance(got, dict) else "wrong-value")
    return op + ":wrong-result"


# ---------------------------------------------------------------- history / aliasing probe (core.run_check)

def live_cases(tier, rng):
    out = []
    for c in cases("quick", rng):
        if c["op"] in ("fmt", "intlists", "parse", "fparse") and len(out) < (3000 if tier in ("thorough", "widen") else 600):
            out.append(c)
    return out


def impl_live(c):
    """the live result object of the real call (kept by the caller while a later call runs) and its canonicaliser"""
    st = _strops()
    from bionumpy.encoded_array import as_encoded_array
    from npstructures import RaggedArray
    op = c["op"]
    if op == "fmt":
        dt = np.dtype(c.get("dtype", "int64"))
        r = st.ints_to_strings(_viewed(c["ns"], c.get("view"), _junk_int if dt == np.int64 else (lambda q: 1), lambda rows: np.array(rows, dtype=dt)))
        return r, _rows
    if op == "intlists":
        r = st.int_lists_to_strings(_viewed(c["rows"], c.get("view"), _junk_ints, RaggedArray), keep_last=c["keep_last"])
        return r, _rows
    if op == "parse":
        r = st.str_to_int(_viewed(c["rows"], c.get("view"), _junk_text, as_encoded_array))
        return r, (lambda v: [int(x) for x in v])
    r = st.str_to_float(_viewed(c["rows"], c.get("view"), _junk_ftext, as_encoded_array))
    return r, (lambda v: [f2h(x) for x in v])
