"""C09 — genomic arrays are exact, lossless views of dense per-base arrays."""
import itertools
import struct

import numpy as np

from .. import core
from ..core import SKIP

ID = "C09"
RULE = ("(v9: + interval sets in any order within a chromosome x integer type of the position columns (uint8..uint64, int8..int64) x route to the mask / pileup (per-contig functions, Genome.get_intervals in memory, streamed contig by contig); every Genome construction route (constructor / from_dict / from_file, sort_names on/off, filter given or defaulted) over contig names with underscores, dots, bare numbers; a sample of track / geo_track / gi_seq / extract / from_dict / expr cases with narrow or unsigned position columns; v8: + bedGraph files whose value column is spelled every way a float can be written ('.5', '5.', '+.5', '00.5', '5e0', '.5e1', '1e19', signs) at any row, read in memory and streamed; write -> read round trip of get_data() through a file (float / int tracks, masks; fractions, whole numbers, whole numbers past 2**63 / 2**64); genomes with more than 256 chromosomes through get_track / from_dict / t[intervals] / files / expression trees; v7: + two genomes over the same chromosomes in the same / another order (equal-length chromosomes swapped): binary ops "
        "and boolean indexing across them, tables with a chromosome column encoded by the other genome - refused or right by "
        "chromosome name; v6: + genomes past 2^31 / 2^32 / 2^33 bases (sparse observations), narrow value dtypes (uint8, int8, int16, float16, float32) "
        "with python and NumPy scalar operands on either side, dtype and values compared with dense NumPy; v5: + arrays must not follow later in-place edits of their input tables nor of the arrays/records they handed out "
        "(gap-free genome-wide bedGraphs included), two genomes alive at once, query sequences on one GenomicIntervals object "
        "(merged/sorted/clip/... then pileup and mask again), every input table byte-compared after the call; v4: + constructor->to_array for float64/32/16,int64,bool, to_bedgraph, t[intervals]/t[locations], from_dict/from_stream, "
        "read_track from files (memory and streamed), Genome construction variants; v3: genomes with ignored '_' contigs of non-zero size; v2: pileup leaves, t[mask], float trees on the Lean model) exhaustive: every sorted non-overlapping bedGraph of <= 3 records on a contig of size 1..S (quick S<=5, thorough S<=7; "
        "with/without gaps, starting at 0 or later, ending at or before the size, empty), sizes given and None, int and float "
        "values, through GenomicRunLengthArray.from_bedgraph, from_intervals(values=array), Genome.get_track and "
        "Geometry.get_track on genomes of 1..4 chromosomes (every distribution of <= 3 records over chromosomes of size <= 4); "
        "then seeded random: larger tracks, and expression trees over {+,-,*,<,>,==,&,|,~,unary -, scalar operands (both sides), "
        "sum, histogram(bins given)} of depth <= D (quick 3, thorough 4) on int tracks / interval masks (Lean model) and float "
        "tracks (dense NumPy only), evaluated on GenomicArray and on dense NumPy. Non-trivial = the gap / start>0 / end<size "
        "flags are not all default, or >= 2 chromosomes, or expression depth >= 2")
EXHAUSTIVE = {"quick": True, "thorough": True}
PARALLEL = 16
MODEL_OPS = {"big", "rle_to_array", "extract", "track_from_dict", "rle_bedgraph", "from_intervals_arr", "track", "geo_track", "expr", "expr_f"}
ASSUMPTIONS = [
    "bedGraph records are start < stop, sorted, non-overlapping (stop[i] <= start[i+1]) in genome order, last stop <= size; "
    "from_intervals(values=array) additionally needs stop[i] < start[i+1] (the RunLengthArray constructor rejects empty runs)",
    "the run-length engine (npstructures RunLengthArray: slicing, unary/scalar/binary ufuncs with join_runs, sum, histogram) is "
    "external: specified in Lean (sliceRle, mapRle, zipRle, joinPairs, sumRle, histRle), its dense meaning proved about the "
    "specification, and its agreement with npstructures is correspondence only (records of get_data are compared exactly)",
    "floats: values are compared by bit pattern after mapping -0.0 to +0.0 (join_runs uses ==, so a run of -0.0 next to +0.0 is "
    "stored once; both are equal under IEEE ==); generated floats are finite",
    "a float sum is compared with relative tolerance 1e-9 (sum(run length * value) vs NumPy pairwise summation round differently); "
    "an empty bedGraph gives an int64 zero track whatever the intended value type (dtype is not compared, values are)",
    "int64 wrap-around is out of scope: generated values are small; to_array's xor trick is modelled on the 64-bit two's "
    "complement words (enc64/dec64) and proved for values in the int64 range",
    "expression-tree leaves are int tracks (Genome.get_track), interval masks (GenomicIntervals.get_mask) and pileups "
    "(GenomicIntervals.get_pileup; counting by npstructures, so for trees with a pileup leaf the Lean model is compared on dense "
    "values and reductions, not on run boundaries); t[mask] is specified at the dense level (values at the True positions)",
    "file cases (track_file_f, track_rt) use value texts that denote a double exactly and are exact to convert by any correct "
    "reader: dyadic rationals with <= 15 significant digits, scientific notation only with exponent 0..22 (whole numbers up to 1e22); "
    "rounding of arbitrary decimal texts is property C18's subject (known finding float_roundtrip:inexact-within-4ulp) and is not "
    "re-tested here; lower-case 'e' only (an upper-case 'E', 'inf', 'nan' are refused by the reader with a FormatException)",
    "float expression trees are also run on the Lean model (Lean Float = IEEE double in the compiled driver; +,-,*,neg,<,>,== are "
    "exact copies of the NumPy operations, join_runs uses IEEE ==); only the float sum is left to the dense oracle",
]
TRUSTED_EXTRA = []

MANIFEST = {
    "text": "Lean 4 theorems (all inputs): from_bedgraph builds a well-formed run-length array whose dense meaning is the value "
            "under each record and 0 elsewhere with length size (all gap/start/end branch combinations in one statement); "
            "to_array's xor-diff/scatter/xor-accumulate equals the dense meaning (bool, and 64-bit words for int/float); "
            "from_intervals(values=array) likewise; slicing a chromosome, back-conversion to records (expand(records) = slice, "
            "non-overlapping, ordered; booleans give the True runs), ufunc homomorphism for the specified engine (unary, scalar, "
            "binary with join_runs), sum and histogram; and the composition Genome.get_track(...).to_dict(): records shifted by "
            "chromosome offsets, one genome-wide array, slice per chromosome = the dense array of that chromosome's records "
            "(track_dense); t[intervals] rows are the dense slices (extractRows_spec), the dense value at p is the value of the "
            "run containing p (toDense_getElem), get_data followed by from_bedgraph is lossless (roundtrip_records), binary ufunc "
            "results are maximal runs (zipRle_maximal). Correspondence: implementation vs Lean model vs dense NumPy on every small "
            "bedGraph and on random expression trees.",
    "note": "npstructures is specified, not verified; float arithmetic compared with NumPy bitwise modulo the sign of zero.",
    "technique": "Lean 4 proof over an executable model; specified external engine; differential correspondence with the implementation and dense NumPy",
    "design": "§6 C09",
}

_M = {}


def _mods():
    if not _M:
        import bionumpy as bnp
        from bionumpy.datatypes import Interval, BedGraph
        from bionumpy.arithmetics.intervals import GenomicRunLengthArray
        from bionumpy.genomic_data.geometry import Geometry
        _M.update(bnp=bnp, Interval=Interval, BedGraph=BedGraph, G=GenomicRunLengthArray, Geometry=Geometry)
    return _M


def _f2b(x):
    return struct.unpack("<Q", struct.pack("<d", float(x)))[0]


def _b2f(b):
    return struct.unpack("<d", struct.pack("<Q", int(b)))[0]


FLOATS = [_f2b(x) for x in (1.5, -2.25, 0.1, 3.0, -0.5, 1e-3, 7.0, 2.5, -0.0, 0.0)]


def _norm_bits(b):
    return 0 if b == 0x8000000000000000 else b


def _vals(kind, vs):
    if kind == "float":
        return np.array([_b2f(v) for v in vs], dtype=np.float64)
    if kind == "bool":
        return np.array([bool(v) for v in vs], dtype=bool)
    return np.array(vs, dtype=np.int64)


def _out(kind, arr):
    """array -> list of ints in the wire encoding of `kind`"""
    a = np.asarray(arr)
    if a.dtype == np.float64:
        return [_norm_bits(int(x)) for x in a.view(np.uint64).tolist()]
    if a.dtype == np.float32:
        return [0 if x == 0x80000000 else int(x) for x in a.view(np.uint32).tolist()]
    if a.dtype == np.float16:
        return [0 if x == 0x8000 else int(x) for x in a.view(np.uint16).tolist()]
    if a.dtype == bool:
        return [int(x) for x in a.tolist()]
    return [int(x) for x in a.tolist()]


# ------------------------------------------------------------------ generators

def _bedgraphs(S, n):
    """every sorted non-overlapping list of <= n (start, stop) on [0, S]"""
    pts = range(S + 1)
    for k in range(n + 1):
        for c in itertools.combinations_with_replacement(pts, 2 * k):
            iv = [(c[2 * i], c[2 * i + 1]) for i in range(k)]
            if all(a < b for a, b in iv):
                yield iv


def _values(rng, kind, k):
    if kind == "float":
        return [rng.choice(FLOATS) for _ in range(k)]
    return [rng.choice([1, 2, 3, 5, -1, -4, 0, 2]) for _ in range(k)]


def _rand_track(rng, sizes, kind, maxn=4):
    recs = []
    for c, sz in enumerate(sizes):
        pts = sorted(rng.sample(range(sz + 1), min(sz + 1, 2 * rng.randrange(maxn + 1))))
        pts = pts[:len(pts) // 2 * 2]
        ivs = [[pts[i], pts[i + 1]] for i in range(0, len(pts), 2)]
        for i in range(len(ivs) - 1):
            if rng.random() < 0.35:
                ivs[i][1] = ivs[i + 1][0]
        if ivs and rng.random() < 0.3:
            ivs[0][0] = 0
        if ivs and rng.random() < 0.3:
            ivs[-1][1] = sz
        for (a, b), v in zip(ivs, _values(rng, kind, len(ivs))):
            if a < b:
                recs.append([c, a, b, v])
    return recs


def _rand_ivs(rng, sizes):
    out = []
    for c, sz in enumerate(sizes):
        for _ in range(rng.randrange(4)):
            a = rng.randrange(sz)
            out.append([c, a, rng.randrange(a + 1, sz + 1), 1])
    return out


# ---- value TEXTS in bedGraph files. Every text denotes a double exactly (a dyadic rational with <= 15 significant digits; in
# scientific notation a non-negative exponent <= 22), so any correct reader returns that double and no rounding question
# (property C18) arises; what varies is the SPELLING, at every row of the column.
_EXACT = [0.5, 0.25, 0.125, 1.5, 2.75, 3.0, 7.0, 40.0, 0.0625, 10.5, 1024.0, 0.375, 100.0, 6.5]


def _spell(rng, v):
    """one of the spellings of the non-negative exactly representable v (python's float() is the reference reader)"""
    r = repr(float(v))                      # '0.5', '3.0', '1024.0'
    whole = float(v) == int(v)
    forms = [r, r, r + "0", "0" + r, "+" + r]
    if r.startswith("0."):
        forms += [r[1:], r[1:], r[1:] + "0", "+" + r[1:]]                   # '.5'
    if whole:
        i = str(int(v))
        forms += [i, i + ".", i + ".", "+" + i, "00" + i, i + "e0", i + ".e0", i + ".0e0", i + "e+0", i + "e-0"]
        if int(v) % 10 == 0 and int(v) > 0:
            forms += [str(int(v) // 10) + "e1", str(int(v) // 10) + "e+1", "." + str(int(v) // 10) + "e2"]
    else:
        forms += [r + "e0", r + "e+0", r + "e1", r + "e+2"]       # a dyadic mantissa times an exact power of ten: still exact
        if r.startswith("0."):
            forms += [r[1:] + "e0", r[1:] + "e1", "-" + r[1:] + "e3"]
    return rng.choice(forms)


def _spelled_track(rng, sizes, negative=True):
    """records [chrom, start, stop, text]"""
    recs = _rand_track(rng, sizes, "int", maxn=rng.choice([2, 4, 6]))
    if not recs:
        recs = [[0, 0, 1, 0]]
    style = rng.choice(["mixed", "mixed", "mixed", "whole", "dots"])
    for r in recs:
        v = rng.choice(_EXACT if style == "mixed" else ([x for x in _EXACT if x == int(x)] if style == "whole" else [x for x in _EXACT if x < 1]))
        t = _spell(rng, v)
        if negative and rng.random() < 0.2:
            t = "-" + t.lstrip("+-")
        r[3] = t
    if rng.random() < 0.3:        # one huge whole number (past int64 / uint64) among the values
        rng.choice(recs)[3] = rng.choice(["1e19", "2e+19", "30000000000000000000", "5e21", "1e22", "10000000000000000000.", "1.5e19"])
    return recs


# values for the write -> read round trip of get_data(): the shortest repr (what the writer prints) has <= 15 significant
# digits, a decimal exponent in -4..22, and is exact to parse: dyadic fractions, and whole numbers up to 1e22 - the latter
# include magnitudes past 2**63 and 2**64, which no integer type holds
_RT_FRAC = [0.5, -2.25, 1.5, 0.125, 2.5, -0.5, 10.75, 0.0625]
_RT_WHOLE = [3.0, 40.0, 1024.0, -7.0, 1e15, 1e16, 1e19, 2e19, -3e19, 9.3e18, 5e21, 1e22, -1e22, 123456789012345.0, 2.0 ** 40, 1.0]


def _many_chrom_cases(rng, big):
    """genomes with more than 256 chromosomes (records and intervals on chromosomes number 255, 256, 257, ..., last)"""
    for N in [257, 300] + [rng.randrange(258, 600) for _ in range(4 if big else 1)]:
        sizes = [rng.choice([1, 2, 3, 5]) for _ in range(N)]
        hot = sorted(set(h for h in (0, 255, 256, 257, N - 2, N - 1, rng.randrange(256, N), rng.randrange(N)) if h < N))
        recs = []
        for c in hot:
            a = rng.randrange(sizes[c])
            recs.append([c, a, rng.randrange(a + 1, sizes[c] + 1), rng.choice([1, 2, 3, 5, -4])])
        recs[-1] = [N - 1, 0, sizes[N - 1], 7]
        yield {"op": "track", "sizes": sizes, "recs": recs, "kind": "int"}
        yield {"op": "geo_track", "sizes": sizes, "recs": recs, "kind": "int"}
        yield {"op": "track_from_dict", "sizes": sizes, "recs": recs, "kind": "int", "via": rng.choice(["dict", "stream"])}
        ivs = [[c, 0, sizes[c], rng.randrange(2)] for c in hot]
        yield {"op": "extract", "sizes": sizes, "recs": recs, "ivs": ivs, "locs": [[c, sizes[c] - 1] for c in hot], "stranded": rng.random() < 0.5}
        if N == 257 or big:
            yield {"op": "track_file", "sizes": sizes, "recs": recs, "k": 2}
        yield {"op": "track_rt", "sizes": sizes, "recs": [r[:3] + [_f2b(float(r[3]))] for r in recs], "kind": "float"}
        yield {"op": "track_rt", "sizes": sizes, "recs": [r[:3] + [1] for r in recs], "kind": "mask"}
        P, T, M = ({"t": "leaf", "i": i} for i in range(3))
        lv = [{"kind": "pileup", "recs": [r[:3] + [1] for r in recs]}, {"kind": "int", "recs": recs}, {"kind": "mask", "recs": [[c, 0, 1, 1] for c in hot]}]
        yield {"op": "expr", "sizes": sizes, "leaves": lv, "tree": {"t": "bin", "f": "add", "a": P, "b": T}, "red": "sum", "idx": M}


_DTS = ["uint8", "uint16", "uint32", "uint64", "int8", "int16", "int32"]
_USNAMES = ["scaffold_10", "chr2", "scaffold_2", "chr1", "NC_000913.3", "chr1_KI270706v1_random", "chrM", "chrUn_GL000195v1", "10", "2", "X"]


def _route_cases(rng, big):
    """interval sets given in ANY order within a chromosome, position columns of every integer type, through every route to a
    mask / pileup: the per-contig functions, Genome.get_intervals in memory, and the same intervals streamed contig by contig"""
    for _ in range(1500 if big else 250):
        sizes = [rng.choice([3, 6, 12, 50]) for _ in range(rng.choice([1, 2, 3]))]
        recs = []
        for cidx, sz in enumerate(sizes):
            rows = []
            for _k in range(rng.choice([0, 1, 2, 3, 5])):
                a = rng.randrange(sz)
                rows.append([cidx, a, rng.randrange(a + 1, sz + 1), 1])
            how = rng.choice(["shuffled", "shuffled", "sorted", "reversed"])
            rows.sort()
            if how == "shuffled":
                rng.shuffle(rows)
            elif how == "reversed":
                rows.reverse()
            recs += rows
        yield {"op": "mask_routes", "sizes": sizes, "recs": recs, "dt": rng.choice(_DTS + ["int64"])}


def _genome_opt_cases(rng, big):
    """every way to make a Genome (constructor / from_dict / from_file, sort_names on and off, the keep-everything filter given
    or defaulted) over contig names with underscores, dots and bare numbers: all contigs must be there, in the promised order"""
    for _ in range(600 if big else 120):
        names = rng.sample(_USNAMES, rng.choice([2, 3, 4, 5]))
        sizes = [rng.choice([4, 5, 8, 12]) for _ in names]
        how = rng.choice(["init", "from_dict", "from_file", "init_filter", "from_dict_filter"])
        recs = []
        for i, sz in enumerate(sizes):
            pts = sorted(rng.sample(range(sz + 1), 2 * rng.randrange(0, 3)))
            recs += [[i, a, b, rng.choice([1, 2, 5, 7])] for a, b in zip(pts[0::2], pts[1::2])]
        yield {"op": "genome_opts", "names": names, "sizes": sizes, "how": how, "sort_names": rng.random() < 0.6, "recs": recs}


BIN_I = ["add", "sub", "mul"]
CMP = ["lt", "gt", "eq"]
BIN_B = ["and", "or"]


def _tree(rng, depth, want, nI, nB):
    """random well-typed tree; want in {'int','bool'}; leaves: ints 0..nI-1, bools nI..nI+nB-1"""
    if depth == 0 or rng.random() < 0.15:
        if want == "int":
            return {"t": "leaf", "i": rng.randrange(nI)}
        if nB and rng.random() < 0.6:
            return {"t": "leaf", "i": nI + rng.randrange(nB)}
        return {"t": "scr", "f": rng.choice(CMP), "a": {"t": "leaf", "i": rng.randrange(nI)}, "k": rng.choice([0, 1, 2, 3])}
    r = rng.random()
    if want == "int":
        if r < 0.5:
            return {"t": "bin", "f": rng.choice(BIN_I), "a": _tree(rng, depth - 1, "int", nI, nB), "b": _tree(rng, depth - 1, "int", nI, nB)}
        if r < 0.65:
            return {"t": "un", "f": "neg", "a": _tree(rng, depth - 1, "int", nI, nB)}
        if r < 0.85:
            return {"t": "scr", "f": rng.choice(BIN_I), "a": _tree(rng, depth - 1, "int", nI, nB), "k": rng.choice([0, 1, 2, -3])}
        return {"t": "scl", "f": rng.choice(BIN_I), "a": _tree(rng, depth - 1, "int", nI, nB), "k": rng.choice([0, 1, 2, -3])}
    if r < 0.35:
        return {"t": "bin", "f": rng.choice(CMP), "a": _tree(rng, depth - 1, "int", nI, nB), "b": _tree(rng, depth - 1, "int", nI, nB)}
    if r < 0.65:
        return {"t": "bin", "f": rng.choice(BIN_B), "a": _tree(rng, depth - 1, "bool", nI, nB), "b": _tree(rng, depth - 1, "bool", nI, nB)}
    if r < 0.8:
        return {"t": "un", "f": "not", "a": _tree(rng, depth - 1, "bool", nI, nB)}
    return {"t": "scr", "f": rng.choice(CMP), "a": _tree(rng, depth - 1, "int", nI, nB), "k": rng.choice([0, 1, 2, 3, -1])}


def _depth(t):
    return 0 if t["t"] == "leaf" else 1 + max(_depth(t[k]) for k in ("a", "b") if k in t)


def cases(tier, rng):
    """the base cases, and for a sample of the table-taking ones the same case with the start / stop columns of the input
    tables in another integer type (uint8..uint64, int8..int32; twice the genome size fits the type)"""
    for c in _base_cases(tier, rng):
        yield c
        if c["op"] in ("track", "geo_track", "gi_seq", "extract", "track_from_dict", "expr") and "sizes" in c and rng.random() < 0.12:
            pool = [d for d in _DTS if np.iinfo(d).max >= 2 * sum(c["sizes"]) + 2]
            if pool:
                yield dict(c, dt=rng.choice(pool))


def _base_cases(tier, rng):
    big = tier in ("thorough", "widen")
    S = 7 if big else 5
    # 1. the raw classmethods on one contig: every bedGraph shape
    for size in range(1, S + 1):
        for iv in _bedgraphs(size, 3):
            for kind in ("int", "float"):
                recs = [[a, b, v] for (a, b), v in zip(iv, _values(rng, kind, len(iv)))]
                yield {"op": "rle_bedgraph", "recs": recs, "size": size, "kind": kind}
                if iv and (big or rng.random() < 0.3):
                    yield {"op": "rle_bedgraph", "recs": recs, "size": None, "kind": kind}
                if all(iv[i][1] < iv[i + 1][0] for i in range(len(iv) - 1)):
                    yield {"op": "from_intervals_arr", "recs": recs, "size": size, "kind": kind}
            if all(iv[i][1] < iv[i + 1][0] for i in range(len(iv) - 1)):
                yield {"op": "from_intervals_arr", "recs": [[a, b, 1] for a, b in iv], "size": size, "kind": "bool"}
                # integer values with a non-integer default: the result type is float64 (values/default sent as its bits)
                iv_ = [rng.choice([2, 3, -1, 0]) for _ in iv]
                for dv in (0.5, -1.25):
                    yield {"op": "from_intervals_arr", "recs": [[a, b, _f2b(float(v))] for (a, b), v in zip(iv, iv_)],
                           "size": size, "kind": "float", "ivals": iv_, "dflt": _f2b(dv)}
                # float values with an integer default other than 0
                fv = _values(rng, "float", len(iv))
                yield {"op": "from_intervals_arr", "recs": [[a, b, v] for (a, b), v in zip(iv, fv)], "size": size,
                       "kind": "float", "dflt": _f2b(3.0), "idflt": 3}
    # 1b. to_array / to_bedgraph straight from the constructor, every value dtype the code special-cases
    for dt in ("float64", "float32", "float16", "int64", "bool"):
        yield {"op": "rle_to_array", "events": [0], "values": [], "dtype": dt, "kind": "float" if dt.startswith("f") else dt[:3].replace("boo", "bool")}
        for _ in range(60 if big else 12):
            n = rng.choice([1, 2, 3, 5])
            ev = [0] + sorted(rng.sample(range(1, 12), n))
            if dt == "bool":
                vals = [rng.randrange(2) for _ in range(n)]
            elif dt == "int64":
                vals = [rng.choice([0, 1, -1, 5, -7, 2 ** 40]) for _ in range(n)]
            else:
                fl = np.array([rng.choice([0.0, -0.0, 1.5, -2.25, 3.0, 0.1]) for _ in range(n)], dtype=dt)
                vals = [int(x) for x in fl.view({"float64": np.uint64, "float32": np.uint32, "float16": np.uint16}[dt]).tolist()]
            yield {"op": "rle_to_array", "events": ev, "values": vals, "dtype": dt,
                   "kind": "float" if dt.startswith("f") else ("bool" if dt == "bool" else "int"),
                   "negzero": {"float64": 2 ** 63, "float32": 2 ** 31, "float16": 2 ** 15}.get(dt, 2 ** 70)}
    # 2. genomes of 1..4 chromosomes: every distribution of <= 3 records
    for nch in (1, 2, 3, 4):
        for sizes in itertools.product((1, 2, 4) if big else (1, 3), repeat=nch):
            per = [list(_bedgraphs(sz, 2 if nch > 1 else 3)) for sz in sizes]
            combos = itertools.product(*per)
            for combo in combos:
                if sum(len(x) for x in combo) > 3:
                    continue
                if not big and nch >= 3 and rng.random() < 0.6:
                    continue
                kind = rng.choice(["int", "int", "float"])
                recs = [[c, a, b, v] for c, iv in enumerate(combo) for (a, b), v in zip(iv, _values(rng, kind, len(iv)))]
                yield {"op": "track", "sizes": list(sizes), "recs": recs, "kind": kind}
                yield {"op": "geo_track", "sizes": list(sizes), "recs": recs, "kind": kind}
    # 2b. the array is a value of its own: edit the input table / the handed-out results afterwards (history of calls)
    def tilings(sizes):       # bedGraphs without any gap over the whole genome
        recs = []
        for cidx, sz in enumerate(sizes):
            cuts = sorted(rng.sample(range(1, sz), min(sz - 1, rng.randrange(0, 3)))) if sz > 1 else []
            pts = [0] + cuts + [sz]
            recs += [[cidx, a, b] for a, b in zip(pts, pts[1:])]
        return recs
    for _ in range(400 if big else 80):
        sizes = [rng.choice([1, 2, 4, 7]) for _ in range(rng.choice([1, 2, 3]))]
        kind = rng.choice(["int", "float"])
        shape = rng.choice(["tiled", "tiled", "gappy"])
        if shape == "tiled":
            recs = [r + [v] for r, v in zip(tilings(sizes), _values(rng, kind, 50))]
        else:
            recs = _rand_track(rng, sizes, kind)
        for entry in ("genome", "geometry", "array"):
            yield {"op": "alias", "sizes": sizes, "recs": recs, "kind": kind, "entry": entry}
        ivs = _rand_ivs(rng, sizes)
        yield {"op": "alias", "sizes": sizes, "recs": ivs, "kind": "int", "entry": rng.choice(["mask", "pileup"])}
    # 2d. genomes past the 32-bit constants (2^31, 2^32, 2^33): run-length encoded, nothing dense is allocated
    for _ in range(300 if big else 60):
        nch = rng.choice([2, 3, 5])
        sizes = [rng.choice([2 ** 31 - 1, 2 ** 31 + 3, 2 ** 32 - 5, 2 ** 32, 2 ** 32 + 9, 2 ** 33 + 1, 7, 1000]) for _ in range(nch)]
        recs, ivs = [], []
        for cidx, sz in enumerate(sizes):
            last = 0
            for base in sorted({0, sz // 2, sz - 12, 2 ** 31 - 4, 2 ** 32 - 4}):      # short records only: rows are expanded
                if base >= last and base + 10 <= sz and rng.random() < 0.5:
                    a, b = sorted(rng.sample(range(base, base + 10), 2))
                    recs.append([cidx, a, b, rng.choice([1, 2, 5, -3])])
                    ivs.append([cidx, max(0, a - 2), min(sz, b + 3)])
                    last = base + 10
        yield {"op": "big", "sizes": sizes, "recs": recs, "ivs": ivs[:6], "kind": "int"}
    # 2e. narrow value dtypes with python / NumPy scalar operands on either side (dtype and values as dense NumPy gives them)
    SC = [("py", 1), ("py", 200), ("py", -3), ("py", 0.5), ("int64", 200), ("int64", 3), ("int64", -50), ("float64", 0.1), ("float64", 3.0),
          ("uint8", 250), ("int8", -100), ("float32", 0.1), ("float16", 0.1), ("elem", 250), ("int16", 30000)]
    for _ in range(500 if big else 100):
        sizes = [rng.choice([3, 6, 9]) for _ in range(rng.choice([1, 2]))]
        dt = rng.choice(["uint8", "int8", "int16", "float32", "float16", "int64", "float64"])
        recs = _rand_track(rng, sizes, "int")
        for r in recs:
            r[3] = rng.choice([3, 100, 60, 127, 1, 0] + ([250] if dt == "uint8" else []))
        if rng.random() < 0.3 and recs:                       # last record up to the very end of the genome
            recs[-1] = [len(sizes) - 1, min(recs[-1][1], sizes[-1] - 1) if recs[-1][0] == len(sizes) - 1 else 0, sizes[-1], recs[-1][3]]
            recs = [r for r in recs[:-1] if r[0] < len(sizes) - 1 or r[2] <= recs[-1][1]] + [recs[-1]]
        ops = [[rng.choice(["add", "sub", "mul", "lt", "gt", "eq"]), rng.choice(["l", "r"])] + list(rng.choice(SC)) for _ in range(3)]
        for o in ops:      # `np.int64(3) < track`: NumPy hands the scalar over as a 0-d array, which the engine rejects (loudly)
            if o[0] in CMP and o[2] != "py":
                o[1] = "r"
        yield {"op": "narrow", "sizes": sizes, "recs": recs, "dtype": dt, "ops": ops}
    # 2f. two genomes over the same chromosomes, possibly in another order (equal lengths among the swapped ones included):
    #     arrays of one combined with arrays of the other, and tables whose chromosome column was encoded by the other
    CN = ["chr2", "chr10", "chrX", "chr1", "chrM"]
    for _ in range(500 if big else 100):
        n = rng.choice([2, 3, 4])
        names = rng.sample(CN, n)
        base = rng.choice([5, 8])
        szs = [base if rng.random() < 0.7 else rng.choice([3, 8, 9]) for _ in names]
        how = rng.choice(["same", "sorted", "perm", "perm", "reversed"])
        if how == "same":
            order = list(range(n))
        elif how == "sorted":
            order = sorted(range(n), key=lambda i: names[i])
        elif how == "reversed":
            order = list(range(n))[::-1]
        else:
            order = rng.sample(range(n), n)
        def recs_on():
            out = []
            for i in range(n):
                pts = sorted(rng.sample(range(szs[i] + 1), 2 * rng.randrange(0, 3)))
                out += [[i, a, b, rng.choice([1, 2, 5, 7])] for a, b in zip(pts[0::2], pts[1::2])]
            return out
        yield {"op": "cross", "names": names, "sizes": szs, "order": order, "how": how, "a": recs_on(), "b": recs_on()}
    # 2c. queries on one GenomicIntervals object in a row (nested / duplicated intervals included)
    for _ in range(600 if big else 120):
        sizes = [rng.choice([3, 6, 12]) for _ in range(rng.choice([1, 2, 3]))]
        ivs = []
        for cidx, sz in enumerate(sizes):
            for _k in range(rng.randrange(4)):
                a = rng.randrange(sz)
                b = rng.randrange(a + 1, sz + 1)
                ivs.append([cidx, a, b, 1])
                if rng.random() < 0.5 and b - a >= 2:          # an interval nested in the previous one
                    a2 = rng.randrange(a, b - 1)
                    ivs.append([cidx, a2, rng.randrange(a2 + 1, b), 1])
        ivs.sort(key=lambda r: (r[0], r[1]))          # merged() asserts the intervals are sorted by start
        yield {"op": "gi_seq", "sizes": sizes, "recs": ivs, "steps": [rng.choice(QUERIES) for _ in range(rng.choice([2, 3, 5]))]}
    for _ in range(40 if big else 8):      # more than ten chromosomes: str() shows the first ten
        sizes = [rng.choice([1, 2, 3]) for _ in range(rng.choice([11, 12, 14]))]
        yield {"op": "track_str", "sizes": sizes, "recs": _rand_track(rng, sizes, "int", maxn=1)}
    # 2g. more than 256 chromosomes
    yield from _many_chrom_cases(rng, big)
    # 2h. bedGraph FILES whose value column is spelled in every way a float can be written ('.5', '5.', '+.5', '5e0', '1e19', ...),
    #     at any row; and the write -> read round trip of get_data() (float / int tracks -> .bdg, masks -> .bed) with fractions,
    #     whole numbers, and whole numbers past 2**63
    for _ in range(1500 if big else 250):
        sizes = [rng.choice([2, 5, 9, 20]) for _ in range(rng.choice([1, 2, 3]))]
        yield {"op": "track_file_f", "sizes": sizes, "recs": _spelled_track(rng, sizes), "k": rng.choice([1, 2, 3])}
        kind = rng.choice(["float", "float", "int", "mask"])
        recs = _rand_track(rng, sizes, "int", maxn=rng.choice([2, 4]))
        if kind == "float":
            pool = rng.choice([_RT_WHOLE, _RT_WHOLE, _RT_FRAC + _RT_WHOLE, _RT_FRAC])
            for r in recs:
                r[3] = _f2b(rng.choice(pool))
        elif kind == "int":
            for r in recs:
                r[3] = rng.choice([1, 2, -3, 0, 7, 2 ** 40, -10 ** 14, 10 ** 15, 255, 256, 65536])
        else:
            recs = _rand_ivs(rng, sizes)
        yield {"op": "track_rt", "sizes": sizes, "recs": recs, "kind": kind}
    # 2i. intervals in any order x integer type of the columns x route to the mask / pileup; Genome construction switches x odd names
    yield from _route_cases(rng, big)
    yield from _genome_opt_cases(rng, big)
    # 3. random larger tracks and expression trees
    N = 3000 if big else 500
    D = 4 if big else 3
    for _ in range(N):
        sizes = [rng.choice([1, 2, 5, 9, 20]) for _ in range(rng.choice([1, 1, 2, 3, 4]))]
        kind = rng.choice(["int", "float"])
        recs = _rand_track(rng, sizes, kind)
        yield {"op": rng.choice(["track", "geo_track"]), "sizes": sizes, "recs": recs, "kind": kind}
        if kind == "int":
            yield {"op": "track_str", "sizes": sizes, "recs": recs}
            yield {"op": "track_from_dict", "sizes": sizes, "recs": recs, "kind": kind, "via": rng.choice(["dict", "stream"])}
            # t[intervals] (stranded or not) and t[locations]
            ivs = [[c, a, b, rng.randrange(2)] for c, a, b, _ in _rand_ivs(rng, sizes)]
            locs = [[c, rng.randrange(sz)] for c, sz in enumerate(sizes) for _ in range(rng.randrange(3))]
            yield {"op": "extract", "sizes": sizes, "recs": recs, "ivs": ivs, "locs": locs, "stranded": rng.random() < 0.5}
            if rng.random() < (0.5 if big else 0.25):
                yield {"op": "track_file", "sizes": sizes, "recs": recs, "k": rng.choice([1, 2, 3])}
        nI, nB = rng.choice([1, 2, 3]), rng.choice([0, 1, 2])
        leaves = [({"kind": "pileup", "recs": _rand_ivs(rng, sizes)} if rng.random() < 0.25 else
                   {"kind": "int", "recs": _rand_track(rng, sizes, "int")}) for _ in range(nI)] + \
                 [{"kind": "mask", "recs": _rand_ivs(rng, sizes)} for _ in range(nB)]
        want = rng.choice(["int", "bool"])
        tree = _tree(rng, rng.randrange(1, D + 1), want, nI, nB)
        red = rng.choice([None, None, "sum", [-3, 0, 1, 2, 5]]) if want == "int" else rng.choice([None, None, "sum"])
        idx = _tree(rng, rng.randrange(0, 3), "bool", nI, nB) if rng.random() < 0.3 else None   # t[mask]
        case = {"op": "expr", "sizes": sizes, "leaves": leaves, "tree": tree, "red": red, "idx": idx}
        if rng.random() < 0.15:
            case["via_file"] = rng.choice(["sorted", "context"])
        elif rng.random() < 0.4:    # ignored ('_') contigs of non-zero size anywhere in the chrom.sizes listing
            case["ignored"] = [[rng.randrange(len(sizes) + 1), rng.choice([1, 3, 7])] for _ in range(rng.choice([1, 1, 2]))]
            case["via_file"] = rng.random() < 0.3
        yield case
        # interval-built arrays on a genome with an ignored contig: reductions that see the whole array
        ign = [[rng.randrange(len(sizes) + 1), rng.choice([1, 2, 5])]]
        lv = [{"kind": "pileup", "recs": _rand_ivs(rng, sizes)}, {"kind": "int", "recs": _rand_track(rng, sizes, "int")},
              {"kind": "mask", "recs": _rand_ivs(rng, sizes)}]
        P, T, M = ({"t": "leaf", "i": i} for i in range(3))
        tr, rd = rng.choice([
            ({"t": "un", "f": "not", "a": M}, "sum"),                                   # (~mask).sum()
            ({"t": "scr", "f": "eq", "a": P, "k": 0}, "sum"),                           # (pileup == 0).sum()
            (P, [0, 1, 2, 5]),                                                          # np.histogram(pileup, bins)
            ({"t": "scl", "f": "sub", "a": P, "k": 1}, "sum"),                          # (1 - pileup).sum()
            ({"t": "bin", "f": "and", "a": M, "b": {"t": "scr", "f": "gt", "a": T, "k": 2}}, "sum"),   # mask & (track > 2)
            ({"t": "bin", "f": "add", "a": P, "b": T}, "sum"),
            (M, "sum")])
        yield {"op": "expr", "sizes": sizes, "leaves": lv, "tree": tr, "red": rd, "idx": None, "ignored": ign,
               "via_file": rng.random() < 0.3}
        # float trees (dense NumPy only)
        leaves = [{"kind": "float", "recs": _rand_track(rng, sizes, "float") or [[0, 0, 1, FLOATS[0]]]} for _ in range(2)] + \
                 [{"kind": "int", "recs": _rand_track(rng, sizes, "int")}]
        ftree = {"t": "bin", "f": rng.choice(BIN_I), "a": _ftree(rng, rng.randrange(0, D)), "b": {"t": "leaf", "i": rng.randrange(2)}}
        if rng.random() < 0.5:
            ftree["a"], ftree["b"] = ftree["b"], ftree["a"]
        if rng.random() < 0.2:
            ftree = {"t": "bin", "f": rng.choice(CMP), "a": ftree, "b": {"t": "leaf", "i": rng.randrange(3)}}
        yield {"op": "expr_f", "sizes": sizes, "leaves": leaves, "tree": ftree, "red": rng.choice([None, "sum"])}


def _ftree(rng, depth):
    if depth == 0 or rng.random() < 0.2:
        return {"t": "leaf", "i": rng.randrange(3)}
    r = rng.random()
    if r < 0.55:
        return {"t": "bin", "f": rng.choice(BIN_I), "a": _ftree(rng, depth - 1), "b": _ftree(rng, depth - 1)}
    if r < 0.7:
        return {"t": "un", "f": "neg", "a": _ftree(rng, depth - 1)}
    return {"t": "scr", "f": rng.choice(BIN_I), "a": _ftree(rng, depth - 1), "k": rng.choice([0.5, 2.0, -1.25, 3])}


def nontrivial(c):
    op = c["op"]
    if op == "from_intervals_arr" and "dflt" in c:
        return True
    if op in ("rle_bedgraph", "from_intervals_arr"):
        r = c["recs"]
        return bool(r) and (r[0][0] > 0 or (c["size"] is not None and r[-1][1] < c["size"])
                            or any(r[i][1] != r[i + 1][0] for i in range(len(r) - 1)))
    if op == "alias":
        return len(c["recs"]) >= 1
    if op == "big":
        return sum(c["sizes"]) >= 2 ** 32 and len(c["recs"]) >= 1
    if op == "cross":
        return c["order"] != list(range(len(c["names"]))) and bool(c["a"]) and bool(c["b"])
    if op == "narrow":
        return len(c["recs"]) >= 1
    if op == "gi_seq":
        return len(c["recs"]) >= 2 and any(q.startswith("merged") for q in c["steps"])
    if op == "rle_to_array":
        return len(c["values"]) >= 1
    if op == "extract":
        return bool(c["ivs"]) or bool(c["locs"])
    if op == "track_file_f":
        return len(c["recs"]) >= 2 and any(not r[3][:1].isdigit() or r[3].endswith(".") or "e" in r[3] for r in c["recs"][1:])
    if op == "track_rt":
        return len(c["recs"]) >= 1
    if op == "mask_routes":
        return len(c["recs"]) >= 2
    if op == "genome_opts":
        return any("_" in n for n in c["names"]) or c["sort_names"]
    if op in ("track", "geo_track", "track_str", "track_from_dict", "track_file"):
        return len(c["sizes"]) >= 2 or len(c["recs"]) >= 2
    return _depth(c["tree"]) >= 2 or bool(c.get("ignored")) or len(c["sizes"]) > 256


# ------------------------------------------------------------------ implementation

_SNAP = []
_DT = [int]        # integer type of the start / stop columns of the tables handed to the package (case key "dt")


def _snap(x):
    """remember an input table and a byte copy of its numeric columns (compared after the call)"""
    cols = {}
    for name in ("start", "stop", "value"):
        if hasattr(x, name):
            cols[name] = np.array(getattr(x, name), copy=True)
    _SNAP.append((x, cols))
    return x


def _mutated():
    out = []
    for x, cols in _SNAP:
        for name, before in cols.items():
            a = np.asarray(getattr(x, name))
            if a.shape != before.shape or a.dtype != before.dtype or a.tobytes() != before.tobytes():
                out.append(name)
    return sorted(set(out))


def _bg(recs, kind, names=None):
    return _snap(_bg0(recs, kind, names))


def _bg0(recs, kind, names=None):
    m = _mods()
    ch = [("chr%d" % (r[0] + 1)) for r in recs] if names is None else [names] * len(recs)
    o = 1 if names is None else 0
    return m["BedGraph"](ch, np.array([r[o] for r in recs], dtype=_DT[0]), np.array([r[o + 1] for r in recs], dtype=_DT[0]),
                         _vals(kind, [r[o + 2] for r in recs]))


def _rle_obs(r, kind):
    return {"events": [int(x) for x in np.asarray(r._events).tolist()], "values": _out(kind, np.asarray(r._values)),
            "dense": _out(kind, r.to_array())}


def _observe(t, sizes):
    d = t.to_dict()
    names = ["chr%d" % (i + 1) for i in range(len(sizes))]
    dict_ = [_out(None, d[n]) for n in names]
    data = t.get_data()
    ch = [names.index(s) for s in data.chromosome.tolist()] if len(data) else []
    if hasattr(data, "value"):
        recs = [[c, int(a), int(b), v] for c, a, b, v in zip(ch, data.start.tolist(), data.stop.tolist(), _out(None, data.value))]
    else:
        recs = [[c, int(a), int(b)] for c, a, b in zip(ch, data.start.tolist(), data.stop.tolist())]
    return {"dict": dict_, "data": recs}


_BIN = {"add": lambda a, b: a + b, "sub": lambda a, b: a - b, "mul": lambda a, b: a * b, "lt": lambda a, b: a < b,
        "gt": lambda a, b: a > b, "eq": lambda a, b: a == b, "and": lambda a, b: a & b, "or": lambda a, b: a | b}


def _ev(t, leaves):
    """the same Python / NumPy operators on GenomicArray leaves (implementation) or dense ndarrays (oracle)"""
    k = t["t"]
    if k == "leaf":
        return leaves[t["i"]]
    if k == "un":
        a = _ev(t["a"], leaves)
        return -a if t["f"] == "neg" else ~a
    if k == "bin":
        return _BIN[t["f"]](_ev(t["a"], leaves), _ev(t["b"], leaves))
    if k == "scr":
        return _BIN[t["f"]](_ev(t["a"], leaves), t["k"])
    if k == "scl":
        return _BIN[t["f"]](t["k"], _ev(t["a"], leaves))
    raise ValueError(k)


def _sizes_dict(sizes):
    return {"chr%d" % (i + 1): s for i, s in enumerate(sizes)}


_TMP = []


def _genome(sizes, ignored=None, via_file=False):
    """genome with the given included chromosomes and, optionally, ignored contigs ('_' in the name, non-zero size)
    placed at the given positions of the chrom.sizes listing"""
    m = _mods()
    if via_file == "sorted":      # names handed over in reverse order, sort_names=True restores chr1..chrN (N <= 9)
        d = _sizes_dict(sizes)
        return m["bnp"].Genome({k: d[k] for k in reversed(list(d))}, sort_names=True)
    if via_file == "context":     # a Genome built from another Genome's context, plus an extra ignored name
        g0 = m["bnp"].Genome.from_dict(_sizes_dict(sizes))
        return m["bnp"].Genome(g0.get_genome_context()).with_ignored_added(["chrM_extra"])
    if not ignored:
        return m["bnp"].Genome.from_dict(_sizes_dict(sizes))
    from bionumpy.genomic_data.genome_context import ignore_underscores
    items = list(_sizes_dict(sizes).items())
    for k, (pos, sz) in enumerate(sorted(ignored)):
        items.insert(min(pos + k, len(items)), ("chrUn_%d" % k, sz))
    if via_file:
        import atexit, os, shutil, tempfile
        if not _TMP:
            _TMP.append(tempfile.mkdtemp(prefix="c09-"))
            atexit.register(shutil.rmtree, _TMP[0], True)
        fn = os.path.join(_TMP[0], "g%d.chrom.sizes" % os.getpid())
        with open(fn, "w") as fh:
            fh.write("".join("%s\t%d\n" % kv for kv in items))
        return m["bnp"].Genome.from_file(fn)
    return m["bnp"].Genome.from_dict(dict(items), filter_function=ignore_underscores)


def _leaf_impl(genome, sizes, leaf):
    m = _mods()
    if leaf["kind"] in ("mask", "pileup"):
        r = leaf["recs"]
        iv = _ivtab(r)
        gi = genome.get_intervals(iv)
        return gi.get_mask() if leaf["kind"] == "mask" else gi.get_pileup()
    return genome.get_track(_bg(leaf["recs"], leaf["kind"]))


def impl(c):
    """the observation of the real calls; if a call changed one of the tables handed to it (start / stop / value columns
    compared byte for byte with a copy taken before) that is reported as well"""
    del _SNAP[:]
    _DT[0] = np.dtype(c["dt"]) if "dt" in c else int
    try:
        out = _impl_raw(c)
    finally:
        _DT[0] = int
    mut = _mutated() if c["op"] not in ("alias",) else []
    del _SNAP[:]
    if mut and isinstance(out, dict):
        return dict(out, mutated_arguments=mut)
    return out


def _ivtab(rows):
    m = _mods()
    return _snap(m["Interval"](["chr%d" % (x[0] + 1) for x in rows], np.array([x[1] for x in rows], dtype=_DT[0]),
                               np.array([x[2] for x in rows], dtype=_DT[0])))


def _obs_arr(t, sizes):
    names = ["chr%d" % (i + 1) for i in range(len(sizes))]
    d = t.to_dict()
    out = {"dict": [_out(None, d[n]) for n in names], "sum": _out(None, np.asarray([np.sum(t)]))[0]}
    data = t.get_data()
    ch = [names.index(x) for x in data.chromosome.tolist()] if len(data) else []
    if hasattr(data, "value"):
        out["data"] = [[k, int(a), int(b), v] for k, a, b, v in zip(ch, data.start.tolist(), data.stop.tolist(), _out(None, data.value))]
    else:
        out["data"] = [[k, int(a), int(b)] for k, a, b in zip(ch, data.start.tolist(), data.stop.tolist())]
    return out, d, data


def _scalar(kind, v):
    """python number, NumPy scalar of the named type, or an element picked out of an int64 array"""
    if kind == "py":
        return v
    if kind == "elem":
        return np.array([v, 40])[0]
    return getattr(np, kind)(v)


def _arr_obs(d, names):
    """dtype and exact values (bit patterns for floats) of per-chromosome arrays"""
    out = []
    for n in names:
        a = np.asarray(d[n])
        out.append([str(a.dtype), _out(None, a)])
    return out


def _impl_cross(c):
    """genome A lists the chromosomes as given, genome B in `order`; results are reported per chromosome NAME; a refusal
    (any exception) is reported as such"""
    m = _mods()
    names, szs, order = c["names"], c["sizes"], c["order"]
    dA = dict(zip(names, szs))
    gA = m["bnp"].Genome.from_dict(dA)
    if c["how"] == "sorted":
        gB = m["bnp"].Genome.from_dict(dict(dA), sort_names=True)
    else:
        gB = m["bnp"].Genome.from_dict({names[i]: szs[i] for i in order})

    def table(recs, in_order):
        rs = sorted(recs, key=lambda r: (in_order.index(r[0]), r[1]))
        return m["BedGraph"]([names[r[0]] for r in rs], np.array([r[1] for r in rs], dtype=int),
                             np.array([r[2] for r in rs], dtype=int), np.array([r[3] for r in rs], dtype=int))
    a = gA.get_track(table(c["a"], list(range(len(names)))))
    b = gB.get_track(table(c["b"], order))

    def by_name(f):
        try:
            r = f()
            d = r.to_dict() if hasattr(r, "to_dict") else r
            return {n: [int(v) for v in np.asarray(d[n]).tolist()] for n in names}
        except Exception as e:
            return {"err": type(e).__name__}
    out = {"a": by_name(lambda: a), "b": by_name(lambda: b),
           "add": by_name(lambda: a + b), "mul": by_name(lambda: a * b), "sub": by_name(lambda: b - a),
           "and": by_name(lambda: (a > 0) & (b > 0)), "lt": by_name(lambda: a < b)}
    try:
        out["index"] = [int(v) for v in np.asarray(a[b > 0]).tolist()]
    except Exception as e:
        out["index"] = {"err": type(e).__name__}
    # a table whose chromosome column was encoded by genome A, handed to genome B (and back to A)
    rs = sorted(c["a"], key=lambda r: (r[0], r[1]))
    iv = gA.get_intervals(m["Interval"]([names[r[0]] for r in rs], np.array([r[1] for r in rs], dtype=int),
                                        np.array([r[2] for r in rs], dtype=int))).get_data() if rs else None
    if iv is not None:
        vals = np.array([r[3] for r in rs], dtype=int)
        for lab, g in (("enc_track_B", gB), ("enc_track_A", gA)):
            out[lab] = by_name(lambda: g.get_track(m["BedGraph"](iv.chromosome, iv.start, iv.stop, vals)))
        for lab, g in (("enc_mask_B", gB), ("enc_mask_A", gA)):
            out[lab] = by_name(lambda: g.get_intervals(m["Interval"](iv.chromosome, iv.start, iv.stop)).get_mask())
    return out


def _impl_alias(c):
    """build an array, look at it, let the caller edit the table it was built from (in place), look again; then
    scribble over the arrays / records the array handed out and look a third time. A second genome with other sizes
    is created and used in between."""
    m = _mods()
    sizes, kind, entry = c["sizes"], c["kind"], c["entry"]
    genome = m["bnp"].Genome.from_dict(_sizes_dict(sizes))
    if entry in ("mask", "pileup"):
        tab = _ivtab(c["recs"])
        gi = genome.get_intervals(tab)
        t = gi.get_mask() if entry == "mask" else gi.get_pileup()
    else:
        tab = _bg0(c["recs"], kind)
        if entry == "genome":
            t = genome.get_track(tab)
        elif entry == "geometry":
            t = m["Geometry"](_sizes_dict(sizes)).get_track(tab)
        else:
            from bionumpy.genomic_data.genomic_track import GenomicArray
            t = GenomicArray.from_bedgraph(tab, genome.get_genome_context())
    first, d, data = _obs_arr(t, sizes)
    derived = t if entry == "mask" else t * 2
    # another genome of the same kind, other sizes, alive at the same time
    other = m["bnp"].Genome.from_dict({"chr1": 3, "chr2": 2, "chrX": 7})
    other_t = other.get_track(_bg0([[0, 0, 3, 4], [1, 0, 1, 9]], "int"))
    # the caller goes on working with HIS table
    if hasattr(tab, "value"):
        tab.value *= 10
        if len(tab):
            tab.value[0] = 77
    if len(tab):
        tab.stop[:] = tab.stop + 1
        tab.start[:] = 0
    second, d2, data2 = _obs_arr(t, sizes)
    # ... and with what the array handed out
    for arr in list(d.values()) + list(d2.values()):
        if arr.size:
            arr[...] = 1 if arr.dtype == bool else 99
    for tb in (data, data2):
        if len(tb):
            tb.start[:] = 0
            if hasattr(tb, "value"):
                tb.value[:] = 55
    third, _, _ = _obs_arr(t, sizes)
    der, _, _ = _obs_arr(derived, sizes)
    oth = [[int(v) for v in other_t.to_dict()[n].tolist()] for n in ("chr1", "chr2", "chrX")]
    return {"first": first, "after_input_edit": second, "after_output_edit": third, "derived": der["dict"], "other": oth}


QUERIES = ["pileup", "mask", "merged0", "merged2", "sorted", "clip", "data", "len", "center"]


def _codes(ch, names):
    if hasattr(ch, "raw") and not isinstance(ch.raw(), str) and getattr(getattr(ch, "encoding", None), "__class__", type(None)).__name__ == "StringEncoding":
        return [int(v) for v in np.asarray(ch.raw()).ravel().tolist()]
    return [names.index(n) for n in ch.tolist()]


def _impl_gi_seq(c):
    """read-only looking queries on ONE GenomicIntervals object, in a row; after every step the pileup and the mask of
    that same object are taken again"""
    m = _mods()
    sizes = c["sizes"]
    names = ["chr%d" % (i + 1) for i in range(len(sizes))]
    genome = m["bnp"].Genome.from_dict(_sizes_dict(sizes))
    tab = _ivtab(c["recs"])
    gi = genome.get_intervals(tab)
    steps = []
    for q in c["steps"]:
        res = None
        if q == "pileup":
            gi.get_pileup()
        elif q == "mask":
            gi.get_mask()
        elif q in ("merged0", "merged2"):
            r = gi.merged(distance=int(q[-1]))
            res = [[k, int(a), int(b)] for k, a, b in zip(_codes(r.chromosome, names), r.start.tolist(), r.stop.tolist())]
        elif q == "sorted":
            r = gi.sorted()
            res = [[k, int(a)] for k, a in zip(_codes(r.chromosome, names), r.start.tolist())]
        elif q == "clip":
            r = gi.clip()
            res = [[int(a), int(b)] for a, b in zip(r.start.tolist(), r.stop.tolist())]
        elif q == "data":
            r = gi.get_data()
            res = [[int(a), int(b)] for a, b in zip(r.start.tolist(), r.stop.tolist())]
        elif q == "len":
            res = len(gi)
        elif q == "center":
            r = gi.get_location("center")
            res = [int(a) for a in r.position.tolist()]
        p, k = gi.get_pileup().to_dict(), gi.get_mask().to_dict()
        steps.append({"q": q, "res": res, "pileup": [[int(v) for v in p[n].tolist()] for n in names],
                      "mask": [[int(v) for v in k[n].tolist()] for n in names]})
    return {"steps": steps}


def _impl_raw(c):
    m = _mods()
    op = c["op"]
    try:
        if op == "alias":
            return _impl_alias(c)
        if op == "cross":
            return _impl_cross(c)
        if op == "big":
            sizes = c["sizes"]
            names = ["chr%d" % (i + 1) for i in range(len(sizes))]
            genome = m["bnp"].Genome.from_dict(_sizes_dict(sizes))
            t = genome.get_track(_bg(c["recs"], "int"))
            d = t.get_data()
            out = {"data": [[names.index(n), int(a), int(b), int(v)] for n, a, b, v in
                            zip(d.chromosome.tolist(), d.start.tolist(), d.stop.tolist(), d.value.tolist())],
                   "sum": int(np.sum(t)), "chrom_sums": [int(t[n].sum()) for n in names], "chrom_len": [int(len(t[n])) for n in names]}
            rows = []
            if c["ivs"]:
                gi = genome.get_intervals(_ivtab([[r[0], r[1], r[2]] for r in c["ivs"]]))
                rows = [[int(v) for v in row.to_array().tolist()] for row in t[gi]]
            out["rows"] = rows
            return out
        if op == "narrow":
            sizes = c["sizes"]
            names = ["chr%d" % (i + 1) for i in range(len(sizes))]
            genome = m["bnp"].Genome.from_dict(_sizes_dict(sizes))
            recs = c["recs"]
            bgt = _snap(m["BedGraph"]([names[r[0]] for r in recs], np.array([r[1] for r in recs], dtype=int),
                                      np.array([r[2] for r in recs], dtype=int), np.array([r[3] for r in recs], dtype=c["dtype"])))
            t = genome.get_track(bgt)
            res = [_arr_obs(t.to_dict(), names)]
            for f, side, kind, v in c["ops"]:
                k = _scalar(kind, v)
                with np.errstate(all="ignore"):
                    r = _BIN[f](k, t) if side == "l" else _BIN[f](t, k)
                res.append(_arr_obs(r.to_dict(), names))
            return {"results": res}
        if op == "gi_seq":
            return _impl_gi_seq(c)
        if op == "rle_bedgraph":
            r = m["G"].from_bedgraph(_bg(c["recs"], c["kind"], names="c"), c["size"])
            return _rle_obs(r, c["kind"])
        if op == "from_intervals_arr":
            recs, kind = c["recs"], c["kind"]
            v = np.array(c["ivals"], dtype=np.int64) if "ivals" in c else _vals(kind, [x[2] for x in recs])
            dv = c["idflt"] if "idflt" in c else (_b2f(c["dflt"]) if "dflt" in c else (False if kind == "bool" else 0))
            r = m["G"].from_intervals(np.array([x[0] for x in recs], dtype=int), np.array([x[1] for x in recs], dtype=int),
                                      c["size"], values=v, default_value=dv)
            return _rle_obs(r, kind)
        if op in ("track", "geo_track"):
            sd = _sizes_dict(c["sizes"])
            bg = _bg(c["recs"], c["kind"])
            t = m["bnp"].Genome.from_dict(sd).get_track(bg) if op == "track" else m["Geometry"](sd).get_track(bg)
            return _observe(t, c["sizes"])
        if op == "track_str":
            t = m["bnp"].Genome.from_dict(_sizes_dict(c["sizes"])).get_track(_bg(c["recs"], "int"))
            return {"str": str(t), "repr": repr(t)}
        if op == "rle_to_array":
            dt = np.dtype(c["dtype"])
            if dt.kind == "f":
                v = np.array(c["values"], dtype={8: np.uint64, 4: np.uint32, 2: np.uint16}[dt.itemsize]).view(dt)
            else:
                v = np.array(c["values"], dtype=dt)
            r = m["G"](np.array(c["events"], dtype=int), v)
            arr = r.to_array()
            if arr.dtype != dt:
                return {"err": "other:dtype-" + str(arr.dtype)}
            b = r.to_bedgraph("chrX")
            return {"dense": _out(None, arr), "bedgraph": [[int(x), int(y), z] for x, y, z in
                                                            zip(b.start.tolist(), b.stop.tolist(), _out(None, np.asarray(b.value).astype(dt) if dt.kind == "f" else b.value))]}
        if op == "track_from_dict":
            genome = m["bnp"].Genome.from_dict(_sizes_dict(c["sizes"]))
            t = genome.get_track(_bg(c["recs"], c["kind"]))
            from bionumpy.genomic_data.genomic_track import GenomicArrayGlobal
            names = list(_sizes_dict(c["sizes"]))
            ctx = genome.get_genome_context()
            if c["via"] == "dict":
                t2 = GenomicArrayGlobal.from_dict({n: t[n] for n in names}, ctx)
            else:
                t2 = GenomicArrayGlobal.from_stream(iter([(n, t[n]) for n in names]), ctx)
            return _observe(t2, c["sizes"])
        if op == "extract":
            genome = m["bnp"].Genome.from_dict(_sizes_dict(c["sizes"]))
            t = genome.get_track(_bg(c["recs"], "int"))
            from bionumpy.datatypes import StrandedInterval
            from bionumpy.genomic_data.genomic_intervals import LocationEntry
            ivs, locs = c["ivs"], c["locs"]
            rows = []
            if ivs:
                x = StrandedInterval(["chr%d" % (r[0] + 1) for r in ivs], np.array([r[1] for r in ivs], dtype=int),
                                     np.array([r[2] for r in ivs], dtype=int), ["+" if r[3] else "-" for r in ivs])
                got = t[genome.get_intervals(x, stranded=c["stranded"])]
                rows = [[int(v) for v in (row.to_array() if hasattr(row, "to_array") else np.asarray(row)).tolist()] for row in got]
            at = []
            if locs:
                le = LocationEntry(["chr%d" % (r[0] + 1) for r in locs], np.array([r[1] for r in locs], dtype=int))
                at = [int(v) for v in np.asarray(t[genome.get_locations(le)]).tolist()]
            return {"rows": rows, "at": at}
        if op == "track_file":
            import os, tempfile, atexit, shutil
            if not _TMP:
                _TMP.append(tempfile.mkdtemp(prefix="c09-"))
                atexit.register(shutil.rmtree, _TMP[0], True)
            fn = os.path.join(_TMP[0], "t%d.bdg" % os.getpid())
            with open(fn, "w") as fh:
                fh.write("".join("chr%d\t%d\t%d\t%d\n" % (r[0] + 1, r[1], r[2], r[3]) for r in c["recs"]))
            genome = m["bnp"].Genome.from_dict(_sizes_dict(c["sizes"]))
            names = list(_sizes_dict(c["sizes"]))
            k = c["k"]
            out = {"mem": [[int(v) for v in genome.read_track(fn).to_dict()[n].tolist()] for n in names]}
            out["sum"] = int(np.sum(genome.read_track(fn, stream=True)).compute())
            out["hist"] = [int(v) for v in np.histogram(genome.read_track(fn, stream=True), bins=[-10, 0, 1, 3, 10]).compute()[0].tolist()]
            d = m["bnp"].compute((genome.read_track(fn, stream=True) * k).get_data())
            out["data"] = [[names.index(n), int(a), int(b), int(v)] for n, a, b, v in
                           zip(d.chromosome.tolist(), d.start.tolist(), d.stop.tolist(), d.value.tolist())]
            d = m["bnp"].compute((genome.read_track(fn, stream=True) > k).get_data())
            out["where"] = [[names.index(n), int(a), int(b)] for n, a, b in zip(d.chromosome.tolist(), d.start.tolist(), d.stop.tolist())]
            return out
        if op == "mask_routes":
            from bionumpy.arithmetics import get_boolean_mask, get_pileup
            sizes = c["sizes"]
            names = list(_sizes_dict(sizes))
            genome = m["bnp"].Genome.from_dict(_sizes_dict(sizes))
            per = [[r for r in c["recs"] if r[0] == i] for i in range(len(sizes))]
            out = {"contig_mask": [[int(v) for v in get_boolean_mask(_ivtab(rs), sz).to_array().tolist()] for rs, sz in zip(per, sizes)],
                   "contig_pileup": [[int(v) for v in get_pileup(_ivtab(rs), sz).to_array().tolist()] for rs, sz in zip(per, sizes)]}
            gi = genome.get_intervals(_ivtab(c["recs"]))
            dm, dp = gi.get_mask().to_dict(), gi.get_pileup().to_dict()
            out["mask"] = [[int(v) for v in dm[n].tolist()] for n in names]
            out["pileup"] = [[int(v) for v in dp[n].tolist()] for n in names]
            d = genome.get_intervals(_ivtab(c["recs"])).as_stream().get_mask().get_data().compute()
            out["streamed"] = [[names.index(n), int(a), int(b)] for n, a, b in zip(d.chromosome.tolist(), d.start.tolist(), d.stop.tolist())]
            return out
        if op == "genome_opts":
            names, szs, how, sn = c["names"], c["sizes"], c["how"], c["sort_names"]
            d = dict(zip(names, szs))
            G = m["bnp"].Genome
            keep = lambda x: True
            if how == "init":
                genome = G(d, sort_names=sn)
            elif how == "init_filter":
                genome = G(d, sort_names=sn, filter_function=keep)
            elif how == "from_dict":
                genome = G.from_dict(d, sort_names=sn)
            elif how == "from_dict_filter":
                genome = G.from_dict(d, sort_names=sn, filter_function=keep)
            else:
                import os, tempfile, atexit, shutil
                if not _TMP:
                    _TMP.append(tempfile.mkdtemp(prefix="c09-"))
                    atexit.register(shutil.rmtree, _TMP[0], True)
                fn = os.path.join(_TMP[0], "o%d.chrom.sizes" % os.getpid())
                with open(fn, "w") as fh:
                    fh.write("".join("%s\t%d\n" % kv for kv in d.items()))
                genome = G.from_file(fn, sort_names=sn, filter_function=keep)
            order = sorted(range(len(names)), key=lambda i: names[i]) if sn else list(range(len(names)))
            rs = sorted(c["recs"], key=lambda r: (order.index(r[0]), r[1]))
            bgt = _snap(m["BedGraph"]([names[r[0]] for r in rs], np.array([r[1] for r in rs], dtype=int),
                                      np.array([r[2] for r in rs], dtype=int), np.array([r[3] for r in rs], dtype=int)))
            t = genome.get_track(bgt)
            dd = t.to_dict()
            data = t.get_data()
            mk = genome.get_intervals(_snap(m["Interval"]([names[r[0]] for r in rs], np.array([r[1] for r in rs], dtype=int),
                                                          np.array([r[2] for r in rs], dtype=int)))).get_mask().to_dict() if rs else None
            return {"order": list(dd.keys()), "gsize": int(genome.size), "ctx": [[k, int(v)] for k, v in genome.get_genome_context().chrom_sizes.items()],
                    "dict": {n: [int(v) for v in dd[n].tolist()] for n in dd}, "sum": int(np.sum(t)),
                    "data": [[n, int(a), int(b), int(v)] for n, a, b, v in zip(data.chromosome.tolist(), data.start.tolist(), data.stop.tolist(), data.value.tolist())],
                    "mask": None if mk is None else {n: [int(v) for v in mk[n].tolist()] for n in mk}}
        if op in ("track_file_f", "track_rt"):
            import os, tempfile, atexit, shutil
            if not _TMP:
                _TMP.append(tempfile.mkdtemp(prefix="c09-"))
                atexit.register(shutil.rmtree, _TMP[0], True)
            sizes = c["sizes"]
            genome = m["bnp"].Genome.from_dict(_sizes_dict(sizes))
            names = list(_sizes_dict(sizes))
            f64 = lambda d: [_out(None, np.asarray(d[n], dtype=np.float64)) for n in names]
            if op == "track_file_f":
                fn = os.path.join(_TMP[0], "f%d.bdg" % os.getpid())
                with open(fn, "w") as fh:
                    fh.write("".join("chr%d\t%d\t%d\t%s\n" % (r[0] + 1, r[1], r[2], r[3]) for r in c["recs"]))
                k = c["k"]
                out = {"mem": f64(genome.read_track(fn).to_dict())}
                out["sum"] = _f2b(float(np.sum(genome.read_track(fn, stream=True)).compute()))
                d = m["bnp"].compute((genome.read_track(fn, stream=True) * k).get_data())
                out["data"] = [[names.index(n), int(a), int(b), v] for n, a, b, v in
                               zip(d.chromosome.tolist(), d.start.tolist(), d.stop.tolist(), _out(None, np.asarray(d.value, dtype=np.float64)))]
                d = (genome.read_track(fn) > k).get_data()
                out["where"] = [[names.index(n), int(a), int(b)] for n, a, b in zip(d.chromosome.tolist(), d.start.tolist(), d.stop.tolist())]
                return out
            kind = c["kind"]
            if kind == "mask":
                t = genome.get_intervals(_ivtab(c["recs"])).get_mask()
                fn = os.path.join(_TMP[0], "r%d.bed" % os.getpid())
            else:
                t = genome.get_track(_bg(c["recs"], kind))
                fn = os.path.join(_TMP[0], "r%d.bdg" % os.getpid())
            with m["bnp"].open(fn, "w") as fh:
                fh.write(t.get_data())
            back = genome.read_intervals(fn).get_mask() if kind == "mask" else genome.read_track(fn)
            return {"first": f64(t.to_dict()), "back": f64(back.to_dict()), "same": int(np.sum(back == t))}
        if op in ("expr", "expr_f"):
            sizes = c["sizes"]
            genome = _genome(sizes, c.get("ignored"), c.get("via_file", False))
            leaves = [_leaf_impl(genome, sizes, l) for l in c["leaves"]]
            with np.errstate(all="ignore"):
                g = _ev(c["tree"], leaves)
                out = _observe(g, sizes)
                out["bool"] = bool(g.dtype == bool)
                if op == "expr":
                    out["gsize"] = int(genome.size)
                    if not (repr(genome).startswith("Genome(") and all(n in str(genome) for n in list(_sizes_dict(sizes))[:10])
                            and list(genome.get_genome_context().chrom_sizes.items()) == list(_sizes_dict(sizes).items())):
                        out["gsize"] = -1     # repr / str / chrom_sizes of the genome do not list the included chromosomes
                if c.get("idx") is not None:
                    sel = g[_ev(c["idx"], leaves)]
                    out["idx"] = _out(None, sel.to_array() if hasattr(sel, "to_array") else np.asarray(sel))
                red = c.get("red")
                if red == "sum":
                    s = np.sum(g)
                    out["sum"] = _out(None, np.asarray([s]))[0]
                elif isinstance(red, list):
                    h, edges = np.histogram(g, bins=red)
                    out["hist"] = [int(x) for x in np.asarray(h).tolist()]
            return out
    except AssertionError:
        return {"err": "other:AssertionError"}
    except Exception as e:
        return {"err": "other:" + type(e).__name__}
    raise ValueError(op)


# ------------------------------------------------------------------ oracle: dense NumPy

def _dense(recs, kind, size, dflt=0):
    a = np.full(size, dflt, dtype={"float": np.float64, "bool": bool}.get(kind, np.int64))
    v = _vals(kind, [r[-1] for r in recs])
    for r, x in zip(recs, v):
        a[r[-3]:r[-2]] = x
    return a


def _ok_bedgraph(recs, size, strict=False):
    if any(not (0 <= r[-3] < r[-2]) for r in recs):
        return False
    for x, y in zip(recs, recs[1:]):
        if (x[-2] >= y[-3]) if strict else (x[-2] > y[-3]):
            return False
    return not recs or size is None or recs[-1][-2] <= size


def _split(sizes, recs):
    return [[r for r in recs if r[0] == c] for c in range(len(sizes))]


def _genome_dense(sizes, leaf):
    if leaf["kind"] in ("mask", "pileup"):
        parts = []
        for c, sz in enumerate(sizes):
            a = np.zeros(sz, dtype=np.int64)
            for r in leaf["recs"]:
                if r[0] == c:
                    a[r[1]:r[2]] += 1
            parts.append(a > 0 if leaf["kind"] == "mask" else a)
        return np.concatenate(parts)
    return np.concatenate([_dense(rs, leaf["kind"], sz) for rs, sz in zip(_split(sizes, leaf["recs"]), sizes)])


def oracle(c):
    op = c["op"]
    if op == "rle_bedgraph":
        if not _ok_bedgraph(c["recs"], c["size"]) or (c["size"] is None and not c["recs"]):
            return SKIP
        n = c["size"] if c["size"] is not None else c["recs"][-1][1]
        return {"dense": _out(c["kind"], _dense(c["recs"], c["kind"], n))}
    if op == "from_intervals_arr":
        if not _ok_bedgraph(c["recs"], c["size"], strict=True):
            return SKIP
        return {"dense": _out(c["kind"], _dense(c["recs"], c["kind"], c["size"], _b2f(c["dflt"]) if "dflt" in c else 0))}
    if op in ("track", "geo_track"):
        sizes = c["sizes"]
        per = _split(sizes, c["recs"])
        if any(not _ok_bedgraph(rs, sz) for rs, sz in zip(per, sizes)) or [r[0] for r in c["recs"]] != sorted(r[0] for r in c["recs"]):
            return SKIP
        return {"dict": [_out(c["kind"], _dense(rs, c["kind"], sz)) for rs, sz in zip(per, sizes)]}
    if op == "cross":
        names, szs = c["names"], c["sizes"]
        da, db = {}, {}
        for n, i in zip(names, range(len(names))):
            for recs, d in ((c["a"], da), (c["b"], db)):
                arr = np.zeros(szs[i], dtype=np.int64)
                for r in recs:
                    if r[0] == i:
                        arr[r[1]:r[2]] = r[3]
                d[n] = arr
        L = lambda f: {n: [int(v) for v in f(da[n], db[n]).tolist()] for n in names}
        exp = {"a": L(lambda x, y: x), "b": L(lambda x, y: y), "add": L(lambda x, y: x + y), "mul": L(lambda x, y: x * y),
               "sub": L(lambda x, y: y - x), "and": L(lambda x, y: (x > 0) & (y > 0)), "lt": L(lambda x, y: x < y),
               "index": [int(v) for n in names for v in da[n][db[n] > 0].tolist()]}
        if c["a"]:
            exp["enc_track_B"] = exp["enc_track_A"] = exp["a"]
            exp["enc_mask_B"] = exp["enc_mask_A"] = L(lambda x, y: x > 0)
        return exp
    if op == "big":
        sizes = c["sizes"]
        per = _split(sizes, c["recs"])
        if any(not _ok_bedgraph(rs, sz) for rs, sz in zip(per, sizes)):
            return SKIP
        data, sums = [], []
        for i, (rs, sz) in enumerate(zip(per, sizes)):      # sparse: the records and the zero runs between them
            pos, tot = 0, 0
            for _, a, b, v in rs:
                tot += (b - a) * v
            sums.append(tot)
        rows = []
        for ch, a, b in c["ivs"]:
            row = [0] * (b - a)
            for _, s_, e_, v in per[ch]:
                for p in range(max(a, s_), min(b, e_)):
                    row[p - a] = v
            rows.append(row)
        return {"sum": sum(sums), "chrom_sums": sums, "chrom_len": list(sizes), "rows": rows, "per": per}
    if op == "narrow":
        sizes = c["sizes"]
        per = _split(sizes, c["recs"])
        if not c["recs"] or any(not _ok_bedgraph(rs, sz) for rs, sz in zip(per, sizes)) or [r[0] for r in c["recs"]] != sorted(r[0] for r in c["recs"]):
            return SKIP            # (an empty bedGraph carries no value dtype)
        names = ["chr%d" % (i + 1) for i in range(len(sizes))]
        dense = {}
        for n, rs, sz in zip(names, per, sizes):
            a = np.zeros(sz, dtype=c["dtype"])
            for r in rs:
                a[r[1]:r[2]] = np.array(r[3], dtype=c["dtype"])
            dense[n] = a
        res = [_arr_obs(dense, names)]
        for f, side, kind, v in c["ops"]:
            try:
                k = _scalar(kind, v)
                with np.errstate(all="ignore"):
                    res.append(_arr_obs({n: (_BIN[f](k, dense[n]) if side == "l" else _BIN[f](dense[n], k)) for n in names}, names))
            except OverflowError:
                return SKIP        # dense NumPy itself rejects the operand (python int out of bounds for the dtype)
        return {"results": res}
    if op == "alias":
        sizes = c["sizes"]
        if c["entry"] in ("mask", "pileup"):
            g = _genome_dense(sizes, {"kind": c["entry"], "recs": c["recs"]})
        else:
            per = _split(sizes, c["recs"])
            if any(not _ok_bedgraph(rs, sz) for rs, sz in zip(per, sizes)) or [r[0] for r in c["recs"]] != sorted(r[0] for r in c["recs"]):
                return SKIP
            g = np.concatenate([_dense(rs, c["kind"], sz) for rs, sz in zip(per, sizes)])
        offs = np.insert(np.cumsum(sizes), 0, 0)
        cut = lambda a: [_out(None, a[offs[i]:offs[i + 1]]) for i in range(len(sizes))]
        one = {"dict": cut(g), "sum": _out(None, np.asarray([np.sum(g)]))[0]}
        return {"obs": one, "derived": cut(g if c["entry"] == "mask" else g * 2), "other": [[4, 4, 4], [9, 0], [0] * 7],
                "bool": c["entry"] == "mask"}
    if op == "gi_seq":
        sizes = c["sizes"]
        per = [[(r[1], r[2]) for r in c["recs"] if r[0] == i] for i in range(len(sizes))]
        pile = [[sum(1 for a, b in I if a <= p < b) for p in range(sz)] for I, sz in zip(per, sizes)]
        mask = [[int(v > 0) for v in row] for row in pile]

        def runs(bits, d):
            out = []
            for p, v in enumerate(bits):
                if v:
                    if out and p <= out[-1][1] + d:
                        out[-1][1] = p + 1
                    else:
                        out.append([p, p + 1])
            return out
        steps = []
        for q in c["steps"]:
            res = None
            if q in ("merged0", "merged2"):
                res = [[i, a, b] for i, row in enumerate(mask) for a, b in runs(row, int(q[-1]))]
            elif q == "sorted":
                res = sorted([r[0], r[1]] for r in c["recs"])
            elif q in ("clip", "data"):
                res = [[r[1], r[2]] for r in c["recs"]]
            elif q == "len":
                res = len(c["recs"])
            elif q == "center":
                res = [(r[1] + r[2]) // 2 for r in c["recs"]]
            steps.append({"q": q, "res": res, "pileup": pile, "mask": mask})
        return {"steps": steps}
    if op == "rle_to_array":
        ev, vals = c["events"], c["values"]
        if len(ev) != len(vals) + 1 or ev[0] != 0 or any(a >= b for a, b in zip(ev, ev[1:])):
            return SKIP
        nzv = {"float64": 0x8000000000000000, "float32": 0x80000000, "float16": 0x8000}.get(c["dtype"])
        vs = [0 if v == nzv else v for v in vals]
        return {"dense": [v for a, b, v in zip(ev, ev[1:], vs) for _ in range(b - a)], "bedgraph": [[a, b, v] for a, b, v in zip(ev, ev[1:], vs)]}
    if op == "track_from_dict":
        return oracle(dict(c, op="track"))
    if op in ("extract", "track_file"):
        sizes = c["sizes"]
        per = _split(sizes, c["recs"])
        if any(not _ok_bedgraph(rs, sz) for rs, sz in zip(per, sizes)) or [r[0] for r in c["recs"]] != sorted(r[0] for r in c["recs"]):
            return SKIP
        dense = [_dense(rs, "int", sz) for rs, sz in zip(per, sizes)]
        if op == "extract":
            rows = []
            for ch, a, b, f in c["ivs"]:
                row = dense[ch][a:b].tolist()
                rows.append(row[::-1] if (c["stranded"] and not f) else row)
            return {"rows": rows, "at": [int(dense[ch][p]) for ch, p in c["locs"]]}
        if not c["recs"]:
            return SKIP        # an empty file has no records to infer the format from
        k = c["k"]
        g = np.concatenate(dense)
        out = {"mem": [d.tolist() for d in dense], "sum": int(g.sum()),
               "hist": [int(v) for v in np.histogram(g, bins=[-10, 0, 1, 3, 10])[0].tolist()], "dense_k": [(d * k).tolist() for d in dense],
               "gt_k": [(d > k).astype(int).tolist() for d in dense]}
        return out
    if op == "mask_routes":
        sizes = c["sizes"]
        pile = [[sum(1 for r in c["recs"] if r[0] == i and r[1] <= p < r[2]) for p in range(sz)] for i, sz in enumerate(sizes)]
        mask = [[int(v > 0) for v in row] for row in pile]
        return {"contig_mask": mask, "contig_pileup": pile, "mask": mask, "pileup": pile}
    if op == "genome_opts":
        names, szs = c["names"], c["sizes"]
        order = sorted(range(len(names)), key=lambda i: names[i]) if c["sort_names"] else list(range(len(names)))
        dense = {}
        for i in order:
            a = [0] * szs[i]
            for r in c["recs"]:
                if r[0] == i:
                    a[r[1]:r[2]] = [r[3]] * (r[2] - r[1])
            dense[names[i]] = a
        return {"order": [names[i] for i in order], "gsize": sum(szs), "ctx": [[names[i], szs[i]] for i in order], "dict": dense,
                "sum": sum(sum(a) for a in dense.values()),
                "mask": {n: [int(v != 0) for v in a] for n, a in dense.items()} if c["recs"] else None}
    if op == "track_file_f":
        sizes = c["sizes"]
        per = _split(sizes, c["recs"])
        if not c["recs"] or any(not _ok_bedgraph(rs, sz) for rs, sz in zip(per, sizes)) or [r[0] for r in c["recs"]] != sorted(r[0] for r in c["recs"]):
            return SKIP
        dense = []
        for rs, sz in zip(per, sizes):
            a = np.zeros(sz, dtype=np.float64)
            for r in rs:
                a[r[1]:r[2]] = float(r[3])          # the text of the record, read by python
            dense.append(a)
        k = c["k"]
        g = np.concatenate(dense)
        return {"mem": [_out(None, d) for d in dense], "sum": _f2b(float(g.sum())), "dense_k": [_out(None, d * k) for d in dense],
                "gt_k": [(d > k).astype(int).tolist() for d in dense]}
    if op == "track_rt":
        sizes, kind = c["sizes"], c["kind"]
        if kind == "mask":
            if not c["recs"]:
                return SKIP        # no interval, empty file: nothing to infer the format from
            g = _genome_dense(sizes, {"kind": "mask", "recs": c["recs"]})
        else:
            per = _split(sizes, c["recs"])
            if any(not _ok_bedgraph(rs, sz) for rs, sz in zip(per, sizes)) or [r[0] for r in c["recs"]] != sorted(r[0] for r in c["recs"]):
                return SKIP
            g = np.concatenate([_dense(rs, kind, sz) for rs, sz in zip(per, sizes)])
        offs = np.insert(np.cumsum(sizes), 0, 0)
        d = [_out(None, g[offs[i]:offs[i + 1]].astype(np.float64)) for i in range(len(sizes))]
        return {"first": d, "back": d, "same": int(sum(sizes))}
    if op == "track_str":   # str(): one line per chromosome, the dense array as NumPy prints it
        sizes = c["sizes"]
        per = _split(sizes, c["recs"])
        if any(not _ok_bedgraph(rs, sz) for rs, sz in zip(per, sizes)) or [r[0] for r in c["recs"]] != sorted(r[0] for r in c["recs"]):
            return SKIP
        txt = "\n".join("chr%d: %s" % (i + 1, _dense(rs, "int", sz)) for i, (rs, sz) in list(enumerate(zip(per, sizes)))[:10])
        return {"str": txt, "repr": txt, "more": len(sizes) > 10}
    if op in ("expr", "expr_f"):
        sizes = c["sizes"]
        for l in c["leaves"]:
            if l["kind"] not in ("mask", "pileup") and any(not _ok_bedgraph(rs, sz) for rs, sz in zip(_split(sizes, l["recs"]), sizes)):
                return SKIP
        leaves = [_genome_dense(sizes, l) for l in c["leaves"]]
        with np.errstate(all="ignore"):
            g = _ev(c["tree"], leaves)
            offs = np.insert(np.cumsum(sizes), 0, 0)
            out = {"dict": [_out(None, g[offs[i]:offs[i + 1]]) for i in range(len(sizes))], "bool": bool(g.dtype == bool)}
            if op == "expr":
                out["gsize"] = int(sum(sizes))
            if c.get("idx") is not None:
                out["idx"] = _out(None, g[_ev(c["idx"], leaves)])
            red = c.get("red")
            if red == "sum":
                out["sum"] = _out(None, np.asarray([np.sum(g)]))[0]
            elif isinstance(red, list):
                out["hist"] = [int(x) for x in np.histogram(g, bins=red)[0].tolist()]
        return out
    raise ValueError(op)


def _records_ok(data, dict_, is_bool):
    """records are non-overlapping, in genome order, and expand to exactly the dense arrays"""
    prev = (-1, 0)
    exp = [[0] * len(d) for d in dict_]
    for r in data:
        c, a, b = r[0], r[1], r[2]
        if not (0 <= a < b <= len(dict_[c])) or (c, a) < prev:
            return False
        prev = (c, b)
        for p in range(a, b):
            exp[c][p] = 1 if is_bool else r[3]
    return exp == dict_


def agree(c, got, exp):
    if not isinstance(got, dict) or "err" in got or "mutated_arguments" in got:
        return False
    op = c["op"]
    if op == "alias":
        for k in ("first", "after_input_edit", "after_output_edit"):
            o = got[k]
            if o["dict"] != exp["obs"]["dict"] or not _records_ok(o["data"], o["dict"], exp["bool"]):
                return False
            a, b = o["sum"], exp["obs"]["sum"]
            if a != b and not (c["kind"] == "float" and abs(_b2f(a) - _b2f(b)) <= 1e-9 * max(1.0, abs(_b2f(b)))):
                return False
        return got["derived"] == exp["derived"] and got["other"] == exp["other"]
    if op == "gi_seq":
        return core.canon(got) == core.canon(exp)
    if op == "narrow":
        return core.canon(got) == core.canon(exp)
    if op == "cross":
        same = c["order"] == list(range(len(c["names"])))
        for k, want in exp.items():
            g = got.get(k)
            refused = isinstance(g, dict) and "err" in g
            if k in ("a", "b") or (same and not k.startswith("enc_track")) or k == "enc_mask_A":
                if refused or g != want:          # must work: one genome, or two genomes in the same order
                    return False
            elif not refused and g != want:       # other order / foreign encoding: refuse, or be right by chromosome NAME
                return False
        return True
    if op == "big":
        for k in ("sum", "chrom_sums", "chrom_len", "rows"):
            if got[k] != exp[k]:
                return False
        # the records tile every chromosome in order and carry the record values / zeros
        pos = {}
        for ch, a, b, v in got["data"]:
            if a != pos.get(ch, 0) or b <= a:
                return False
            want = [r[3] for r in exp["per"][ch] if r[1] <= a and b <= r[2]]
            if (want[0] if want else 0) != v or (not want and any(r[1] < b and a < r[2] for r in exp["per"][ch])):
                return False
            pos[ch] = b
        return all(pos.get(i, 0) == sz for i, sz in enumerate(c["sizes"]))
    if op in ("rle_bedgraph", "from_intervals_arr"):
        return got["dense"] == exp["dense"]
    if op == "track_str":
        if exp["more"]:     # more than ten chromosomes: the first ten lines are the arrays, the rest is an ellipsis
            return all(got[k].split("\n")[:10] == exp[k].split("\n") for k in ("str", "repr"))
        return got["str"] == exp["str"] and got["repr"] == exp["repr"]
    if op == "rle_to_array":
        return got["dense"] == exp["dense"] and got["bedgraph"] == exp["bedgraph"]
    if op == "extract":
        return core.canon(got) == core.canon(exp)
    if op == "mask_routes":
        if any(got[k] != exp[k] for k in exp):
            return False
        return _records_ok(got["streamed"], exp["mask"], True)
    if op == "genome_opts":
        if any(got[k] != exp[k] for k in exp):
            return False
        names = exp["order"]
        return _records_ok([[names.index(r[0])] + r[1:] for r in got["data"]], [exp["dict"][n] for n in names], False)
    if op == "track_file_f":
        if got["mem"] != exp["mem"]:
            return False
        a, b = _b2f(got["sum"]), _b2f(exp["sum"])
        if not abs(a - b) <= 1e-9 * max(1.0, abs(b)):
            return False
        return _records_ok(got["data"], exp["dense_k"], False) and _records_ok(got["where"], exp["gt_k"], True)
    if op == "track_rt":
        return core.canon(got) == core.canon(exp)
    if op == "track_file":
        if got["mem"] != exp["mem"] or got["sum"] != exp["sum"] or got["hist"] != exp["hist"]:
            return False
        return _records_ok(got["data"], exp["dense_k"], False) and _records_ok(got["where"], exp["gt_k"], True)
    if got["dict"] != exp["dict"]:
        return False
    for k in ("bool", "sum", "hist", "str", "idx", "gsize"):
        if k in exp and got.get(k) != exp[k]:
            if k == "sum" and op == "expr_f" and not exp.get("bool"):
                # a float sum is not an exact copy: sum(len*value) vs NumPy's pairwise sum differ by rounding only
                a, b = _b2f(got.get(k, 0)), _b2f(exp[k])
                if abs(a - b) <= 1e-9 * max(1.0, abs(b)):
                    continue
            return False
    return _records_ok(got["data"], got["dict"], exp.get("bool", False))


def agree_spec(c, s, exp):
    """the Lean spec value covers the dense part of the expectation"""
    if c["op"] == "rle_to_array":
        return s.get("dense") == exp["dense"]
    return core.canon(s) == core.canon(exp)


def agree_model(c, got, m):
    """exact, except: a float sum is not reproducible (NumPy sums pairwise), and for pileup leaves the run boundaries of
    the external npstructures result are not modelled (dense values and reductions still are)"""
    if isinstance(got, dict) and isinstance(m, dict) and "err" not in got:
        drop = set()
        if c["op"] == "expr_f":
            drop.add("sum")
        if c["op"] == "expr" and any(l["kind"] == "pileup" for l in c["leaves"]):
            drop.add("data")
        if drop:
            got = {k: v for k, v in got.items() if k not in drop}
            m = {k: v for k, v in m.items() if k not in drop}
    return core.canon(got) == core.canon(m)


def finding_key(c, got, exp):
    op = c["op"]
    if isinstance(got, dict) and "mutated_arguments" in got:
        return f"{op}:modifies-its-argument-{'-'.join(got['mutated_arguments'])}"
    if op == "cross" and isinstance(got, dict) and "add" in got:
        bad = [k for k, want in exp.items() if not (isinstance(got.get(k), dict) and "err" in got[k]) and got.get(k) != want]
        if bad:
            return "cross:values-of-one-chromosome-on-another-" + ("encoded-column" if bad[0].startswith("enc") else "binary-op")
        return "cross:refuses-a-compatible-combination"
    if op == "alias" and isinstance(got, dict) and "first" in got:
        if got["first"]["dict"] == exp["obs"]["dict"] and got["after_input_edit"]["dict"] != exp["obs"]["dict"]:
            return "alias:array-follows-later-edits-of-its-input"
        if got["after_input_edit"]["dict"] == exp["obs"]["dict"] and got["after_output_edit"]["dict"] != exp["obs"]["dict"]:
            return "alias:array-follows-edits-of-what-it-handed-out"
        return "alias:differs-from-dense-numpy"
    if op == "gi_seq" and isinstance(got, dict) and "steps" in got:
        for k, (a, b) in enumerate(zip(got["steps"], exp["steps"])):
            if a != b:
                prev = [x["q"] for x in got["steps"][:k + 1]]
                return "gi_seq:wrong-" + ("result" if a["res"] != b["res"] else "pileup-or-mask") + "-after-" + prev[-1]
        return "gi_seq:differs"
    if isinstance(got, dict) and "err" in got:
        return f"{op}:raises-{got['err'].split(':')[-1]}"
    if op in ("track", "geo_track") and isinstance(got, dict) and got.get("dict") != exp.get("dict"):
        last = c["recs"] and c["recs"][-1][2] < c["sizes"][c["recs"][-1][0]] or (c["recs"] and c["recs"][-1][0] < len(c["sizes"]) - 1)
        return f"{op}:wrong-dense-array" + ("-after-last-record" if last else "")
    if isinstance(got, dict) and "dict" in got and got.get("dict") == exp.get("dict"):
        for k in ("sum", "hist", "bool", "str", "idx", "gsize"):
            if k in exp and got.get(k) != exp[k]:
                return f"{op}:wrong-{k}"
        return f"{op}:records-do-not-expand-to-the-array"
    return f"{op}:differs-from-dense-numpy"
