"""C06 — alphabet encodings accept exactly their alphabet and never change the text."""
import itertools
import numpy as np
from .. import core
from ..core import SKIP

ID = "C06"
RULE = ("exhaustive: every byte 0..255 x every predefined alphabet encoding (base-encoded entry, and str entry for ASCII); "
        "strings <= 3 over each alphabet with one foreign/lower-case byte at every position; every ordered pair of "
        "alphabets x source strings (<= 3 exhaustive for small alphabets, sampled otherwise) for re-targeting and "
        "change_encoding; ragged lists with empty rows; random custom alphabets; every byte x the three numeric offset encodings "
        "(Digit/Quality/Cigar of bionumpy.encodings: encode, decode back, ragged shape kept). Non-trivial = contains a foreign byte, "
        "a lower-case letter, or a re-targeting between different alphabets")
EXHAUSTIVE = {"quick": False, "thorough": False}
MODEL_OPS = {"offset_byte", "offset_rows", "enc_byte", "enc_str", "enc_ragged", "retarget", "change", "retarget_view", "change_view"}
ASSUMPTIONS = ["NumPy fancy indexing _lookup[bytes] is element-wise (modelled as List.mapM)",
               "ragged encode = flat encode + unchanged row lengths (npstructures RaggedArray shape handling is external)"]

MANIFEST = {
    "text": "Lean 4 theorems for all strings/all alphabets: encode succeeds iff every byte is accepted, decode∘encode = upper-casing, "
            "ragged shape kept, re-targeting and change_encoding never change the text (retarget_sound for every pair of "
            "alphabets). The code's 256-entry tables of all ten predefined alphabet encodings are re-extracted from /repo on every run "
            "into Gen/C06.lean and the whole-table obligation is re-checked by the kernel (decide +kernel). Correspondence: impl vs Lean "
            "model vs Lean spec vs Python oracle on every byte x encoding, strings with a foreign byte at every position, every ordered "
            "pair of alphabets.",
    "note": "Element-wise application of the table to arrays (NumPy fancy indexing) and ragged shape handling (npstructures) are "
            "modelled as omap/unflatten and exercised by the correspondence.",
    "technique": "Lean 4 proof over tables regenerated from source (decide +kernel) + lifting lemmas; differential correspondence with the implementation",
    "design": "§6 C06",
}

ENC_NAMES = ["ACTGEncoding", "ACGTEncoding", "ACTGnEncoding", "ACGTnEncoding", "DigitEncoding", "ACUGEncoding",
             "AminoAcidEncoding", "BamEncoding", "CigarOpEncoding", "StrandEncoding"]


def _encs():
    from bionumpy.encodings import alphabet_encoding as ae
    return {n: getattr(ae, n) for n in ENC_NAMES}


def _bnp():
    import bionumpy as bnp
    from bionumpy.encoded_array import EncodedArray, EncodedRaggedArray, BaseEncoding, as_encoded_array, change_encoding
    from bionumpy.encodings.exceptions import EncodingError
    from bionumpy.encoded_array import EncodingException
    return bnp, EncodedArray, EncodedRaggedArray, BaseEncoding, as_encoded_array, change_encoding, (EncodingError, EncodingException)


def tabulate():
    """behavioural tabulation of every predefined alphabet encoding over its whole finite domain"""
    bnp, EncodedArray, _, BaseEncoding, as_encoded_array, _, Err = _bnp()
    tabs = {}
    for name, E in _encs().items():
        alph = [ord(c) for c in E.get_alphabet()]
        enc = []
        for b in range(256):
            try:
                r = as_encoded_array(EncodedArray(np.array([b], dtype=np.uint8), BaseEncoding), E)
                enc.append(int(np.asarray(r.raw()).ravel()[0]))
            except Err:
                enc.append(None)
        dec = [int(E.decode(EncodedArray(np.array([c], dtype=np.uint8), E)).raw()[0]) for c in range(len(alph))]
        tabs[name] = (alph, enc, dec)
    return tabs


OFFSET_NAMES = ["NumDigitEncoding", "QualityEncoding", "CigarEncoding"]


def _offset_encs():
    import bionumpy.encodings as E
    return {"NumDigitEncoding": E.DigitEncoding, "QualityEncoding": E.QualityEncoding, "CigarEncoding": E.CigarEncoding}


def tabulate_offsets():
    """numeric encodings by offset, through their public encode/decode on all 256 uint8 values"""
    bnp, EncodedArray, EncodedRaggedArray, BaseEncoding, as_encoded_array, change_encoding, Err = _bnp()
    out = {}
    allb = np.arange(256, dtype=np.uint8)
    for name, E in _offset_encs().items():
        enc = [int(x) for x in np.asarray(E.encode(EncodedArray(allb.copy(), BaseEncoding))).ravel()]
        d = E.decode(allb.copy())
        dec = [int(x) for x in np.asarray(d.raw() if hasattr(d, "raw") else d).ravel()]
        m = int(np.asarray(E.decode(np.zeros(1, dtype=np.uint8))).ravel()[0])     # the text of code 0 is the min code
        out[name] = (m, enc, dec)
    return out


def regenerate():
    tabs = tabulate()
    out = ["import BnpVerif.Model.C06",
           "/-! GENERATED on every run by harness/props/c06.py from the package imported from /repo:",
           "behavioural tabulation (public `as_encoded_array` / `decode` / `get_alphabet`) of every predefined",
           "alphabet encoding over all 256 bytes. Do not edit. -/",
           "namespace Gen.C06", "open _root_.C06", ""]
    for name, (alph, enc, dec) in tabs.items():
        e = ", ".join("none" if x is None else f"some {x}" for x in enc)
        out.append(f"def {name} : Enc := {{\n  alphabet := {alph},\n  encT := [{e}],\n  decT := {dec} }}\n")
    out.append("def all : List (String × Enc) := [" + ", ".join(f'("{n}", {n})' for n in tabs) + "]")
    offs = tabulate_offsets()
    for name, (m, enc, dec) in offs.items():
        out.append(f"\ndef {name} : OffsetEnc := {{\n  minCode := {m},\n  encT := {enc},\n  decT := {dec} }}")
    out.append("\ndef offsets : List (String × OffsetEnc) := [" + ", ".join(f'("{n}", {n})' for n in offs) + "]")
    out.append("\nend Gen.C06\n")
    return [("BnpVerif/Gen/C06.lean", "\n".join(out))]


# ---------------------------------------------------------------- cases

def _text(x):
    return "".join(chr(c) for c in x)


def cases(tier, rng):
    # text arriving as a NumPy string array / object array / 0-d array (type dispatch of as_encoded_array), with one foreign
    # character at a random position in a fraction of the cases: ASCII, NUL, and code points whose UTF-32 bytes are an alphabet
    # letter plus zeros (U+4100 'A', U+4300 'C', U+4700 'G', U+5400 'T')
    for n in ENC_NAMES:
        A = _static_alphabet(n)
        for _ in range(60 if tier != "quick" else 12):
            rows = [[rng.choice(A) for _ in range(rng.choice([0, 1, 2, 4, 7]))] for _ in range(rng.choice([1, 1, 2, 3, 5]))]
            rows = [[(b + 32 if 65 <= b <= 90 and rng.random() < 0.2 else b) for b in r] for r in rows]
            kind = rng.choice(["U", "U", "O", "0d"])
            if kind == "0d":
                rows = rows[:1]
            foreign = None
            if rng.random() < 0.5 and any(rows):
                i = rng.choice([k for k, r in enumerate(rows) if r])
                j = rng.randrange(len(rows[i]))
                foreign = rng.choice([0, 0x4100, 0x4300, 0x4700, 0x5400, 0x100 + rows[i][j], 88, 35, 0x10000 + rows[i][j]] + [b for b in range(33, 127) if not _accepts(A, b)][:3])
                if foreign == 0 and j == len(rows[i]) - 1:
                    foreign = 0x4100          # NumPy itself strips a trailing NUL from fixed-width strings
                if _accepts(A, foreign):
                    foreign = 0x4100
                rows[i] = rows[i][:j] + [foreign] + rows[i][j + 1:]
            yield {"op": "enc_np", "enc": n, "rows": rows, "kind": kind, "foreign": foreign}
    # rectangular blocks of text handed over as 2-D arrays in every memory layout (C, Fortran, transposed view, strided, negative strides)
    for n in ENC_NAMES:
        A = _static_alphabet(n)
        for _ in range(30 if tier != "quick" else 6):
            h, w = rng.choice([1, 2, 3, 5]), rng.choice([1, 2, 3, 4, 7])
            rows = [[rng.choice(A) for _ in range(w)] for _ in range(h)]
            foreign = None
            if rng.random() < 0.3:
                i, j = rng.randrange(h), rng.randrange(w)
                cand = [b for b in range(33, 127) if not _accepts(A, b)]
                if cand:
                    foreign = rng.choice(cand)
                    rows[i][j] = foreign
            for layout in ("C", "F", "T", "strided", "neg"):
                for entry in ("as_encoded_array", "encode"):
                    yield {"op": "enc_2d", "enc": n, "rows": rows, "layout": layout, "entry": entry, "foreign": foreign}
    # text handed over as integer CODES wider than a byte (int16 … int64 arrays of code points: UTF-16 units, map(ord, …)), flat and ragged:
    # a code >= 256 is never a letter, whatever its low byte is
    for n in ENC_NAMES:
        A = _static_alphabet(n)
        for _ in range(30 if tier != "quick" else 8):
            rows = [[rng.choice(A) for _ in range(rng.choice([1, 2, 4]))] for _ in range(rng.choice([1, 2, 3]))]
            foreign = None
            if rng.random() < 0.6:
                i = rng.randrange(len(rows))
                j = rng.randrange(len(rows[i]))
                foreign = rng.choice([256, 512, 65536]) * rng.choice([1, 1, 3]) + rng.choice(A)      # congruent to a letter modulo 256
                rows[i][j] = foreign
            for dt in ("int16", "uint16", "int32", "int64"):
                if foreign is not None and foreign > 32000 and dt in ("int16", "uint16"):
                    continue
                for shape in ("flat", "ragged"):
                    yield {"op": "enc_wide", "enc": n, "rows": rows, "dtype": dt, "shape": shape, "foreign": foreign}
    for n in OFFSET_NAMES:
        for b in range(256):
            yield {"op": "offset_byte", "enc": n, "b": b}
        for _ in range(40 if tier != "quick" else 10):
            rows = [[rng.randrange(256) for _ in range(rng.choice([0, 1, 3, 6]))] for _ in range(rng.choice([1, 2, 4]))]
            yield {"op": "offset_rows", "enc": n, "rows": rows}
    encs = _encs()
    alph = {n: [ord(c) for c in E.get_alphabet()] for n, E in encs.items()}
    big = tier in ("thorough", "widen")
    # 1. every byte x every encoding
    for n in encs:
        for b in range(256):
            yield {"op": "enc_byte", "enc": n, "b": b, "via": "base"}
        for b in range(128):
            yield {"op": "enc_byte", "enc": n, "b": b, "via": "str"}
    # 2. strings over each alphabet with one foreign / lower-case byte at every position
    foreign = [0, 10, 32, 42, 48, 74, 75, 78, 80, 85, 93, 97, 110, 122, 127, 200, 255]
    for n, A in alph.items():
        L = 3 if (len(A) <= 5 or big) else 2
        pool = A if len(A) <= 5 else (A if big and len(A) <= 10 else rng.sample(A, 4))
        for l in range(0, L + 1):
            for s in itertools.product(pool, repeat=l):
                s = list(s)
                yield {"op": "enc_str", "enc": n, "s": s}
                if l and (big or rng.random() < 0.5):
                    for pos in range(l):
                        f = rng.choice(foreign)
                        t = s[:pos] + [f] + s[pos + 1:]
                        yield {"op": "enc_str", "enc": n, "s": t}
                        lo = s[:pos] + [s[pos] + 32 if 65 <= s[pos] <= 90 else s[pos] + 32 if s[pos] + 32 < 256 else s[pos]] + s[pos + 1:]
                        yield {"op": "enc_str", "enc": n, "s": lo}
    # 3. ragged
    for n, A in alph.items():
        for _ in range(60 if big else 15):
            rows = [[rng.choice(A + [a + 32 for a in A if 65 <= a <= 90]) for _ in range(rng.choice([0, 0, 1, 2, 5]))]
                    for _ in range(rng.choice([1, 2, 3, 4]))]
            if rng.random() < 0.3 and any(rows):
                r = rng.choice([r for r in rows if r])
                r[rng.randrange(len(r))] = rng.choice(foreign)
            yield {"op": "enc_ragged", "enc": n, "rows": rows}
    # 3b. ragged VIEWS (selections that are not materialised yet) presented to change_encoding / another encoding
    small = [n for n, A in alph.items() if len(A) <= 5]
    for _ in range(900 if big else 200):
        a = rng.choice(small)
        b = rng.choice(small + ["AminoAcidEncoding"])
        A = alph[a]
        rows = [[rng.choice(A) for _ in range(rng.choice([0, 1, 2, 3, 4]))] for _ in range(rng.choice([2, 3, 5]))]
        view = rng.choice(["rev", "perm", "colrev", "step", "mask", "tail"])
        perm = list(range(len(rows)))
        rng.shuffle(perm)
        yield {"op": rng.choice(["change_view", "retarget_view"]), "src": A, "tgt": alph[b], "rows": rows, "view": view, "perm": perm,
               "mask": [rng.random() < 0.6 for _ in rows], "names": [a, b]}
    # 3c. long lists of strings (size thresholds of list fast paths: 1000/1001/4097 rows) with one foreign byte (incl. NUL) somewhere
    for n_rows in ((1000, 1001, 4097) if big else (1001,)):
        for n in ("ACGTEncoding", "AminoAcidEncoding"):
            A = alph[n]
            for bad in (None, 0, 88, 10):
                rows = [[A[(i + k) % len(A)] for k in range(1 + i % 3)] for i in range(n_rows)]
                if bad is not None:
                    rows[n_rows // 2][0] = bad
                yield {"op": "enc_ragged", "enc": n, "rows": rows}
    # 4. re-targeting and change_encoding between every ordered pair
    names = list(encs)
    for a in names:
        for b in names:
            A = alph[a]
            if len(A) <= 5:
                strs = [list(s) for l in range(1, 4 if big else 3) for s in itertools.product(A, repeat=l)]
            else:
                strs = [[c] for c in A] + [[rng.choice(A) for _ in range(rng.choice([2, 3, 4]))] for _ in range(40 if big else 8)]
                strs += [A[:k] for k in range(1, len(A) + 1)]
            for s in strs:
                yield {"op": "retarget", "src": alph[a], "tgt": alph[b], "s": s, "names": [a, b]}
                yield {"op": "change", "src": alph[a], "tgt": alph[b], "s": s, "names": [a, b]}
                # the same data STORED INTO an array of the other alphabet (item assignment is one more way of presenting
                # already-encoded data to another alphabet encoding): flat and into a row of a ragged array
                if big or rng.random() < 0.35:
                    yield {"op": "assign", "src": alph[a], "tgt": alph[b], "s": s, "names": [a, b], "ragged": rng.random() < 0.5,
                           "pad": rng.choice([0, 1, 2])}
    # 5. custom alphabets (duplicate-free, upper-case or symbols)
    sym = [ord(c) for c in "ABCDEFGHXYZ*+-=.0123"]
    for _ in range(400 if big else 80):
        A = rng.sample(sym, rng.choice([1, 2, 3, 4, 6]))
        B = A[:rng.randrange(len(A) + 1)] + rng.sample(sym, rng.choice([0, 1, 2]))
        B = list(dict.fromkeys(B)) or A[:1]
        s = [rng.choice(A) for _ in range(rng.choice([1, 2, 3, 5]))]
        yield {"op": "retarget", "src": A, "tgt": B, "s": s, "names": None}
        yield {"op": "change", "src": A, "tgt": B, "s": s, "names": None}


def nontrivial(c):
    if c["op"] in ("enc_byte", "offset_byte", "offset_rows"):
        return True
    if c["op"] in ("retarget", "change", "retarget_view", "change_view", "assign"):
        return c["src"] != c["tgt"]
    if c["op"] == "enc_np":
        return True
    if c["op"] == "enc_wide":
        return True
    if c["op"] == "enc_2d":
        return c["layout"] != "C" and len(c["rows"]) > 1 and len(c["rows"][0]) > 1
    flat = c["s"] if "s" in c else [x for r in c["rows"] for x in r]
    return any(97 <= b <= 122 for b in flat) or len(flat) >= 2


def _enc_obj(c, key, idx):
    from bionumpy.encodings.alphabet_encoding import AlphabetEncoding
    if c.get("names"):
        return _encs()[c["names"][idx]]
    return AlphabetEncoding(_text(c[key]))


def impl(c):
    bnp, EncodedArray, EncodedRaggedArray, BaseEncoding, as_encoded_array, change_encoding, Err = _bnp()
    op = c["op"]
    try:
        if op == "offset_byte":
            E = _offset_encs()[c["enc"]]
            code = np.asarray(E.encode(EncodedArray(np.array([c["b"]], dtype=np.uint8), BaseEncoding))).ravel()
            back = E.decode(code.copy())
            return {"code": int(code[0]), "dec": int(np.asarray(back.raw() if hasattr(back, "raw") else back).ravel()[0])}
        if op == "offset_rows":
            E = _offset_encs()[c["enc"]]
            flat = np.array([x for r in c["rows"] for x in r], dtype=np.uint8)
            ra = EncodedRaggedArray(EncodedArray(flat, BaseEncoding), [len(r) for r in c["rows"]])
            q = E.encode(ra)
            back = E.decode(q)
            lens = [int(k) for k in q.lengths] if hasattr(q, "lengths") else None
            return {"codes": [int(x) for x in np.asarray(q.ravel())], "lens": lens,
                    "dec": [int(x) for x in np.asarray(back.ravel().raw() if hasattr(back.ravel(), "raw") else back.ravel())], "input_unchanged": [int(x) for x in flat] == [x for r in c["rows"] for x in r]}
        if op == "enc_byte":
            E = _encs()[c["enc"]]
            if c["via"] == "str":
                r = as_encoded_array(chr(c["b"]), E)
            else:
                r = as_encoded_array(EncodedArray(np.array([c["b"]], dtype=np.uint8), BaseEncoding), E)
            code = int(np.asarray(r.raw()).ravel()[0])
            dec = [int(x) for x in E.decode(r).raw().ravel()] if not E.is_numeric() else None
            return {"code": code, "dec": dec}
        if op == "enc_str":
            E = _encs()[c["enc"]]
            s = c["s"]
            if all(b < 128 for b in s):
                r = as_encoded_array(_text(s), E)
            else:
                r = as_encoded_array(EncodedArray(np.array(s, dtype=np.uint8), BaseEncoding), E)
            return {"codes": [int(x) for x in np.asarray(r.raw()).ravel()], "dec": [int(x) for x in E.decode(r).raw().ravel()],
                    "enc_same": r.encoding == E}
        if op == "enc_wide":
            E = _encs()[c["enc"]]
            flat = np.array([x for r in c["rows"] for x in r], dtype=c["dtype"])
            x = EncodedArray(flat, BaseEncoding)
            if c["shape"] == "ragged":
                x = EncodedRaggedArray(x, [len(r) for r in c["rows"]])
            r = as_encoded_array(x, E)
            d = E.decode(r)
            return {"flat": [int(b) for b in np.asarray(d.ravel().raw() if hasattr(d.ravel(), "raw") else d.ravel())], "enc_same": r.encoding == E}
        if op == "enc_2d":
            E = _encs()[c["enc"]]
            block = np.array(c["rows"], dtype=np.uint8)
            lay = c["layout"]
            if lay == "C":
                v = block
            elif lay == "F":
                v = np.asfortranarray(block)
            elif lay == "T":
                v = np.ascontiguousarray(block.T).T
            elif lay == "strided":
                big = np.zeros((2 * block.shape[0], 3 * block.shape[1]), dtype=np.uint8)
                big[::2, ::3] = block
                v = big[::2, ::3]
            else:
                v = np.ascontiguousarray(block[::-1, ::-1])[::-1, ::-1]
            x = EncodedArray(v, BaseEncoding)
            r = as_encoded_array(x, E) if c["entry"] == "as_encoded_array" else E.encode(x)
            if not isinstance(r, EncodedArray):
                r = EncodedArray(np.asarray(r), E)
            d = E.decode(r)
            return {"rows": [[int(b) for b in row] for row in np.asarray(d.raw()).reshape(block.shape)], "enc_same": r.encoding == E,
                    "input_unchanged": np.asarray(v).tolist() == c["rows"]}
        if op == "enc_np":
            E = _encs()[c["enc"]]
            texts = ["".join(chr(b) for b in r) for r in c["rows"]]
            if c["kind"] == "0d":
                arr = np.array(texts[0])
                r = as_encoded_array(arr, E)
                d = E.decode(r)
                return {"rows": [[int(x) for x in np.atleast_1d(d.raw())]], "enc_same": r.encoding == E}
            arr = np.array(texts, dtype=object) if c["kind"] == "O" else np.array(texts)
            r = as_encoded_array(arr, E)
            d = E.decode(r)
            return {"rows": [[int(x) for x in row.raw()] for row in d], "enc_same": r.encoding == E}
        if op == "enc_ragged":
            E = _encs()[c["enc"]]
            rows = c["rows"]
            if all(b < 128 for r in rows for b in r):
                r = as_encoded_array([_text(x) for x in rows], E)
            else:
                flat = EncodedArray(np.array([b for r in rows for b in r], dtype=np.uint8), BaseEncoding)
                r = as_encoded_array(EncodedRaggedArray(flat, [len(x) for x in rows]), E)
            d = E.decode(r)
            return {"rows": [[int(x) for x in row.raw()] for row in d]}
        if op in ("retarget_view", "change_view"):
            S, T = _enc_obj(c, "src", 0), _enc_obj(c, "tgt", 1)
            x = as_encoded_array([_text(r) for r in c["rows"]], S)
            v = _select_view(x, c)
            y = as_encoded_array(v, T) if op == "retarget_view" else change_encoding(v, T)
            if not (y.encoding == T):
                return {"rows": None, "wrong_encoding": str(y.encoding)}
            return {"rows": [[int(b) for b in T.decode(row).raw().ravel()] for row in y]}
        if op == "assign":
            S, T = _enc_obj(c, "src", 0), _enc_obj(c, "tgt", 1)
            y = as_encoded_array(_text(c["s"]), S)
            base = [c["tgt"][0]] * (len(c["s"]) + c["pad"])
            if c["ragged"]:
                x = as_encoded_array([_text(base), _text(c["tgt"][:1])], T)
                x[0, c["pad"]:c["pad"] + len(c["s"])] = y
                out = x[0]
            else:
                x = as_encoded_array(_text(base), T)
                x = x if x.raw().flags.writeable else x.copy()
                x[c["pad"]:c["pad"] + len(c["s"])] = y
                out = x
            if not (x.encoding == T):
                return {"text": None, "wrong_encoding": str(x.encoding)}
            return {"text": [int(v) for v in T.decode(out).raw().ravel()][c["pad"]:]}
        if op in ("retarget", "change"):
            S, T = _enc_obj(c, "src", 0), _enc_obj(c, "tgt", 1)
            x = as_encoded_array(_text(c["s"]), S)
            y = as_encoded_array(x, T) if op == "retarget" else change_encoding(x, T)
            if not (y.encoding == T):
                return {"text": None, "wrong_encoding": str(y.encoding)}
            return {"text": [int(v) for v in T.decode(y).raw().ravel()]}
    except Err as e:
        off = getattr(e, "offset", None)
        return {"err": "encoding", "offset": int(off) if (off is not None and op in ("enc_str",)) else None}
    except Exception as e:
        if op in ("enc_np", "enc_wide") and c["foreign"] is not None:
            return {"err": "encoding", "offset": None}     # any exception rejects the foreign character (NumPy-level code points raise OverflowError)
        if op in ("retarget", "change", "retarget_view", "change_view", "assign"):
            # the property allows these to raise (any exception) instead of returning data; only silent change is a failure
            return {"err": "encoding", "offset": None}
        return {"err": "other:" + type(e).__name__}


def _select_view(x, c):
    v = c["view"]
    if v == "rev":
        return x[::-1]
    if v == "perm":
        return x[list(c["perm"])]
    if v == "colrev":
        return x[:, ::-1]
    if v == "step":
        return x[::2]
    if v == "mask":
        return x[np.array(c["mask"], dtype=bool)]
    return x[1:]


def _select_rows(rows, c):
    v = c["view"]
    if v == "rev":
        return rows[::-1]
    if v == "perm":
        return [rows[i] for i in c["perm"]]
    if v == "colrev":
        return [r[::-1] for r in rows]
    if v == "step":
        return rows[::2]
    if v == "mask":
        return [r for r, m in zip(rows, c["mask"]) if m]
    return rows[1:]


def _up(b):
    return b - 32 if 97 <= b <= 122 else b


def _accepts(A, b):
    return b in A or (97 <= b <= 122 and (b - 32) in A)


OFFSET_MIN = {"NumDigitEncoding": 48, "QualityEncoding": 33, "CigarEncoding": 0}      # '0', '!', NUL: written here independently


def oracle(c):
    op = c["op"]
    if op == "offset_byte":
        m = OFFSET_MIN[c["enc"]]
        return {"code": (c["b"] - m) % 256, "dec": c["b"]}
    if op == "offset_rows":
        m = OFFSET_MIN[c["enc"]]
        flat = [x for r in c["rows"] for x in r]
        return {"codes": [(b - m) % 256 for b in flat], "lens": [len(r) for r in c["rows"]], "dec": flat, "input_unchanged": True}
    if op in ("retarget_view", "change_view"):
        return {"rows_or_error": [[_up(b) for b in r] for r in _select_rows(c["rows"], c)]}
    if op in ("retarget", "change", "assign"):
        return {"text_or_error": [_up(b) for b in c["s"]]}
    A = _static_alphabet(c["enc"])
    if op == "enc_wide":
        if c["foreign"] is not None:
            return {"err": "encoding", "offset": None}
        return {"flat": [_up(b) for r in c["rows"] for b in r], "enc_same": True}
    if op == "enc_2d":
        if c["foreign"] is not None:
            return {"err": "encoding", "offset": None}
        return {"rows": [[_up(b) for b in r] for r in c["rows"]], "enc_same": True, "input_unchanged": True}
    if op == "enc_np":
        if c["foreign"] is not None:
            return {"err": "encoding", "offset": None}
        rows = c["rows"][:1] if c["kind"] == "0d" else c["rows"]
        return {"rows": [[_up(b) for b in r] for r in rows], "enc_same": True}
    if op == "enc_byte":
        b = c["b"]
        if _accepts(A, b):
            return {"code": A.index(_up(b)), "dec": [_up(b)]}
        return {"err": "encoding", "offset": None}
    if op == "enc_str":
        s = c["s"]
        bad = [i for i, b in enumerate(s) if not _accepts(A, b)]
        if bad:
            return {"err": "encoding", "offset": bad[0]}
        return {"codes": [A.index(_up(b)) for b in s], "dec": [_up(b) for b in s], "enc_same": True}
    if op == "enc_ragged":
        if any(not _accepts(A, b) for r in c["rows"] for b in r):
            return {"err": "encoding", "offset": None}
        return {"rows": [[_up(b) for b in r] for r in c["rows"]]}


# the alphabets the documentation defines, written here independently of the package
_STATIC = {"ACTGEncoding": "ACTG", "ACGTEncoding": "ACGT", "ACTGnEncoding": "ACTGN", "ACGTnEncoding": "ACGTN",
           "DigitEncoding": "0123456789", "ACUGEncoding": "ACUG", "AminoAcidEncoding": "ACDEFGHIKLMNPQRSTVWY*",
           "BamEncoding": "=ACMGRSVTWYHKDBN", "CigarOpEncoding": "MIDNSHP=X", "StrandEncoding": "+-."}


def _static_alphabet(name):
    return [ord(ch) for ch in _STATIC[name]]


def agree(c, got, exp):
    if "rows_or_error" in exp:
        if isinstance(got, dict) and got.get("err") == "encoding":
            return True
        return isinstance(got, dict) and got.get("rows") == exp["rows_or_error"]
    if "text_or_error" in exp:
        if isinstance(got, dict) and got.get("err") == "encoding":
            return True
        return isinstance(got, dict) and got.get("text") == exp["text_or_error"]
    return core.canon(got) == core.canon(exp)


def model_request(c):
    if c["op"] == "assign":
        return None        # decided against the oracle: same text or an error (the model's retarget rule is compared by the retarget op)
    if c["op"] == "enc_wide":
        return None        # storage width of the codes has no counterpart in the model (a code is a number): decided against the oracle
    if c["op"] == "enc_2d":
        return None        # memory layout has no counterpart in the model (a block IS its rows): decided against the oracle
    if c["op"] == "enc_np":
        return None        # entry-path dispatch: decided against the oracle (the byte-level model is the same as enc_ragged)
    if c["op"] in ("retarget_view", "change_view"):
        # the model is applied to the selected rows: a selection only changes WHICH rows are presented
        return dict(c, rows=_select_rows(c["rows"], c))
    return c


def finding_key(c, got, exp):
    op = c["op"]
    if op in ("offset_byte", "offset_rows"):
        return "offset-encoding:" + c["enc"]
    if op in ("enc_byte", "enc_str", "enc_ragged", "enc_np", "enc_2d", "enc_wide"):
        if isinstance(got, dict) and "err" not in got and "err" in exp:
            return "encode:accepts-foreign-byte"
        if isinstance(got, dict) and "err" in got and "err" not in exp:
            return "encode:rejects-alphabet-member"
        return "encode:wrong-result"
    if op in ("retarget", "retarget_view", "assign"):
        return "retarget:silently-different-text" if op != "assign" else "assign:silently-different-text"
    return "change_encoding:silently-different-text"


# ------------------------------------------------------------------ history / aliasing probe (see core.run_check)
def live_cases(tier, rng):
    out = [c for c in cases("quick", rng) if c["op"] in ("enc_str", "enc_ragged", "change", "retarget", "change_view", "retarget_view")
           and not isinstance(oracle(c), core.Skip)]
    rng.shuffle(out)
    keep = []
    for c in out:
        if len(c.get("rows", [])) > 50:
            continue
        r = impl(c)
        if isinstance(r, dict) and "err" not in r:      # pairs of calls that return (raising calls are judged by the ordinary cases)
            keep.append(c)
        if len(keep) >= (3000 if tier in ("thorough", "widen") else 700):
            break
    return keep


def impl_live(c):
    """live encoded result of the call and a canonicaliser (decoded bytes), to be re-read after a later call"""
    bnp, EncodedArray, EncodedRaggedArray, BaseEncoding, as_encoded_array, change_encoding, Err = _bnp()
    op = c["op"]
    if op in ("enc_str", "enc_ragged"):
        E = _encs()[c["enc"]]
        if op == "enc_str":
            r = as_encoded_array(_text(c["s"]), E) if all(b < 128 for b in c["s"]) else \
                as_encoded_array(EncodedArray(np.array(c["s"], dtype=np.uint8), BaseEncoding), E)
            return r, (lambda o: {"codes": [int(x) for x in np.asarray(o.raw()).ravel()], "dec": [int(x) for x in E.decode(o).raw().ravel()],
                                  "enc_same": bool(o.encoding == E)})
        r = as_encoded_array([_text(x) for x in c["rows"]], E)
        return r, (lambda o: {"rows": [[int(x) for x in row.raw()] for row in E.decode(o)]})
    S, T = _enc_obj(c, "src", 0), _enc_obj(c, "tgt", 1)
    if op in ("change", "retarget"):
        x = as_encoded_array(_text(c["s"]), S)
        y = as_encoded_array(x, T) if op == "retarget" else change_encoding(x, T)
        return y, (lambda o: {"text": [int(v) for v in T.decode(o).raw().ravel()]})
    x = as_encoded_array([_text(r) for r in c["rows"]], S)
    v = _select_view(x, c)
    y = as_encoded_array(v, T) if op == "retarget_view" else change_encoding(v, T)
    return y, (lambda o: {"rows": [[int(b) for b in T.decode(row).raw().ravel()] for row in o]})


def mutate_live(obj, c):
    """overwrite the first element of an encoded result with another letter of its own alphabet"""
    from bionumpy.encoded_array import EncodedArray, EncodedRaggedArray
    for getter in ("get_labels", "get_alphabet"):
        # a caller may sort / edit the list of labels it was handed: that must not reach the encoding itself
        try:
            L = getattr(obj.encoding, getter)()
        except Exception:
            continue
        if isinstance(L, list) and len(L) > 1:
            before_sort = list(L)
            L.sort()                      # e.g. a caller that wants the labels in alphabetical order for a plot
            if L == before_sort:
                L.reverse()
    flat = obj.ravel() if isinstance(obj, EncodedRaggedArray) else obj
    if not isinstance(flat, EncodedArray) or flat.size == 0:
        return False
    raw = flat.raw()
    if not raw.flags.writeable:
        return False
    n = len(obj.encoding.get_alphabet()) if hasattr(obj.encoding, "get_alphabet") else 0
    if n < 2:
        return False
    raw[0] = (int(raw[0]) + 1) % n
    return True


def tags(c, got):
    """input distribution recorded in the evidence"""
    t = ["op:" + c["op"]]
    if "enc" in c:
        t.append("enc:" + str(c["enc"]))
    if c["op"] in ("retarget", "change", "retarget_view", "change_view"):
        t.append("pair:" + ("predefined" if c.get("names") else "custom") + (":same" if c["src"] == c["tgt"] else ":different"))
    if c["op"] == "enc_wide":
        t += ["code-dtype:" + c["dtype"], "shape:" + c["shape"], "foreign:" + ("none" if c["foreign"] is None else ">=256")]
    if c["op"] == "enc_2d":
        t += ["layout:" + c["layout"], "entry:" + c["entry"]]
    if c["op"] == "enc_np":
        t += ["array-kind:" + c["kind"], "foreign:" + ("none" if c["foreign"] is None else "NUL" if c["foreign"] == 0 else "ascii" if c["foreign"] < 128 else "non-latin")]
    if isinstance(got, dict):
        t.append("outcome:" + ("raises:" + str(got["err"]) if "err" in got else "returns"))
    return t
