"""C04 — unmodified records and fields are written back byte-for-byte."""
import atexit
import gzip
import contextlib
import hashlib
import os
import shutil
import struct
import tempfile

import numpy as np

from .. import core
from ..core import SKIP

ID = "C04"
RULE = ("grammar-generated BED/BED6/narrowPeak/VCF/VCF-with-genotypes/VCF-with-declared-INFO-keys/SAM/GTF/FASTQ/two-line FASTA/BAM files (1-3 tables of 1-6 "
        "records, unequal record lengths, non-canonical valid text: leading zeros, '+5', '1e3', CRLF, optional SAM tags, FASTQ "
        "'+name' lines, VCF sample columns) x random programs of selections (slice with step/negative bounds, boolean mask, int "
        "list with repeats and negatives, out-of-range -> IndexError), binary and n-ary np.concatenate, chunked read + "
        "concatenate, in-between writes (in-place compaction) x optional replacement of a subset of the entry type's fields at the end "
        "or INSIDE the program (operands of a concatenate with different replaced-field sets); a fixed family on a 7-record table of "
        "every format: a plain slice right after a non-contiguous selection with no write in between (d[::2][1:3], d[mask][:3], "
        "d[[4,0,2,6]][1:] ...), then written / concatenated / replaced, LF and CRLF; on a table of equal-sized records of every format: "
        "integer-list reorderings of neighbours keeping first and last in place and repetitions whose lengths add up to the spanned "
        "range; tables are shared objects: a child slice is written first, then the PARENT is written/re-selected/replaced "
        "(`seq`); columns are read (cached) before concatenations (`get`); the table is written through ANOTHER buffer type than it "
        "was read with (superclass writer: raw bytes; other writer: joined field texts; FASTQ/FASTA -> multi-line FASTA writer); "
        "files WITHOUT a terminating newline (LF and CRLF, every text format, 12% of the random cases and a fixed family with "
        "selections containing the last record and replaced writes; SAM with a last line without optional tags); index spellings "
        "(Python list, int32 array, list of NumPy scalars, mask as list); SEVERAL objects alive together: the chunks handed out by ONE "
        "reader (read_chunk repeatedly) or the tables of two readers, one of them modified IN PLACE by attribute assignment (`set`) - "
        "every other one must still write its own source bytes / read its own columns, the modified one writes the assigned column; "
        "DERIVING must not change the parent: a named table M that already has a replaced column (replace / assignment / a selection or "
        "concatenation of such a table) gives rise to a second table (replace of another or the same column, selection + assignment, "
        "concatenation + assignment, a written copy, a cached read), then M - or a selection / concatenation made from it afterwards - "
        "is written and shows its own replacement only (`obj` nodes: one Python object per named table); the mirror image: the parent "
        "is UNTOUCHED, a table derived from it (selection, selection of a selection, concatenation, selection of a chunked read) is "
        "modified IN PLACE by attribute assignment (or has columns read), then the parent / a SIBLING selection taken before the "
        "assignment (same and other row count) / selections, concatenations and replaced copies of them are written: source bytes; "
        "10% of the random programs are preceded by such an assignment on a derived table (optionally concatenated with it or a sibling); "
        "'filter every file of a set and concatenate': three files of unequal size, a selection of each with every pattern of selections "
        "WITHOUT rows (all-False mask, empty slice, empty int list) among selections with rows, one n-ary np.concatenate of 3-4 operands "
        "in any order, written / reversed / replaced; "
        "index KINDS (round 8): a Python range as row index (counting down to row 0, from-the-end bounds, past the end -> IndexError; 8% "
        "of the random indexes + fixed programs on every format), pandas Series (ints and mask), int16 / uint8 / uint64 arrays; a "
        "table - modified or not - is MATERIALISED (iterated, tolist, todict, toiter, topandas, get_data_object) before it is written "
        "(35% of the replaced writes, `how` on `get` nodes, fixed cases per replaceable field); two reading PROTOCOLS on one reader: "
        "read_chunk i times, then read() for the remainder (`rest` leaves: written, reversed, concatenated with a chunk, replaced); "
        "the documented switches of laziness (config.LAZY assigned / ConfigContext x lazy= keyword x default; the keyword wins): every "
        "combination asking for lazy reading gives a lazy object and the pass-through (15% of the random cases + a fixed family); "
        "observable = bytes written by bnp.open(out,'w').write(result). Non-trivial = program has >= 2 steps and the selection "
        "is a proper/re-ordered/repeated subset, or >= 1 replaced field")
EXHAUSTIVE = {"quick": False, "thorough": False}
MODEL_OPS = {"prog"}
PARALLEL = 16
ASSUMPTIONS = [
    "NumPy first-axis indexing (int list, mask, slice) = PyIdx.toList/gather; np.cumsum/insert = running offsets",
    "npstructures RaggedView2(starts, lens) rows / .ravel() = slices of the flat data / their concatenation",
    "reshape(-1, n_cols) of the delimiter table = per-line delimiter lists (all lines of a well-formed file have n_cols columns)",
    "single integer index t[i] returns one eager entry that cannot be written; its values are C05's subject",
    "every table of a case is read once and shared by all its uses in the program (Python object identity); in the Lean model "
    "values are immutable, `seq` only propagates failure and `get` (reading a column) is the identity on the extractor",
    "chunk boundaries of read_chunk(min_chunk_size) are taken from the implementation (C01's subject); a chunk is the table of "
    "the records the reader put into it; attribute assignment on a table is specified as `replace` on every later use of that "
    "same object and as nothing on any other object (implementation vs oracle only: the overlay is C05's model)",
    "replacement values are int / string / strand columns (float and quality formatting are C03/C18)",
    "index KINDS: a Python range / pandas Series / integer arrays of other widths select the rows the list of their members selects; "
    "npstructures' ragged arrays (text columns of eager tables and cached text columns of lazy ones) refuse range and Series with "
    "NotImplementedError - such a refusal is accepted, a selection of other rows is not",
    "BAM: records produced by an independent spec-level encoder in this module; BamBuffer has no concatenate and does not "
    "support modified writes, so BAM programs are selections only",
]
TRUSTED_EXTRA = ["gzip (BAM container) and the OS file layer"]

MANIFEST = {
    "text": "Lean 4 refinement proof: the text extractor <data, field starts/lens, entry starts/ends, contiguous> refines 'a list of "
            "records' (raw bytes + relative field table): select_refines (every index form), concat_refines (n-ary), "
            "compact_preserves, bytes_spec, program_abs/program_bytes/program_fields/program_replace by induction over selection/"
            "concatenation/in-place-compaction programs; field text, VCF rest-of-line and SAM tags are functions of the abstract "
            "record (field_text, rest_text, sam_extra_text); bam_records for the BAM extractor. The construction from a raw chunk "
            "(from_raw_buffer/_get_buffer_extractor/_modify_for_carriage_return) is proved for ALL well-formed delimited tables "
            "with LF, CRLF or mixed line ends (buildDelimited_eq, build_delimited_records, build_delimited_records_lf), giving the "
            "end-to-end theorem passthrough_all_files: written bytes = the selected source lines, for every table and every "
            "program; the same for the k-line formats FASTQ / two-line FASTA (buildKLine_eq, build_kline_records, passthrough_kline). "
            "and for SAM (buildSam_eq, build_sam_records, passthrough_sam: variable tag columns, LF/CRLF) and BAM (build_bam_records, "
            "passthrough_bam: block_size-prefixed records); crlf_last_column: the last column of every CRLF table is returned without its CR. The index semantics are pinned by list "
            "notions (pyIndex_slice_take_drop, pyIndex_reverse, pyIndex_mask_filter, pyIndex_ints_none_iff, norm_spec ...) and "
            "algebraic laws hold (select_select, touch_idempotent, program_none_iff, select_all_bytes; restOld_unsound). Every constructed extractor is additionally validated per explored "
            "input by a checker proved sound (invB_sound); the shipped record-end rule is refuted (buildOld_unsound). "
            "SOURCE-LEVEL field text (C04Fields): kline_fields/_lf/_crlf (FASTQ/FASTA field = the source line without its header byte "
            "and CR), sam_fields/sam_fields_exact/sam_extra_src (the 11 columns and the tab-joined tags without CR), delimited_rest "
            "(VCF genotype columns), delimited_last_column + delimCR_src (last column on LF/CRLF/MIXED files; the CR switch is the "
            "first line's), carried through every program incl. the driver's evalTab (passthrough_kline_fields/_crlf, evalTab_lz, "
            "passthrough_kline_tab). Modified writes are theorems about the Model functions the driver runs (Ext.writeModified / "
            "writeRowsModified: replace_fields, program_replace, eager_write_rows; delimited, FASTA, FASTQ layouts; plain, rest-of-line "
            "and tag columns). pyIndex_slice_general: slices with ANY non-zero step (k-th position start+k*step, exactly the k before stop). "
            "Correspondence: real bnp.open/read/index/concatenate/replace/write on generated files of ten formats vs the Lean "
            "model vs the Lean spec vs a Python source-lines oracle.",
    "note": "NumPy indexing and npstructures ragged views are specified externals; GTF is read eagerly by design (not lazy), so its "
            "non-canonical integers are re-formatted: recorded as a known finding; concatenation of FASTQ / two-line FASTA tables is "
            "eager (their buffers have no concatenate): modelled by Prog.evalTab, theorem eager_fields (field texts preserved).",
    "technique": "Lean 4 refinement proof (induction over programs) + differential correspondence with the implementation",
    "design": "§6 C04",
}

# the documented switches of laziness: [bionumpy.config.LAZY (None = left alone), the lazy= keyword of bnp.open (None = not
# passed), how the config value is set ("assign" / "ctx" = config.ConfigContext)]. Precedence: the keyword wins, then the config.
SWITCHES_LAZY = [[None, None, ""], [None, True, ""], [True, None, "assign"], [True, None, "ctx"], [True, True, "ctx"],
                 [False, True, "assign"], [False, True, "ctx"]]
SWITCHES_EAGER = [[None, False, ""], [True, False, "assign"], [True, False, "ctx"], [False, False, "ctx"], [False, None, "assign"],
                  [False, None, "ctx"]]
_OPEN_KW = {}
CTX_LEAK = [False]


class NotLazy(Exception):
    pass


@contextlib.contextmanager
def switches(sw):
    """apply one combination of the switches for the duration of a run; yields the keyword arguments for bnp.open"""
    cfgval, kw, via = sw or [None, None, ""]
    import bionumpy.config as cfg
    old = cfg.LAZY
    ctx = None
    try:
        if cfgval is not None:
            if via == "ctx":
                ctx = cfg.ConfigContext(LAZY=cfgval)
                ctx.__enter__()
            else:
                cfg.LAZY = cfgval
        yield ({} if kw is None else {"lazy": kw})
    finally:
        if ctx is not None:
            ctx.__exit__(None, None, None)
            if cfg.LAZY != old:      # leaving the context must restore the previous value
                CTX_LEAK[0] = True
        cfg.LAZY = old


def is_lazy(t):
    return any(k.__name__ == "LazyBNPDataClass" for k in type(t).__mro__)


_TMP = None


def _tmp():
    """one scratch directory per check run: created in the parent (cases() calls this before the worker pool is forked),
    shared by the forked workers (every case gets its own uniquely named sub-directory) and removed by the parent at exit"""
    global _TMP
    if _TMP is None or not os.path.isdir(_TMP):
        _TMP = tempfile.mkdtemp(prefix="c04_")
        atexit.register(shutil.rmtree, _TMP, True)
    return _TMP


# ------------------------------------------------------------------ formats

VCF_INFO_LINES = ('##INFO=<ID=DP,Number=1,Type=Integer,Description="d">\n##INFO=<ID=AF,Number=A,Type=Float,Description="f">\n'
                  '##INFO=<ID=DB,Number=0,Type=Flag,Description="b">\n')
VCF_HDR = "##fileformat=VCFv4.1\n#CHROM\tPOS\tID\tREF\tALT\tQUAL\tFILTER\tINFO"
SAM_HDR = "@HD\tVN:1.0\tSO:unsorted\n@SQ\tSN:chr1\tLN:1000\n@SQ\tSN:chr2\tLN:500\n"

# fmt -> (suffix, buffer type name or None, number of entry-type fields, replaceable {field index: kind})
FORMATS = {
    "bed": (".bed", None, 3, {0: "id", 1: "int", 2: "int"}),
    "bed6": (".bed", "Bed6Buffer", 6, {0: "id", 1: "int", 2: "int", 3: "id", 5: "strand"}),
    "narrowpeak": (".narrowPeak", None, 10, {0: "id", 1: "int", 2: "int", 3: "id", 5: "strand", 9: "int"}),
    "vcf": (".vcf", None, 8, {0: "id", 1: "pos", 2: "str", 3: "str", 4: "str", 5: "str", 6: "str"}),
    "vcfg": (".vcf", "VCFBuffer2", 9, {0: "id", 1: "pos", 2: "str", 3: "str", 4: "str", 6: "str"}),
    # VCF whose header declares INFO keys: the INFO column of the lazy table is a nested lazy table (never replaced here)
    "vcfi": (".vcf", None, 8, {0: "id", 1: "pos", 2: "str", 3: "str", 4: "str", 5: "str", 6: "str"}),
    "sam": (".sam", None, 12, {0: "id", 1: "int", 2: "id", 3: "int", 4: "int", 5: "str", 6: "str", 7: "int", 8: "int",
                               9: "str", 10: "str"}),
    "gtf": (".gtf", None, 9, {}),
    "fastq": (".fq", None, 3, {0: "id", 1: "str"}),
    "fasta2": (".fa", "TwoLineFastaBuffer", 2, {0: "id", 1: "str"}),
    "bam": (".bam", None, 9, {}),
}
FIELD_NAMES = {
    "bed": ["chromosome", "start", "stop"],
    "bed6": ["chromosome", "start", "stop", "name", "score", "strand"],
    "narrowpeak": ["chromosome", "start", "stop", "name", "score", "strand", "signal_value", "p_value", "q_value", "summit"],
    "vcf": ["chromosome", "position", "id", "ref_seq", "alt_seq", "quality", "filter", "info"],
    "vcfg": ["chromosome", "position", "id", "ref_seq", "alt_seq", "quality", "filter", "info", "genotype"],
    "vcfi": ["chromosome", "position", "id", "ref_seq", "alt_seq", "quality", "filter", "info"],
    "sam": ["name", "flag", "chromosome", "position", "mapq", "cigar", "next_chromosome", "next_position", "length",
            "sequence", "quality", "extra"],
    "fastq": ["name", "sequence", "quality"],
    "fasta2": ["name", "sequence"],
    "bam": ["chromosome", "name", "flag", "position", "mapq", "cigar_op", "cigar_length", "sequence", "quality"],
    "gtf": ["chromosome", "source", "feature_type", "start", "stop", "score", "strand", "phase", "atributes"],
}


# writing through ANOTHER buffer type than the one the table was read with (LazyBNPDataClass.get_buffer decides: raw bytes when the
# reader's class is a subclass of the writer's, joined field texts otherwise, from_data of the WRITER's class for FASTA)
#   writer key -> (file suffix, buffer type name or None, format used to parse what was written, number of fields written)
WRITERS = {"bed": (".bed", None, None, None), "bed6": (".bed", "Bed6Buffer", "bed", 3), "fasta": (".fa", None, "fasta2", 2)}
WRITER_OF = {"bed6": "bed", "bed": "bed6", "fastq": "fasta", "fasta2": "fasta"}


def _buffer_type(fmt):
    name = FORMATS[fmt][1]
    if name is None:
        return None
    import bionumpy.io.delimited_buffers as db
    import bionumpy.io.vcf_buffers as vb
    import bionumpy.io.one_line_buffer as ob
    for m in (db, vb, ob):
        if hasattr(m, name):
            return getattr(m, name)
    raise KeyError(name)


def _nc_int(rng, lo=0, hi=5000):
    """a valid but possibly non-canonical spelling of a non-negative integer"""
    v = rng.randrange(lo, hi) if rng.random() < 0.8 else rng.choice([0, 9, 10, 99, 100, 999, 1000, 99999])
    r = rng.random()
    if r < 0.25:
        return "0" * rng.choice([1, 2, 3]) + str(v)
    if r < 0.4:
        return "+" + str(v)
    return str(v)


def _nc_float(rng):
    return rng.choice(["1e3", "+5.0", "007.50", "0.5", "-1", "1E-3", ".5", "12", "3.250"])


def _name(rng, mx=8):
    return "".join(rng.choice("abcXYZ019_.") for _ in range(rng.choice([1, 1, 2, 3, 5, mx])))


def _seq(rng, mx=9):
    return "".join(rng.choice("ACGTacgtN") for _ in range(rng.choice([1, 2, 3, 4, 6, mx])))


def gen_record(fmt, rng, shape):
    """returns (list of lines without EOL, entry-type field texts). `shape` = per-table constants (e.g. VCF sample count)"""
    if fmt in ("bed", "bed6", "narrowpeak"):
        f = ["chr" + _name(rng, 3), _nc_int(rng), _nc_int(rng)]
        if fmt != "bed":
            f += [_name(rng), rng.choice([".", "0", "007", "1000", "+5", "1e3"]), rng.choice("+-.")]
        if fmt == "narrowpeak":
            f += [_nc_float(rng), _nc_float(rng), _nc_float(rng), rng.choice(["-1", "5", "007", "+12"])]
        return ["\t".join(f)], f
    if fmt in ("vcf", "vcfg", "vcfi"):
        info = [".", "DP=004;AF=0.5", "NS=3", "H2"] if fmt != "vcfi" else [".", "DP=004;AF=0.5", "DB;DP=7", "AF=0.25", "DP=12", "DB"]
        f = ["chr" + _name(rng, 2), _nc_int(rng, 1), rng.choice([".", "rs" + _name(rng, 4)]), _seq(rng, 3).upper(),
             rng.choice(["A", "T", "C,G", "<DEL>", "."]), rng.choice([".", "1e3", "29", "007.0"]),
             rng.choice([".", "PASS", "q10;s50"]), rng.choice(info)]
        extra = []
        if shape["samples"] >= 0:
            fmtcol = rng.choice(["GT", "GT:DP", "GT:GQ:DP"])
            extra = [fmtcol] + [rng.choice(["0|1", "1/1", "./.", "0|0:03", "1|1:4:+5"]) for _ in range(shape["samples"])]
        line = "\t".join(f + extra)
        if fmt == "vcfg":
            return [line], f + ["\t".join(extra)]
        return [line], f
    if fmt == "sam":
        s = _seq(rng, 7)
        f = [_name(rng), rng.choice(["0", "16", "004", "+99"]), rng.choice(["chr1", "chr2", "*"]), _nc_int(rng, 1, 900),
             rng.choice(["0", "60", "007"]), rng.choice(["*", f"{len(s)}M", "1S2M", "02M1I"]), rng.choice(["=", "*", "chr2"]),
             _nc_int(rng, 0, 900), rng.choice(["0", "-12", "+30", "007"]), s, "".join(rng.choice("IJ#5;") for _ in s)]
        tags = [rng.choice(["NM:i:0", "XS:A:+", "MD:Z:4", "NM:i:007", "RG:Z:g 1", "XX:f:1e3"]) for _ in range(rng.choice([0, 0, 1, 2, 3]))]
        return ["\t".join(f + tags)], f + ["\t".join(tags)]
    if fmt == "gtf":
        f = ["chr" + _name(rng, 2), _name(rng, 4), rng.choice(["exon", "gene", "CDS"]), _nc_int(rng, 1) if shape["nc"] else str(rng.randrange(1, 999)),
             _nc_int(rng, 1) if shape["nc"] else str(rng.randrange(1, 999)), rng.choice([".", "1e3", "0.5"]), rng.choice("+-."),
             rng.choice(".012"), f'gene_id "{_name(rng)}"; transcript_id "{_name(rng)}";']
        return ["\t".join(f)], f
    if fmt == "fastq":
        n, s = _name(rng) + rng.choice(["", " desc x", "/1"]), _seq(rng)
        q = "".join(rng.choice("!#5IJ~+@") for _ in s)
        plus = "+" + (n if rng.random() < 0.4 else "")
        return ["@" + n, s, plus, q], [n, s, q]
    if fmt == "fasta2":
        n, s = _name(rng) + rng.choice(["", " d e"]), _seq(rng, 14)
        return [">" + n, s], [n, s]
    raise KeyError(fmt)


# --- BAM (independent, from the SAM/BAM specification §4.2) ---

def bam_header_bytes():
    text = b"@HD\tVN:1.6\n@SQ\tSN:chr1\tLN:1000\n@SQ\tSN:c2\tLN:500\n"
    out = b"BAM\x01" + struct.pack("<i", len(text)) + text + struct.pack("<i", 2)
    for name, ln in ((b"chr1", 1000), (b"c2", 500)):
        out += struct.pack("<i", len(name) + 1) + name + b"\x00" + struct.pack("<i", ln)
    return out


def bam_record_fields(rng):
    """(record bytes, the BamEntry field values as this module spells them) — written from the SAM/BAM specification §4.2"""
    name_s = _name(rng)
    name = name_s.encode() + b"\x00"
    seq = _seq(rng, 9).upper()
    ncig = rng.choice([0, 1, 2, 3])
    cig = [(rng.randrange(1, 300), rng.randrange(0, 9)) for _ in range(ncig)]
    cigar = b"".join(struct.pack("<I", (n << 4) | o) for n, o in cig)
    code = {c: i for i, c in enumerate("=ACMGRSVTWYHKDBN")}
    sb = bytearray()
    for i in range(0, len(seq), 2):
        hi = code[seq[i]]
        lo = code[seq[i + 1]] if i + 1 < len(seq) else 0
        sb.append((hi << 4) | lo)
    quals = [rng.randrange(0, 60) for _ in seq]
    qual = bytes(quals)
    tags = b"".join(rng.choice([b"NMC\x03", b"XSA+", b"MDZ12A\x00", b"XXi\xff\xff\xff\x7f"]) for _ in range(rng.choice([0, 0, 1, 2])))
    ref, pos, mapq = rng.choice([0, 1, -1]), rng.randrange(0, 900), rng.randrange(0, 61)
    flag = rng.choice([0, 16, 99])
    body = struct.pack("<iiBBHHHiiii", ref, pos, len(name), mapq, 4680, ncig, flag, len(seq), rng.choice([-1, 0, 1]),
                       rng.randrange(-1, 400), rng.randrange(-50, 50)) + name + cigar + bytes(sb) + qual + tags
    vals = [{0: "chr1", 1: "c2", -1: "*"}[ref], name_s, str(flag), str(pos), str(mapq), "".join("MIDNSHP=X"[o] for _, o in cig),
            ",".join(str(n) for n, _ in cig), seq, ",".join(str(q) for q in quals)]
    return struct.pack("<i", len(body)) + body, vals


def bam_record(rng):
    return bam_record_fields(rng)[0]


# ------------------------------------------------------------------ cases

def _rand_idx(rng, n):
    if rng.random() < 0.08:
        return _rand_range(rng, n)
    ix = _rand_idx0(rng, n)
    if "slice" not in ix and rng.random() < 0.45:
        # the KIND of object the caller passes: the rows selected must not depend on it
        ix["as"] = rng.choice(["list", "i32", "scalars", "series", "i16", "u64", "u8"])
    return ix


def _rand_range(rng, n):
    """a Python `range` as row index = the list of its members (NOT the slice with the same bounds: negative bounds count from the
    end member by member, a member outside the table is an IndexError)"""
    pats = [[n - 1, -1, -1], [-min(n, 3), 0, 1], [0, n, 1], [0, n, 2], [n - 1, -1, -2], [-1, -n - 1, -1], [-n, 0, 2],
            [rng.randint(-n, n), rng.randint(-n - 1, n), rng.choice([1, 2, -1, -2])]]
    if rng.random() < 0.08:
        pats = [[0, n + 2, 1], [-n - 1, 0, 1], [n, -1, -1]]
    return {"range": rng.choice(pats)}


def _rand_idx0(rng, n):
    r = rng.random()
    if r < 0.35:
        def b():
            return rng.choice([None, None, 0, 1, 2, n - 1, n, n + 2, -1, -2, -n, -n - 1, rng.randrange(-n - 1, n + 2)])
        return {"slice": [b(), b(), rng.choice([1, 1, 2, 3, -1, -1, -2, -3])]}
    if r < 0.6:
        return {"mask": [rng.random() < 0.6 for _ in range(n)]}
    if r < 0.95:
        k = rng.choice([0, 1, 2, 3, n, n + 2])
        lo, hi = (-n, n - 1) if n else (0, 0)
        l = [rng.randint(lo, hi) for _ in range(k)] if n else []
        if l and rng.random() < 0.06:
            l[rng.randrange(len(l))] = rng.choice([n, -n - 1, n + 3])
        return {"ints": l}
    return {"mask": [True] * n}


def _spec_len(prog, lens):
    """length of the result per the specification (None = error)"""
    if "t" in prog:
        if "part" in prog:
            return prog["plens"][prog["part"]]
        if "rest" in prog:
            return sum(prog["plens"][prog["rest"]:])
        return lens[prog["t"]]
    if "cat" in prog:
        ls = [_spec_len(p, lens) for p in prog["cat"]]
        return None if None in ls else sum(ls)
    if "catall" in prog:
        return sum(lens[:prog["catall"]])
    if "touch" in prog:
        return _spec_len(prog["touch"], lens)
    if "get" in prog:
        return _spec_len(prog["get"], lens)
    if "obj" in prog:
        return _spec_len(prog["of"], lens)
    if "set" in prog:
        return _spec_len(prog["set"], lens)
    if "seq" in prog:
        a, b = (_spec_len(q, lens) for q in prog["seq"])
        return None if a is None else b
    if "rep" in prog:
        return _spec_len(prog["rep"], lens)
    n = _spec_len(prog["sel"], lens)
    if n is None:
        return None
    r = _py_index(list(range(n)), prog["ix"])
    return None if r is None else len(r)


def _rand_prog(rng, lens, depth, fmt):
    can_cat = fmt != "bam"
    if depth == 0:
        k = rng.randrange(len(lens))
        p = {"t": k}
        if can_cat and rng.random() < 0.25:
            p["chunk"] = rng.choice([1, 20, 60, 150])
        return p
    r = rng.random()
    rep = FORMATS[fmt][3]
    if r > 0.94:
        # read (cache) some columns of the lazy table, then go on with the same table
        p = _rand_prog(rng, lens, depth - 1, fmt)
        g = {"get": p, "fs": sorted(rng.sample(_readable(fmt), rng.choice([1, 1, 2])))}
        if rng.random() < 0.5:
            g["how"] = rng.choice(MAT)      # ... or the whole table is materialised (rows / columns / data object)
        return g
    if r > 0.88:
        # write a child of a (shared) table first, then go on with a program over the same tables
        k = rng.randrange(len(lens))
        n = lens[k]
        child = {"sel": {"t": k}, "ix": rng.choice([{"slice": [1, None, 1]}, {"slice": [min(2, n), None, 1]}, {"slice": [1, None, 2]},
                                                   {"slice": [None, None, -1]}, {"ints": [n - 1, 0]}])}
        side = {"touch": child} if rng.random() < 0.8 else {"touch": {"sel": child, "ix": {"slice": [None, 2, 1]}}}
        return {"seq": [side, _rand_prog(rng, lens, depth - 1, fmt)]}
    if rep and r < 0.07:
        # replace a subset of fields INSIDE the program (operands of a later concatenate get different replaced-field sets)
        p = _rand_prog(rng, lens, depth - 1, fmt)
        n = _spec_len(p, lens)
        if n:
            ks = sorted(rng.sample(sorted(rep), rng.choice([1, 1, 2])))
            return {"rep": p, "kw": [[k, rep[k], _new_values(rng, rep[k], n)] for k in ks]}
        return p
    if r < 0.55 or not can_cat:
        p = _rand_prog(rng, lens, depth - 1, fmt)
        n = _spec_len(p, lens)
        if r < 0.12:
            return {"touch": p}
        return {"sel": p, "ix": _rand_idx(rng, n if n is not None else 2)}
    if r < 0.85:
        return {"cat": [_rand_prog(rng, lens, rng.randrange(depth), fmt), _rand_prog(rng, lens, rng.randrange(depth), fmt)]}
    if r < 0.93:
        return {"catall": rng.randrange(1, len(lens) + 1)}
    return {"touch": _rand_prog(rng, lens, depth - 1, fmt)}


def _new_values(rng, kind, n):
    if kind in ("int", "pos"):
        return [rng.choice([0, 7, 10, 99, 100, 12345, rng.randrange(0, 10 ** 6)]) for _ in range(n)]
    if kind == "id":
        return ["N" + _name(rng, 6) for _ in range(n)]
    if kind == "str":
        return [_seq(rng, 5) for _ in range(n)]
    if kind == "strand":
        return [rng.choice("+-.") for _ in range(n)]
    raise KeyError(kind)


def _wrap_inplace(rng, prog, lens, fmt):
    """a table derived from an untouched leaf (selection / concatenation) is modified IN PLACE by attribute assignment before the
    random program runs over the same leaves: the program's result is what it would have been anyway; variants concatenate the
    modified table, or a sibling selection taken BEFORE the assignment, with the program's result"""
    rep = FORMATS[fmt][3]
    k = rng.randrange(len(lens))
    leaf = {"t": k}
    der = {"sel": leaf, "ix": _rand_idx(rng, lens[k])} if rng.random() < 0.7 else {"cat": [leaf, {"t": rng.randrange(len(lens))}]}
    nd = _spec_len(der, lens)
    if not nd:
        return prog
    oid = 10 + 2 * rng.randrange(1000)
    O1 = {"obj": oid, "of": der}
    kk = rng.choice(sorted(rep))
    S = {"set": O1, "kw": [[kk, rep[kk], _new_values(rng, rep[kk], nd)]]}
    r = rng.random()
    if r < 0.5:
        return {"seq": [S, prog]}
    if r < 0.75:
        return {"seq": [S, {"cat": [prog, O1]}]}
    O2 = {"obj": oid + 1, "of": {"sel": leaf, "ix": _rand_idx(rng, lens[k])}}
    return {"seq": [O2, {"seq": [S, {"cat": [O2, prog]}]}]}


def make_case(rng, fmt, depth, replace_p=0.3, eol=None):
    ntab = rng.choice([1, 2, 2, 3])
    shape = {"samples": rng.choice([-1, 0, 1, 2, 3]) if fmt in ("vcf", "vcfi") else rng.choice([1, 2, 3]), "nc": rng.random() < 0.5}
    fixed = eol is not None      # the fixed families assemble their tables from pieces and strip the final newline themselves
    eol = eol if eol is not None else ("\r\n" if (fmt != "bam" and rng.random() < 0.2) else "\n")
    tables = []
    for _ in range(ntab):
        recs = []
        for _ in range(rng.choice([1, 2, 3, 4, 6])):
            if fmt == "bam":
                b = bam_record(rng)
                recs.append({"raw": b.decode("latin-1"), "fields": []})
            else:
                lines, fields = gen_record(fmt, rng, shape)
                recs.append({"raw": "".join(l + eol for l in lines), "fields": fields})
        tables.append(recs)
    lens = [len(t) for t in tables]
    prog = _rand_prog(rng, lens, depth, fmt)
    if depth and FORMATS[fmt][3] and fmt not in ("bam", "gtf") and rng.random() < 0.1:
        prog = _wrap_inplace(rng, prog, lens, fmt)
    c = {"op": "prog", "fmt": fmt, "eol": eol, "samples": shape["samples"], "recs": tables,
         "prog": prog, "repl": []}
    n = _spec_len(prog, lens)
    rep = FORMATS[fmt][3]
    if rep and n and rng.random() < replace_p:
        ks = sorted(rng.sample(sorted(rep), rng.choice([1, 1, 2, min(3, len(rep)), len(rep)])))
        c["repl"] = [[k, rep[k], _new_values(rng, rep[k], n)] for k in ks]
    if rng.random() < (0.35 if c["repl"] else 0.1):
        c["mat"] = rng.choice(MAT)
    if not fixed and rng.random() < 0.12:
        c = _nofinal(c)
    if not fixed and rng.random() < 0.15:
        c["sw"] = rng.choice(SWITCHES_LAZY[1:])
    return _set_op(c)


def _readable(fmt):
    """entry-type fields whose generated text always parses (scores like '1e3' or '.' are valid text but not valid integers)"""
    if fmt == "bam":
        return list(range(9))
    if fmt == "gtf":
        return [0, 3, 4, 8]
    if fmt == "vcfi":
        return sorted(FORMATS[fmt][3]) + [7]     # the nested INFO table is read (cached) too
    return sorted(FORMATS[fmt][3])


def _nofinal(c):
    """the same case on files WITHOUT a terminating newline: the last line of every table has no line terminator in the file
    (not even the CR of a CRLF file); the reader appends a bare "\n", which is what the last record then ends with"""
    if c["fmt"] == "bam":
        return c
    c = dict(c, recs=[[dict(r) for r in t] for t in c["recs"]], nofinal=True)
    for t in c["recs"]:
        if t:
            last = t[-1]
            raw = last["raw"]
            last["raw"] = (raw[:-len(c["eol"])] if raw.endswith(c["eol"]) else raw.rstrip("\r\n")) + "\n"
    return c


def _equal_size_case(rng, fmt, eol, n):
    """a one-table case whose n records all have the same byte length (rejection sampling on the record generators)"""
    base = make_case(rng, fmt, 0, 0, eol)
    first = base["recs"][0][0]
    recs = [first]
    tries = 0
    while len(recs) < n and tries < 4000:
        tries += 1
        cand = make_case(rng, fmt, 0, 0, eol)["recs"][0][0]
        if len(cand["raw"]) == len(first["raw"]) and (fmt not in ("vcf", "vcfg", "vcfi") or cand["raw"].count("\t") == first["raw"].count("\t")):
            recs.append(cand)
    while len(recs) < n:
        recs.append(dict(first))
    base["recs"] = [recs] + base["recs"][1:]
    base["prog"] = {"t": 0}
    return base


def _has_cat(p):
    """field-level comparison applies: the program concatenates or replaces fields somewhere"""
    if "t" in p:
        return "chunk" in p
    if "cat" in p or "catall" in p or "rep" in p:
        return True
    if "obj" in p:
        return _has_cat(p["of"])
    if "seq" in p:
        return _has_cat(p["seq"][1])
    return _has_cat(p.get("touch") or p.get("get") or p.get("set") or p.get("sel"))


def _has_rep(p):
    if "t" in p or "catall" in p:
        return False
    if "rep" in p:
        return True
    if "obj" in p:
        return _has_rep(p["of"])
    if "cat" in p:
        return any(_has_rep(q) for q in p["cat"])
    if "set" in p:
        return True
    if "seq" in p:
        return any(_has_rep(q) for q in p["seq"])
    return _has_rep(p.get("touch") or p.get("get") or p.get("sel"))


def _apply_sets(p):
    """attribute assignment (`set`) mutates a SHARED leaf object: rewrite `seq [set(leaf, kw), main]` so that every later use of
    that same leaf in `main` sees the assigned columns (as a replacement) and every other leaf is untouched"""
    if "seq" in p:
        side, main = p["seq"]
        main = _apply_sets(main)
        if "set" in side and ("t" in side["set"] or "obj" in side["set"]):
            leaf = side["set"]

            def sub(q):
                if q == leaf:
                    return {"rep": leaf, "kw": side["kw"]}
                if "t" in q or "catall" in q or "obj" in q:
                    return q        # another object (already created): an assignment to `leaf` is none of its business
                if "cat" in q:
                    return dict(q, cat=[sub(x) for x in q["cat"]])
                if "seq" in q:
                    return dict(q, seq=[sub(x) for x in q["seq"]])
                for key in ("sel", "touch", "get", "rep", "set"):
                    if key in q:
                        return dict(q, **{key: sub(q[key])})
                return q
            return {"seq": [leaf, sub(main)]}
        return {"seq": [_apply_sets(side), main]}
    if "set" in p:
        return {"rep": _apply_sets(p["set"]), "kw": p["kw"]}
    if "t" in p or "catall" in p or "obj" in p:
        return p
    if "cat" in p:
        return dict(p, cat=[_apply_sets(x) for x in p["cat"]])
    for key in ("sel", "touch", "get", "rep"):
        if key in p:
            return dict(p, **{key: _apply_sets(p[key])})
    return p



def _set_op(c):
    """GTF is never read lazily: outside the extractor model -> implementation vs oracle only. (FASTQ / two-line FASTA
    buffers have no `concatenate`: their concatenations are eager and modelled by `Prog.evalTab`.)"""
    # replacements inside a program need the lazy table's overlay, which is C05's model: implementation vs oracle only here
    c["op"] = "eager" if (c["fmt"] == "gtf" or _has_rep(c["prog"]) or c.get("wfmt") == "fasta") else "prog"
    return c


def cases(tier, rng):
    _tmp()
    big = tier in ("thorough", "widen")
    fmts = ["bed", "bed6", "narrowpeak", "vcf", "vcfg", "vcfi", "sam", "fastq", "fasta2", "bam", "gtf"]
    per = {"quick": 300, "thorough": 3600, "widen": 1100}[tier]
    L = 6 if big else 3
    # 0. fixed small programs on every format (identity, reverse, repeat, double selection then concatenate)
    for fmt in fmts:
        for eol in (["\n"] if fmt == "bam" else ["\n", "\r\n"]):
            base = make_case(rng, fmt, 0, 0, eol)
            n0 = len(base["recs"][0])
            progs = [{"t": 0}, {"sel": {"t": 0}, "ix": {"slice": [None, None, -1]}},
                     {"sel": {"t": 0}, "ix": {"ints": [n0 - 1, 0, 0]}},
                     {"sel": {"sel": {"t": 0}, "ix": {"slice": [None, None, -1]}}, "ix": {"slice": [None, None, 2]}}]
            # index KINDS: a Python range counting down to row 0 / from-the-end bounds, a pandas Series, unsigned arrays
            progs += [{"sel": {"t": 0}, "ix": {"range": [n0 - 1, -1, -1]}}, {"sel": {"t": 0}, "ix": {"range": [-min(n0, 2), 0, 1]}},
                      {"sel": {"sel": {"t": 0}, "ix": {"range": [0, n0, 1]}}, "ix": {"range": [-1, -n0 - 1, -2]}},
                      {"sel": {"t": 0}, "ix": {"ints": [n0 - 1, 0], "as": "series"}}, {"sel": {"t": 0}, "ix": {"ints": [n0 - 1, 0], "as": "u64"}},
                      {"sel": {"t": 0}, "ix": {"mask": [i % 2 == 0 for i in range(n0)], "as": "series"}},
                      {"sel": {"t": 0}, "ix": {"range": [0, n0 + 1, 1]}}]
            if fmt != "bam":
                progs += [{"cat": [{"sel": {"sel": {"t": 0}, "ix": {"ints": [-1, 0]}}, "ix": {"mask": [False, True]}}, {"t": 0}]},
                          {"sel": {"cat": [{"t": 0}, {"t": 0}]}, "ix": {"slice": [1, None, 2]}},
                          {"t": 0, "chunk": 1}]
            for p in progs:
                yield _set_op(dict(base, prog=p))
            rep = FORMATS[fmt][3]
            for k in rep:
                yield dict(base, prog={"sel": {"t": 0}, "ix": {"slice": [None, None, -1]}},
                           repl=[[k, rep[k], _new_values(rng, rep[k], n0)]])
                # the modified table is MATERIALISED (iterated, tolist, todict, topandas, data object) before it is written
                yield dict(base, prog={"t": 0}, repl=[[k, rep[k], _new_values(rng, rep[k], n0)]], mat=rng.choice(MAT))
                yield _set_op(dict(base, prog={"get": {"rep": {"sel": {"t": 0}, "ix": {"slice": [None, None, -1]}},
                                                       "kw": [[k, rep[k], _new_values(rng, rep[k], n0)]]}, "fs": [], "how": rng.choice(MAT)}))
            # files without a terminating newline (LF and CRLF): whole table, selections containing the last record, replaced writes
            variants = [_nofinal(base)]
            if fmt == "sam":
                # the last line has NO optional tags: its last column is a regular field (quality)
                b2 = dict(base, recs=[[dict(r) for r in t] for t in base["recs"]])
                last = b2["recs"][0][-1]
                last["raw"] = "\t".join(last["raw"].rstrip("\r\n").split("\t")[:11]) + eol
                last["fields"] = list(last["fields"][:11]) + [""]
                variants += [b2, _nofinal(b2)]
            for nf in variants:
              for p in [{"t": 0}, {"sel": {"t": 0}, "ix": {"slice": [None, None, -1]}}, {"sel": {"t": 0}, "ix": {"ints": [n0 - 1, 0, n0 - 1]}},
                      {"t": 0, "chunk": 1}]:
                  if fmt == "bam" and "chunk" in p:
                      continue
                  yield _set_op(dict(nf, prog=p))
                  for k in rep:
                      n = _spec_len(p, [len(t) for t in nf["recs"]])
                      yield _set_op(dict(nf, prog=p, repl=[[k, rep[k], _new_values(rng, rep[k], n)]]))
    # 0b. two-step selections on a 7-record table of every format: a plain slice right after a non-contiguous selection,
    #     with no write in between (d[::2][1:3], d[mask][:3], d[[4,0,2,6]][1:]), then written / concatenated / replaced
    for fmt in fmts:
        for eol in (["\n"] if fmt == "bam" else ["\n", "\r\n"]):
            base = make_case(rng, fmt, 0, 0, eol)
            while len(base["recs"][0]) < 7:
                extra = make_case(rng, fmt, 0, 0, eol)
                base["recs"][0] = (base["recs"][0] + extra["recs"][0])[:7]
            if fmt in ("vcf", "vcfg", "vcfi"):      # one sample-column count per file
                ok = len({r["raw"].count("\t") for r in base["recs"][0]}) == 1
                if not ok:
                    base["recs"][0] = [base["recs"][0][0]] * 7
            d0 = {"t": 0}
            firsts = [{"slice": [None, None, 2]}, {"mask": [True, False, True, True, False, True, True]}, {"ints": [4, 0, 2, 6]},
                      {"slice": [5, 0, -2]}, {"ints": [6, 6, 1, 3, 1]}]
            seconds = [{"slice": [1, 3, 1]}, {"slice": [None, 3, 1]}, {"slice": [1, None, 1]}, {"slice": [None, None, -1]},
                       {"ints": [-1, 0]}, {"mask": None}]
            for f in firsts:
                n1 = len(_py_index(list(range(7)), f))
                for g in seconds:
                    g = {"mask": [i % 2 == 1 for i in range(n1)]} if "mask" in g else g
                    two = {"sel": {"sel": d0, "ix": f}, "ix": g}
                    yield _set_op(dict(base, prog=two))
                    if fmt != "bam" and rng.random() < 0.5:
                        yield _set_op(dict(base, prog={"cat": [two, {"sel": d0, "ix": g}]}))
                    rep = FORMATS[fmt][3]
                    n2 = _spec_len(two, [7] + [len(t) for t in base["recs"][1:]])
                    if rep and n2 and rng.random() < 0.5:
                        k = rng.choice(sorted(rep))
                        yield _set_op(dict(base, prog=two, repl=[[k, rep[k], _new_values(rng, rep[k], n2)]]))
            # operands of one concatenate with DIFFERENT replaced-field sets (non-canonical text around them)
            rep = FORMATS[fmt][3]
            if len(rep) >= 2:
                ks = sorted(rep)
                for _ in range(4):
                    ka, kb = rng.sample(ks, 2)
                    a = {"rep": {"sel": d0, "ix": {"slice": [None, 3, 1]}}, "kw": [[ka, rep[ka], _new_values(rng, rep[ka], 3)]]}
                    b = {"rep": {"sel": d0, "ix": {"ints": [6, 4]}}, "kw": [[kb, rep[kb], _new_values(rng, rep[kb], 2)]]}
                    yield _set_op(dict(base, prog={"cat": [a, b]}))
                    yield _set_op(dict(base, prog={"cat": [a, {"sel": d0, "ix": {"slice": [3, 5, 1]}}]}))
                    yield _set_op(dict(base, prog={"sel": {"cat": [{"t": 0}, b]}, "ix": {"slice": [None, None, -2]}}))
    # 0c. classes that only show on particular byte layouts / object sharing (every format, LF and CRLF):
    #   (a) integer-list REORDERINGS of neighbouring records keeping the first and the last in place, and REPETITIONS over
    #       equal-sized records whose lengths add up to the spanned range (the selection "looks like" one contiguous block);
    #   (b) a slice child with non-zero offset is WRITTEN, afterwards the PARENT (same object) is written with a replaced field,
    #       re-selected, or concatenated;
    #   (c) columns are READ (cached) before a concatenation over non-canonical text.
    for fmt in fmts:
        for eol in (["\n"] if fmt == "bam" else ["\n", "\r\n"]):
            base = _equal_size_case(rng, fmt, eol, 6)
            d0 = {"t": 0}
            n0 = len(base["recs"][0])
            perms = [[0, 2, 1, 3], [0, 2, 1, 3, 4], [1, 3, 2, 4], [0, 3, 1, 2, 4], [0, 1, 3, 2, 4, 5], [0, 4, 2, 3, 1, 5], [2, 4, 3, 5],
                     [0, 0, 2], [1, 1, 3], [0, 1, 1, 3], [2, 2, 3, 5], [0, 0, 0, 3], [3, 3, 5], [0, 2, 2, 3, 3, 5][:5]]
            for perm in perms:
                one = {"sel": d0, "ix": {"ints": perm}}
                yield _set_op(dict(base, prog=one))
                if rng.random() < 0.5:
                    yield _set_op(dict(base, prog={"sel": {"touch": one}, "ix": {"slice": [None, None, -1]}}))
                if fmt != "bam" and rng.random() < 0.5:
                    yield _set_op(dict(base, prog={"cat": [one, {"sel": d0, "ix": {"slice": [1, 3, 1]}}]}))
                if rng.random() < 0.4:
                    yield _set_op(dict(base, prog={"sel": {"sel": d0, "ix": {"slice": [None, None, 1]}}, "ix": {"ints": perm}}))
            rep = FORMATS[fmt][3]
            children = [{"slice": [2, 5, 1]}, {"slice": [1, None, 2]}, {"slice": [1, None, 1]}, {"slice": [3, 0, -1]}, {"ints": [4, 2]}]
            for ch in children:
                side = {"touch": {"sel": d0, "ix": ch}}
                mains = [d0, {"sel": d0, "ix": {"mask": [i % 2 == 0 for i in range(n0)]}}, {"sel": d0, "ix": {"ints": [n0 - 1, 1, 0]}},
                         {"sel": {"sel": d0, "ix": ch}, "ix": {"slice": [None, None, -1]}}]
                if fmt != "bam":
                    mains.append({"cat": [{"sel": d0, "ix": ch}, d0]})
                for m in mains:
                    yield _set_op(dict(base, prog={"seq": [side, m]}))
                    nm = _spec_len(m, [len(t) for t in base["recs"]])
                    if rep and nm:
                        k = rng.choice(sorted(rep))
                        yield _set_op(dict(base, prog={"seq": [side, m]}, repl=[[k, rep[k], _new_values(rng, rep[k], nm)]]))
            rd = _readable(fmt)
            if fmt != "bam":
                for fs in ([rd[1 % len(rd)]], [rd[0]], rd[:3], [rd[-1]]):
                    g0 = {"get": d0, "fs": fs}
                    yield _set_op(dict(base, prog={"cat": [{"sel": g0, "ix": {"mask": [i % 3 != 1 for i in range(n0)]}}, g0]}))
                    yield _set_op(dict(base, prog={"cat": [d0, {"get": {"sel": d0, "ix": {"slice": [1, 4, 1]}}, "fs": fs}]}))
                    yield _set_op(dict(base, prog={"seq": [g0, {"cat": [{"sel": d0, "ix": {"ints": [2, 0]}}, d0]}]}))
                    yield _set_op(dict(base, prog={"sel": {"cat": [g0, {"get": {"t": 0, "chunk": 60}, "fs": fs}]}, "ix": {"slice": [1, None, 2]}}))
    # 0d. the table is written through ANOTHER buffer type than it was read with
    for fmt, wf in WRITER_OF.items():
        for eol in ("\n", "\r\n"):
            base = make_case(rng, fmt, 0, 0, eol)
            while len(base["recs"][0]) < 4:
                base["recs"][0] = (base["recs"][0] + make_case(rng, fmt, 0, 0, eol)["recs"][0])[:4]
            d0 = {"t": 0}
            progs = [d0, {"sel": d0, "ix": {"slice": [None, None, -1]}}, {"sel": {"sel": d0, "ix": {"ints": [3, 1, 0]}}, "ix": {"slice": [1, None, 1]}},
                     {"cat": [{"sel": d0, "ix": {"mask": [True, False, True, True]}}, d0]}, {"touch": {"sel": d0, "ix": {"slice": [1, 3, 1]}}}]
            rep = FORMATS[fmt][3]
            for pr in progs:
                yield _set_op(dict(base, prog=pr, wfmt=wf))
                n = _spec_len(pr, [len(t) for t in base["recs"]])
                ks = [k for k in sorted(rep) if WRITERS[wf][3] is None or k < WRITERS[wf][3]]
                if ks and n:
                    k = rng.choice(ks)
                    yield _set_op(dict(base, prog=pr, wfmt=wf, repl=[[k, rep[k], _new_values(rng, rep[k], n)]]))
    # 0e. SEVERAL objects handed out by ONE reader (chunks of one file), one of them modified IN PLACE by attribute assignment:
    #     every other chunk - never modified - must still write its own original bytes (and read its own columns); the
    #     modified chunk itself writes the assigned column; both kinds side by side in one concatenation
    for fmt in fmts:
        if fmt in ("bam", "gtf"):
            continue
        rep = FORMATS[fmt][3]
        for eol in ("\n", "\r\n"):
            base = make_case(rng, fmt, 0, 0, eol)
            while len(base["recs"][0]) < 8:
                base["recs"][0] = (base["recs"][0] + make_case(rng, fmt, 0, 0, eol)["recs"][0])[:8]
            if fmt in ("vcf", "vcfg", "vcfi") and len({r["raw"].count("\t") for r in base["recs"][0]}) != 1:
                base["recs"][0] = [base["recs"][0][i % 2] if base["recs"][0][0]["raw"].count("\t") == base["recs"][0][1]["raw"].count("\t")
                                   else base["recs"][0][0] for i in range(8)]
            # two READERS (two files of the format) alive together, the table of one modified in place
            two = dict(base, recs=[base["recs"][0][:5], base["recs"][0][3:]])
            T = lambda i: {"t": i}
            for k in rng.sample(sorted(rep), min(2, len(rep))):
                S = lambda i: {"set": T(i), "kw": [[k, rep[k], _new_values(rng, rep[k], len(two["recs"][i]))]]}
                for pr in ({"seq": [S(0), T(1)]}, {"seq": [S(1), T(0)]}, {"seq": [S(0), {"cat": [T(1), T(0)]}]},
                           {"seq": [S(1), {"sel": T(1), "ix": {"slice": [None, None, -1]}}]},
                           {"seq": [S(0), {"sel": {"cat": [T(0), T(1)]}, "ix": {"slice": [1, None, 2]}}]}):
                    yield _set_op(dict(two, prog=pr))
            total = sum(len(r["raw"]) for r in base["recs"][0])
            for size in (len(_header(base)) + total // 2, max(1, total // 4)):
                plens = _chunk_parts(base, 0, size)
                if not plens or len(plens) < 2 or sum(plens) != 8 or 0 in plens:
                    continue
                P = lambda i: {"t": 0, "part": i, "psize": size, "plens": plens}
                last = len(plens) - 1
                rd = _readable(fmt)
                for k in rng.sample(sorted(rep), min(2, len(rep))):
                    S = lambda i: {"set": P(i), "kw": [[k, rep[k], _new_values(rng, rep[k], plens[i])]]}
                    progs = [{"seq": [S(0), P(1)]}, {"seq": [S(0), P(last)]}, {"seq": [S(last), P(0)]}, {"seq": [S(1), P(0)]},
                             {"seq": [S(0), {"sel": P(1), "ix": {"slice": [None, None, -1]}}]},
                             {"seq": [S(0), {"get": P(1), "fs": [k] if k in rd else rd[:1]}]},
                             {"seq": [S(0), {"seq": [{"get": P(1), "fs": [k] if k in rd else rd[:1]}, P(0)]}]},
                             {"seq": [S(0), P(0)]}, {"seq": [S(1), {"sel": P(1), "ix": {"ints": [plens[1] - 1, 0]}}]},
                             {"seq": [S(0), {"cat": [P(1), P(0)]}]}, {"seq": [S(last), {"cat": [P(i) for i in range(len(plens))]}]},
                             {"seq": [{"seq": [S(0), S(1)]}, P(last)]} if last >= 2 else {"seq": [S(1), {"cat": [P(0), P(0)]}]},
                             {"cat": [P(i) for i in range(len(plens))]}, P(1), {"sel": P(last), "ix": {"slice": [None, None, -1]}}]
                    for pr in progs:
                        yield _set_op(dict(base, prog=pr))
                    # two protocols on one reader: read_chunk i times, then read() for the remainder
                    R = lambda i: {"t": 0, "rest": i, "psize": size, "plens": plens}
                    for pr in [R(1), R(last), {"sel": R(1), "ix": {"slice": [None, None, -1]}}, {"cat": [P(0), R(1)]},
                               {"seq": [{"touch": R(1)}, {"sel": R(1), "ix": {"ints": [sum(plens[1:]) - 1, 0]}}]}]:
                        yield _set_op(dict(base, prog=pr))
                    yield _set_op(dict(base, prog=R(1), repl=[[k, rep[k], _new_values(rng, rep[k], sum(plens[1:]))]]))
                    pr = {"seq": [S(0), P(1)]}
                    k2 = rng.choice(sorted(rep))
                    yield _set_op(dict(base, prog=pr, repl=[[k2, rep[k2], _new_values(rng, rep[k2], plens[1])]]))
    # 0f. DERIVING a table must not change the table it was derived from: M is a named table that ALREADY has a replaced column
    #     (replace / attribute assignment / a selection or concatenation of such a table); a second table is derived from M
    #     (replace of ANOTHER column, of the same column, selection + assignment, concatenation, a written copy), then M itself -
    #     or a selection / concatenation made from it afterwards - is written: it shows its own replacement only
    for fmt in fmts:
        rep = FORMATS[fmt][3]
        if fmt in ("bam", "gtf") or len(rep) < 2:
            continue
        for eol in ("\n", "\r\n"):
            base = make_case(rng, fmt, 0, 0, eol)
            while len(base["recs"][0]) < 5:
                base["recs"][0] = base["recs"][0] + make_case(rng, fmt, 0, 0, eol)["recs"][0]
            base["recs"] = [base["recs"][0][:5]]
            if fmt in ("vcf", "vcfg", "vcfi") and len({r["raw"].count("\t") for r in base["recs"][0]}) != 1:
                base["recs"][0] = [base["recs"][0][0]] * 5
            d0 = {"t": 0}
            KW = lambda k, n: [[k, rep[k], _new_values(rng, rep[k], n)]]
            for _ in range(1):
                k1, k2 = rng.sample(sorted(rep), 2)
                ix = {"ints": [3, 0, 4, 1]}
                parents = [({"obj": 0, "of": {"rep": d0, "kw": KW(k1, 5)}}, 5),
                           ({"obj": 0, "of": {"rep": {"sel": d0, "ix": ix}, "kw": KW(k1, 4)}}, 4),
                           ({"obj": 0, "of": {"sel": {"rep": d0, "kw": KW(k1, 5)}, "ix": ix}}, 4),
                           ({"obj": 0, "of": {"rep": {"rep": d0, "kw": KW(k2, 5)}, "kw": KW(k1, 5)}}, 5),
                           ({"obj": 0, "of": {"cat": [{"rep": d0, "kw": KW(k1, 5)}, {"sel": d0, "ix": {"slice": [None, 2, 1]}}]}}, 7)]
                for M, n in parents:
                    derived = [{"rep": M, "kw": KW(k2, n)}, {"rep": M, "kw": KW(k1, n)}, {"touch": {"rep": M, "kw": KW(k2, n)}},
                               {"set": {"obj": 1, "of": {"sel": M, "ix": {"slice": [None, None, -1]}}}, "kw": KW(k2, n)},
                               {"set": {"obj": 1, "of": {"rep": M, "kw": KW(k2, n)}}, "kw": KW(k1, n)},
                               {"set": {"obj": 1, "of": {"cat": [M, M]}}, "kw": KW(k2, 2 * n)},
                               {"rep": {"sel": M, "ix": {"slice": [1, None, 1]}}, "kw": KW(k2, n - 1)},
                               {"get": {"rep": M, "kw": KW(k2, n)}, "fs": [k2] if k2 in _readable(fmt) else _readable(fmt)[:1]}]
                    mains = [M, {"sel": M, "ix": {"slice": [None, None, -1]}}, {"cat": [M, {"sel": d0, "ix": {"ints": [4]}}]}]
                    for D in derived[:2] + rng.sample(derived[2:], 3 if tier == "quick" else 6):
                        m = mains[0] if rng.random() < 0.5 else rng.choice(mains)
                        # M is created first, then the derived table, then M (or something made from it) is written
                        yield _set_op(dict(base, prog={"seq": [M, {"seq": [D, m]}]}))
                    # the same with the parent modified by attribute assignment (the leaf object itself)
                    if n == 5:
                        yield _set_op(dict(base, prog={"seq": [{"set": d0, "kw": KW(k1, 5)},
                                                              {"seq": [{"rep": d0, "kw": KW(k2, 5)}, d0]}]}))
                        yield _set_op(dict(base, prog={"seq": [{"set": d0, "kw": KW(k1, 5)},
                                                              {"seq": [{"touch": {"rep": d0, "kw": KW(k2, 5)}},
                                                                       {"sel": d0, "ix": {"slice": [None, None, 2]}}]}]}))
    # 0h. the mirror image of 0f - the parent is UNTOUCHED (nothing replaced, nothing cached), a table DERIVED from it (selection,
    #     selection of a selection, concatenation, chunked read) is modified IN PLACE by attribute assignment (or has columns read),
    #     then the parent, a SIBLING derived before the assignment (same and other row count), or something made from them
    #     afterwards is written: still the source bytes; the modified table itself shows the assigned column
    for fmt in fmts:
        rep = FORMATS[fmt][3]
        if fmt in ("bam", "gtf") or not rep:
            continue
        for eol in ("\n", "\r\n"):
            for c in _derived_inplace_cases(rng, fmt, eol, tier):
                yield c
    # 0i. "filter every file of a set, concatenate what is left": n-ary concatenation with operands WITHOUT rows among operands with rows
    for fmt in fmts:
        if fmt in ("bam", "gtf"):
            continue
        for eol in ("\n", "\r\n"):
            for c in _filter_concat_cases(rng, fmt, eol, tier):
                yield c
    # 0g. the documented switches of laziness and their precedence: config.LAZY (assigned or through ConfigContext) x the
    #     lazy= keyword x default - every combination that asks for lazy reading must give the pass-through (and a lazy object)
    for fmt in fmts:
        for eol in (["\n"] if fmt == "bam" else ["\n", "\r\n"]):
            base = make_case(rng, fmt, 0, 0, eol)
            n0 = len(base["recs"][0])
            progs = [{"t": 0}, {"sel": {"t": 0}, "ix": {"ints": [n0 - 1, 0]}}]
            if fmt != "bam":
                progs += [{"t": 0, "chunk": 1}, {"cat": [{"t": 0}, {"sel": {"t": 0}, "ix": {"slice": [None, None, -1]}}]}]
            for sw in SWITCHES_LAZY[1:]:
                for p in (progs if big else rng.sample(progs, 2)):
                    yield _set_op(dict(base, prog=p, sw=sw))
    # 1. random programs
    for fmt in fmts:
        m = per if fmt not in ("gtf", "bam") else per // 3
        for _ in range(m):
            yield make_case(rng, fmt, rng.randrange(1, L + 1))
    # 2. every subset of replaceable fields on one small selection (thorough)
    if big:
        for fmt in fmts:
            rep = FORMATS[fmt][3]
            ks = sorted(rep)
            for bits in range(1, 2 ** len(ks)):
                if len(ks) > 7 and rng.random() < 0.75:
                    continue
                base = make_case(rng, fmt, 1, 0)
                n = _spec_len(base["prog"], [len(t) for t in base["recs"]])
                if not n:
                    continue
                base["repl"] = [[k, rep[k], _new_values(rng, rep[k], n)] for i, k in enumerate(ks) if bits >> i & 1]
                yield base


def _table_of(rng, fmt, eol, n, ns=()):
    """tables of n (and ns...) records generated under ONE shape (same column count in every record of every table)"""
    shape = {"samples": rng.choice([-1, 0, 1, 2]) if fmt in ("vcf", "vcfi") else rng.choice([1, 2, 3]), "nc": True}
    tables = []
    for m in (n,) + tuple(ns):
        recs = []
        for _ in range(m):
            lines, fields = gen_record(fmt, rng, shape)
            recs.append({"raw": "".join(l + eol for l in lines), "fields": fields})
        tables.append(recs)
    return {"op": "prog", "fmt": fmt, "eol": eol, "samples": shape["samples"], "recs": tables, "prog": {"t": 0}, "repl": []}


def _filter_concat_cases(rng, fmt, eol, tier):
    """family 0i: "filter every file of a set, concatenate what is left" - three files of unequal size, a selection of each (every
    pattern of selections WITHOUT rows - all-False mask, empty slice, empty int list - among selections with rows), ONE n-ary
    np.concatenate of 3 or 4 operands in any order, written as it is / after a replacement / after a further selection"""
    rep = FORMATS[fmt][3]
    base = _table_of(rng, fmt, eol, rng.choice([2, 3]), (rng.choice([1, 4]), rng.choice([2, 5])))
    ns = [len(t) for t in base["recs"]]
    out = []
    for pattern in range(8):
        for _ in range(1 if tier == "quick" else 2):
            sels = []
            for r in range(3):
                n = ns[r]
                if pattern >> r & 1:
                    ix = rng.choice([{"mask": [False] * n}, {"slice": [n, None, 1]}, {"ints": []}, {"slice": [0, 0, 1]}])
                else:
                    ix = rng.choice([{"mask": [True] * n}, {"mask": [i != 0 or n == 1 for i in range(n)]}, {"slice": [None, None, -1]},
                                     {"ints": [n - 1, 0]}])
                sels.append({"sel": {"t": r}, "ix": ix})
            order = rng.sample([0, 1, 2], 3)
            operands = [sels[i] for i in order] + ([sels[order[1]]] if rng.random() < 0.3 else [])
            p = {"cat": operands}
            n = _spec_len(p, ns)
            out.append(_set_op(dict(base, prog=p)))
            if n and rng.random() < 0.5:
                out.append(_set_op(dict(base, prog={"sel": p, "ix": {"slice": [None, None, -1]}})))
            if n and rep and rng.random() < 0.5:
                k = rng.choice(sorted(rep))
                out.append(_set_op(dict(base, prog=p, repl=[[k, rep[k], _new_values(rng, rep[k], n)]])))
    return out


def _derived_inplace_cases(rng, fmt, eol, tier):
    """family 0h: an UNTOUCHED parent, a derived table modified in place, then the parent / a sibling / the derived table written.
    Named tables (`obj`) are created at their first use in program order; a table is never derived from a modified object AFTER
    the modification through an `obj` node (the oracle treats an `obj` met after an assignment as created before it)."""
    rep = FORMATS[fmt][3]
    ks = sorted(rep)
    rd = _readable(fmt)
    n0 = 6
    base = _table_of(rng, fmt, eol, n0)
    d0 = {"t": 0}
    KW = lambda k, n: [[k, rep[k], _new_values(rng, rep[k], n)]]
    O = lambda i, of: {"obj": i, "of": of}
    rev = {"slice": [None, None, -1]}
    shapes = [({"slice": [None, 3, 1]}, {"slice": [3, None, 1]}),                       # two halves: the same number of rows
              ({"ints": [5, 1, 0, 3, 2, 4]}, rev),                                       # as many rows as the parent itself
              ({"mask": [True, False, True, True, False, False]}, {"ints": [4, 4, 1]}),
              ({"slice": [1, None, 2]}, {"slice": [None, 2, 1]})]                        # other row counts
    out = []
    for ix1, ix2 in shapes:
        k = rng.choice(ks)
        k2 = rng.choice([x for x in ks if x != k] or ks)
        n1, n2 = len(_py_index(list(range(n0)), ix1)), len(_py_index(list(range(n0)), ix2))
        O1, O2 = O(1, {"sel": d0, "ix": ix1}), O(2, {"sel": d0, "ix": ix2})
        S = {"set": O1, "kw": KW(k, n1)}
        S2 = {"set": O2, "kw": KW(k2, n2)}
        O3 = O(3, {"sel": O1, "ix": rev})
        S3 = {"set": O3, "kw": KW(k, n1)}
        OC = O(4, {"cat": [d0, d0]})
        SC = {"set": OC, "kw": KW(k, 2 * n0)}
        dch = {"t": 0, "chunk": 60}
        O5 = O(5, {"sel": dch, "ix": ix1})
        G = {"get": O1, "fs": [k] if k in rd else rd[:1]}
        first = [{"seq": [S, d0]},                                                       # the parent
                 {"seq": [O2, {"seq": [S, O2]}]},                                        # a sibling taken before the assignment
                 {"seq": [S, O1]},                                                       # the modified table itself
                 {"seq": [S, {"sel": d0, "ix": ix2}]}]                                   # a selection of the parent taken afterwards
        more = [{"seq": [O2, {"seq": [S, {"sel": O2, "ix": rev}]}]},
                {"seq": [S, {"sel": d0, "ix": ix1}]},
                {"seq": [S, {"cat": [d0, O1]}]},
                {"seq": [O2, {"seq": [S, {"cat": [O2, d0]}]}]},
                {"seq": [S, {"rep": d0, "kw": KW(k2, n0)}]},
                {"seq": [S, {"rep": d0, "kw": KW(k, n0)}]},
                {"seq": [O2, {"seq": [S, {"rep": O2, "kw": KW(k2, n2)}]}]},
                {"seq": [O2, {"seq": [S, {"seq": [S2, d0]}]}]},                          # two siblings, both assigned
                {"seq": [O2, {"seq": [S, {"seq": [S2, O1]}]}]},
                {"seq": [O2, {"seq": [S, {"seq": [S2, {"cat": [O1, O2]}]}]}]},
                {"seq": [O1, {"seq": [S3, O1]}]},                                        # a selection of a selection is assigned
                {"seq": [O1, {"seq": [S3, d0]}]},
                {"seq": [O1, {"seq": [S3, {"cat": [O1, O3]}]}]},
                {"seq": [SC, d0]},                                                       # derived by concatenation
                {"seq": [SC, {"sel": d0, "ix": ix1}]},
                {"seq": [SC, OC]},
                {"seq": [{"set": O5, "kw": KW(k, n1)}, dch]},                            # the parent is a concatenation of chunks
                {"seq": [{"set": O5, "kw": KW(k, n1)}, {"cat": [dch, O5]}]},
                {"seq": [G, d0]},                                                        # columns of the derived table are read (cached)
                {"seq": [G, {"rep": d0, "kw": KW(k2, n0)}]},
                {"seq": [O2, {"seq": [G, {"cat": [O2, d0]}]}]},
                {"seq": [{"touch": S}, d0]}]                                             # the modified table is written first
        for p in first + (more if tier != "quick" else rng.sample(more, 6)):
            out.append(_set_op(dict(base, prog=p)))
        # the parent is written with a replacement of its own on top (only that column changes)
        out.append(_set_op(dict(base, prog={"seq": [S, d0]}, repl=KW(k2, n0))))
        out.append(_set_op(dict(base, prog={"seq": [O2, {"seq": [S, O2]}]}, repl=KW(k, n2))))
    return out


def _steps(p):
    if "t" in p:
        return 1 if "chunk" in p else 0
    if "cat" in p:
        return 1 + sum(_steps(q) for q in p["cat"])
    if "catall" in p:
        return 1
    if "touch" in p:
        return 1 + _steps(p["touch"])
    if "get" in p:
        return 1 + _steps(p["get"])
    if "obj" in p:
        return _steps(p["of"])
    if "set" in p:
        return 1 + _steps(p["set"])
    if "seq" in p:
        return 1 + sum(_steps(q) for q in p["seq"])
    if "rep" in p:
        return 1 + _steps(p["rep"])
    return 1 + _steps(p["sel"])


def nontrivial(c):
    if c["repl"]:
        return True
    lens = [len(t) for t in c["recs"]]
    ids = [[(k, i) for i in range(n)] for k, n in enumerate(lens)]
    r = _spec_eval(c["prog"], ids)
    return _steps(c["prog"]) >= 2 and r is not None and any(r != t for t in ids)


# ------------------------------------------------------------------ oracle (source lines)

def _py_index(l, ix):
    n = len(l)
    if "int" in ix:
        i = ix["int"]
        return [l[i]] if -n <= i < n else None
    if "slice" in ix:
        a, b, s = ix["slice"]
        return l[slice(a, b, s)]
    if "mask" in ix:
        m = ix["mask"]
        return None if len(m) != n else [x for x, k in zip(l, m) if k]
    out = []
    for i in (list(range(*ix["range"])) if "range" in ix else ix["ints"]):
        if not -n <= i < n:
            return None
        out.append(l[i])
    return out


def _spec_eval(p, tabs):
    if "t" in p:
        if "part" in p:
            off = sum(p["plens"][:p["part"]])
            return list(tabs[p["t"]][off:off + p["plens"][p["part"]]])
        if "rest" in p:     # read_chunk `rest` times, then read(): everything the chunks did not deliver
            return list(tabs[p["t"]][sum(p["plens"][:p["rest"]]):])
        return list(tabs[p["t"]])
    if "cat" in p:
        ls = [_spec_eval(q, tabs) for q in p["cat"]]
        return None if any(x is None for x in ls) else [r for x in ls for r in x]
    if "catall" in p:
        return [r for t in tabs[:p["catall"]] for r in t]
    if "touch" in p:
        return _spec_eval(p["touch"], tabs)
    if "get" in p:
        return _spec_eval(p["get"], tabs)
    if "obj" in p:
        return _spec_eval(p["of"], tabs)
    if "set" in p:
        return _spec_eval(p["set"], tabs)
    if "seq" in p:
        return None if _spec_eval(p["seq"][0], tabs) is None else _spec_eval(p["seq"][1], tabs)
    if "rep" in p:
        return _spec_eval(p["rep"], tabs)
    r = _spec_eval(p["sel"], tabs)
    return None if r is None else _py_index(r, p["ix"])


def _canon_text(kind, text):
    return str(int(text)) if kind in ("int", "pos") else text


def _field_eval(p, c):
    """(rows of expected entry-field texts, set of replaced columns) — a column replaced in ANY operand of a concatenation is
    a replaced column of the result (its other rows show the canonical spelling of their value); every other column keeps the
    original text of every record. FASTQ / two-line FASTA concatenations are eager: every (text) column counts as replaced."""
    fmt = c["fmt"]
    nF = FORMATS[fmt][2]
    kinds = FORMATS[fmt][3]
    if "t" in p:
        rows = _spec_eval(p, c["recs"])
        return [list(r["fields"][:nF]) for r in rows], set()
    if "catall" in p:
        return [list(r["fields"][:nF]) for t in c["recs"][:p["catall"]] for r in t], set()
    if "cat" in p:
        parts = [_field_eval(q, c) for q in p["cat"]]
        if any(x is None for x in parts):
            return None
        union = set().union(*(s for _, s in parts))
        rows = []
        for rs, st in parts:
            for r in rs:
                r = list(r)
                for k in union - st:
                    r[k] = _canon_text(kinds.get(k, "str"), r[k])
                rows.append(r)
        return rows, union
    if "touch" in p:
        return _field_eval(p["touch"], c)
    if "get" in p:
        return _field_eval(p["get"], c)     # reading (caching) a column is not replacing it
    if "obj" in p:
        return _field_eval(p["of"], c)      # a named object has the value it was created with (deriving from it changes nothing)
    if "seq" in p:
        return None if _field_eval(p["seq"][0], c) is None else _field_eval(p["seq"][1], c)
    if "rep" in p:
        x = _field_eval(p["rep"], c)
        if x is None:
            return None
        rows, st = [list(r) for r in x[0]], set(x[1])
        for k, kind, vals in p["kw"]:
            st.add(k)
            for i, r in enumerate(rows):
                r[k] = _fmt_new(kind, vals[i])
        return rows, st
    x = _field_eval(p["sel"], c)
    if x is None:
        return None
    rows = _py_index(x[0], p["ix"])
    return None if rows is None else (rows, x[1])


def _header(c):
    fmt = c["fmt"]
    eol = c["eol"]
    if fmt in ("vcf", "vcfg", "vcfi"):
        h = VCF_HDR if fmt != "vcfi" else VCF_HDR.replace("#CHROM", VCF_INFO_LINES + "#CHROM")
        if c["samples"] >= 0:
            h += "\tFORMAT" + "".join(f"\ts{i}" for i in range(c["samples"]))
        return h.replace("\n", eol) + eol
    if fmt == "sam":
        return SAM_HDR.replace("\n", eol)
    if fmt == "bam":
        return bam_header_bytes().decode("latin-1")
    return ""


def _fmt_new(kind, v):
    return str(v + 1) if kind == "pos" else str(v)


def oracle(c):
    if c["fmt"] == "sam" and c["eol"] == "\r\n":
        pass  # in the domain: every well-formed file; the implementation cannot read it at all (finding)
    prog = _apply_sets(c["prog"])
    rs = _spec_eval(prog, c["recs"])
    if rs is None:
        return {"err": "index"}
    wf = c.get("wfmt")
    if not c["repl"] and not _has_cat(prog) and (not wf or WRITERS[wf][2] is None):
        out = _header(c) + "".join(r["raw"] for r in rs)
        return {"out": out.encode("latin-1").hex() if c["fmt"] == "bam" else out}
    nF = FORMATS[c["fmt"]][2]
    if _has_rep(prog):
        base = [list(r) for r in _field_eval(prog, c)[0]]
    else:
        base = [list(r["fields"][:nF]) for r in rs]
    rows = []
    for i, row in enumerate(base):
        for k, kind, vals in c["repl"]:
            row[k] = _fmt_new(kind, vals[i])
        rows.append(row[:WRITERS[wf][3]] if (wf and WRITERS[wf][3]) else row)
    return {"fields": rows}


def _parse_written(c, out):
    """split a written file back into the entry type's field texts (the format definition, not bionumpy)"""
    fmt = c["fmt"]
    h = _header(c)
    if not out.startswith(h):
        return None
    body = out[len(h):]
    if body and not body.endswith("\n"):
        return None
    lines = body.split("\n")[:-1]
    lines = [l[:-1] if l.endswith("\r") else l for l in lines]
    nF = FORMATS[fmt][2]
    rows = []
    if fmt in ("fastq", "fasta2"):
        k = 4 if fmt == "fastq" else 2
        if len(lines) % k:
            return None
        for i in range(0, len(lines), k):
            e = lines[i:i + k]
            if not e[0].startswith("@" if fmt == "fastq" else ">"):
                return None
            if fmt == "fastq":
                if not e[2].startswith("+"):
                    return None
                rows.append([e[0][1:], e[1], e[3]])
            else:
                rows.append([e[0][1:], e[1]])
        return rows
    for l in lines:
        f = l.split("\t")
        if fmt == "sam":
            if len(f) < 11:
                return None
            rows.append(f[:11] + ["\t".join(f[11:])])
        elif fmt == "vcfg":
            rows.append(f[:8] + ["\t".join(f[8:])])
        else:
            rows.append(f[:nF])
    return rows


def _exotic_kind(p):
    """does the program index with a `range` or a pandas Series (kinds npstructures' ragged arrays refuse with NotImplementedError)"""
    if isinstance(p, dict):
        if "ix" in p and ("range" in p["ix"] or p["ix"].get("as") == "series"):
            return True
        return any(_exotic_kind(v) for k, v in p.items() if k != "ix")
    if isinstance(p, list):
        return any(_exotic_kind(v) for v in p)
    return False


def agree(c, got, exp):
    if isinstance(got, dict) and got.get("err") == "other:NotImplementedError" and _exotic_kind(c["prog"]):
        return True     # the index KIND was refused (ragged columns of eager / cached tables): a refusal, not a wrong selection
    if "fields" in exp:
        if not isinstance(got, dict) or "out" not in got:
            return False
        pf = WRITERS[c["wfmt"]][2] if c.get("wfmt") else None
        pc = dict(c, fmt=pf) if pf else c
        return _parse_written(pc, got["out"]) == exp["fields"]
    return core.canon(got) == core.canon(exp)


# ------------------------------------------------------------------ implementation

def _write_tables(c):
    d = os.path.join(_tmp(), core.case_hash(c) + hashlib.sha1(os.urandom(8)).hexdigest()[:6])
    os.makedirs(d, exist_ok=True)
    suffix = FORMATS[c["fmt"]][0]
    paths = []
    h = _header(c)
    for i, t in enumerate(c["recs"]):
        p = os.path.join(d, f"t{i}{suffix}")
        data = (h + "".join(r["raw"] for r in t)).encode("latin-1")
        if c.get("nofinal") and t and c["fmt"] != "bam":
            data = data[:-1]        # the file ends right after its last character: the reader supplies the missing "\n"
        if c["fmt"] == "bam":
            with gzip.open(p, "wb") as f:
                f.write(data)
        else:
            with open(p, "wb") as f:
                f.write(data)
        paths.append(p)
    return d, paths


def _np_idx(ix):
    """the index as the caller would write it; `as` picks among equivalent spellings (Python list, NumPy array of another
    integer width, list of NumPy scalars): the result must not depend on it"""
    how = ix.get("as")
    if "int" in ix:
        return [ix["int"]]          # as an int list (see ASSUMPTIONS)
    if "slice" in ix:
        return slice(*ix["slice"])
    if "range" in ix:
        return range(*ix["range"])
    if "mask" in ix:
        if how == "series" and ix["mask"]:
            import pandas as pd
            return pd.Series(list(ix["mask"]), dtype=bool)
        return list(ix["mask"]) if (how == "list" and ix["mask"]) else np.array(ix["mask"], dtype=bool)
    if how == "series" and ix["ints"]:
        import pandas as pd
        return pd.Series(list(ix["ints"]), dtype="int64")
    if how in ("u64", "u8") and ix["ints"] and all(0 <= i < 200 for i in ix["ints"]):
        return np.array(ix["ints"], dtype=np.uint64 if how == "u64" else np.uint8)
    if how == "i16" and ix["ints"]:
        return np.array(ix["ints"], dtype=np.int16)
    if how == "list" and ix["ints"]:
        return list(ix["ints"])
    if how == "i32":
        return np.array(ix["ints"], dtype=np.int32)
    if how == "scalars" and ix["ints"]:
        return [np.int64(i) for i in ix["ints"]]
    return np.array(ix["ints"], dtype=int)


_LEAVES = {}
_EXPECT_LAZY = [True]


def _lazy_checked(t):
    """every combination of switches used by this check asks for a lazily read table: an eager one is the wrong answer already"""
    if _EXPECT_LAZY[0] and len(t) and not is_lazy(t):
        raise NotLazy()
    return t


def _run(p, paths, bt, bnp, scratch):
    if "t" in p:
        # every table is read ONCE per case: all uses of leaf k are the same Python object (a parent stays alive while its
        # children are written, and is used again afterwards)
        if "part" in p:
            # all chunks of table k are handed out by ONE reader (objects of the same lazy class, sharing the reader's state)
            key = (p["t"], "parts", p["psize"])
            if key not in _LEAVES:
                f = bnp.open(paths[p["t"]], buffer_type=bt, **_OPEN_KW)
                chunks = []
                for _ in range(len(p["plens"]) + 1):
                    ch = f.read_chunk(min_chunk_size=p["psize"])
                    if len(ch) == 0:
                        break
                    chunks.append(_lazy_checked(ch))
                _LEAVES[key] = chunks
            return _LEAVES[key][p["part"]]
        if "rest" in p:
            # TWO reading protocols on ONE reader: `rest` chunks are taken with read_chunk, the remainder with read()
            key = (p["t"], "rest", p["psize"], p["rest"])
            if key not in _LEAVES:
                f = bnp.open(paths[p["t"]], buffer_type=bt, **_OPEN_KW)
                taken = [f.read_chunk(min_chunk_size=p["psize"]) for _ in range(p["rest"])]
                _LEAVES[key] = _lazy_checked(f.read())
                _LEAVES[key + ("alive",)] = taken
            return _LEAVES[key]
        key = (p["t"], p.get("chunk"))
        if key not in _LEAVES:
            f = bnp.open(paths[p["t"]], buffer_type=bt, **_OPEN_KW)
            if "chunk" in p:
                _LEAVES[key] = np.concatenate([_lazy_checked(ch) for ch in f.read_chunks(min_chunk_size=p["chunk"])])
            else:
                _LEAVES[key] = _lazy_checked(f.read())
        return _LEAVES[key]
    if "seq" in p:
        _run(p["seq"][0], paths, bt, bnp, scratch)
        return _run(p["seq"][1], paths, bt, bnp, scratch)
    if "obj" in p:
        # a named intermediate table: created once (at its first use), every later use is the same Python object
        key = ("obj", p["obj"])
        if key not in _LEAVES:
            _LEAVES[key] = _run(p["of"], paths, bt, bnp, scratch)
        return _LEAVES[key]
    if "set" in p:
        t = _run(p["set"], paths, bt, bnp, scratch)
        names = FIELD_NAMES[_FMT_OF[id(paths)]]
        for k, kind, vals in p["kw"]:
            setattr(t, names[k], _new_column(kind, vals))      # in place: the object is shared with every other use of the leaf
        return t
    if "get" in p:
        t = _run(p["get"], paths, bt, bnp, scratch)
        names = FIELD_NAMES[_FMT_OF[id(paths)]]
        for j in p["fs"]:
            getattr(t, names[j])
        _materialise(t, p.get("how"))
        return t
    if "cat" in p:
        return np.concatenate([_run(q, paths, bt, bnp, scratch) for q in p["cat"]])
    if "catall" in p:
        return np.concatenate([_lazy_checked(bnp.open(q, buffer_type=bt, **_OPEN_KW).read()) for q in paths[:p["catall"]]])
    if "touch" in p:
        t = _run(p["touch"], paths, bt, bnp, scratch)
        with bnp.open(scratch, "w", buffer_type=bt) as w:
            w.write(t)
        return t
    if "rep" in p:
        from bionumpy.bnpdataclass import replace
        t = _run(p["rep"], paths, bt, bnp, scratch)
        names = FIELD_NAMES[_FMT_OF[id(paths)]]
        return replace(t, **{names[k]: _new_column(kind, vals) for k, kind, vals in p["kw"]})
    return _run(p["sel"], paths, bt, bnp, scratch)[_np_idx(p["ix"])]


MAT = ["tolist", "iter", "todict", "toiter", "get_data_object", "topandas"]


def _materialise(t, how):
    """LOOK at the whole table (rows / columns / data object) without changing it; what is written afterwards must not depend on it"""
    if not how:
        return
    try:
        if how == "iter":
            for _ in t:
                pass
        elif how == "toiter":
            for _ in t.toiter():
                pass
        elif how == "get_data_object":
            (t.get_data_object() if hasattr(t, "get_data_object") else t.tolist())
        else:
            getattr(t, how)()
    except Exception:
        # valid text need not parse as the column's type ('1e3' / '.' scores), not every entry type converts to a data frame:
        # the attempt alone must not change what is written
        pass


def _new_column(kind, vals):
    import bionumpy as bnp
    if kind in ("int", "pos"):
        return np.array(vals, dtype=int)
    if kind == "id":
        from bionumpy.string_array import as_string_array
        return as_string_array(vals)
    if kind == "str":
        return bnp.as_encoded_array(vals)
    if kind == "strand":
        from bionumpy.encodings.alphabet_encoding import StrandEncoding
        return bnp.as_encoded_array("".join(vals), StrandEncoding)[:, None] if False else bnp.as_encoded_array(vals, StrandEncoding)
    raise KeyError(kind)


_FMT_OF = {}


def impl(c):
    import bionumpy as bnp
    from bionumpy.bnpdataclass import replace
    CTX_LEAK[0] = False
    with switches(c.get("sw")) as kw:
        _OPEN_KW.clear()
        _OPEN_KW.update(kw)
        _EXPECT_LAZY[0] = c["fmt"] != "gtf"
        r = _impl(c)
    return {"err": "other:ConfigContextLeak"} if CTX_LEAK[0] else r


def _impl(c):
    import bionumpy as bnp
    from bionumpy.bnpdataclass import replace
    d, paths = _write_tables(c)
    _FMT_OF.clear()
    _LEAVES.clear()
    _FMT_OF[id(paths)] = c["fmt"]
    try:
        bt = _buffer_type(c["fmt"])
        out = os.path.join(d, "out" + FORMATS[c["fmt"]][0])
        try:
            t = _run(c["prog"], paths, bt, bnp, os.path.join(d, "scratch" + FORMATS[c["fmt"]][0]))
            if c["repl"]:
                names = FIELD_NAMES[c["fmt"]]
                t = replace(t, **{names[k]: _new_column(kind, vals) for k, kind, vals in c["repl"]})
            _materialise(t, c.get("mat"))      # the table is looked at (rows, columns, data frame) before it is written
            wbt = bt
            if c.get("wfmt"):
                out = os.path.join(d, "outw" + WRITERS[c["wfmt"]][0])
                wname = WRITERS[c["wfmt"]][1]
                import bionumpy.io.delimited_buffers as db
                wbt = getattr(db, wname) if wname else None
            with bnp.open(out, "w", buffer_type=wbt) as w:
                w.write(t)
        except IndexError:
            return {"err": "index"}
        except Exception as e:
            return {"err": "other:" + type(e).__name__}
        if c["fmt"] == "bam":
            with gzip.open(out, "rb") as f:
                return {"out": f.read().hex()}
        with open(out, "rb") as f:
            return {"out": f.read().decode("latin-1")}
    finally:
        shutil.rmtree(d, ignore_errors=True)


# ------------------------------------------------------------------ Lean request

def _chunk_parts(c, k, size):
    """how the real chunked reader partitions table k (chunk boundaries are C01's subject; taken from the implementation)"""
    import bionumpy as bnp
    d, paths = _write_tables(c)
    try:
        return [len(x) for x in bnp.open(paths[k], buffer_type=_buffer_type(c["fmt"])).read_chunks(min_chunk_size=size)]
    except Exception:
        return None
    finally:
        shutil.rmtree(d, ignore_errors=True)


def _model_ix(ix):
    """the index as the Lean side knows it: a `range` is the integer list of its members, the spelling (`as`) is dropped"""
    if "range" in ix:
        return {"ints": list(range(*ix["range"]))}
    return {k: v for k, v in ix.items() if k != "as"}


def model_request(c):
    if c["op"] != "prog":
        return None
    tabs = [list(t) for t in c["recs"]]

    def tr(p):
        if "t" in p:
            if "part" in p:         # one chunk of the file: a table of its own (the records the reader put into that chunk)
                off = sum(p["plens"][:p["part"]])
                tabs.append(tabs[p["t"]][off:off + p["plens"][p["part"]]])
                return {"t": len(tabs) - 1}
            if "rest" in p:         # the remainder of the file after `rest` chunks: a table of its own
                tabs.append(tabs[p["t"]][sum(p["plens"][:p["rest"]]):])
                return {"t": len(tabs) - 1}
            if "chunk" not in p:
                return {"t": p["t"]}
            parts = _chunk_parts(c, p["t"], p["chunk"]) or [len(tabs[p["t"]])]
            a = len(tabs)
            src, pos = tabs[p["t"]], 0
            for n in parts:
                tabs.append(src[pos:pos + n])
                pos += n
            return {"catr": [a, len(parts)]}
        if "cat" in p:
            qs = [tr(q) for q in p["cat"]]
            if len(qs) != 2:
                if all(set(q) == {"t"} for q in qs) and [q["t"] for q in qs] == list(range(qs[0]["t"], qs[0]["t"] + len(qs))):
                    return {"catr": [qs[0]["t"], len(qs)]}      # n-ary concatenation of leaves: a range of tables
                r = qs[0]           # n-ary concatenation of arbitrary operands: run by the model as nested binary ones (the n-ary
                for q in qs[1:]:    # rule itself is `concat_refines`; both denote the operands' records in order)
                    r = {"cat": [r, q]}
                return r
            return {"cat": qs}
        if "catall" in p:
            return {"catr": [0, p["catall"]]}
        if "touch" in p:
            return {"touch": tr(p["touch"])}
        if "get" in p:
            return tr(p["get"])         # reading a column only fills the lazy table's cache: no effect on the extractor
        if "obj" in p:
            return tr(p["of"])          # a named table: values are immutable in the model, naming is the identity
        if "seq" in p:
            return {"seq": [tr(q) for q in p["seq"]]}
        return {"sel": tr(p["sel"]), "ix": _model_ix(p["ix"])}

    prog = tr(c["prog"])
    if c["fmt"] == "bam":
        hx = lambda x: x.encode("latin-1").hex()
        return {"op": "prog", "fmt": "bam", "hdr": hx(_header(c)), "prog": prog, "nF": 9, "repl": [], "cmp": "bytes",
                "tables": [hx("".join(r["raw"] for r in t)) for t in tabs],
                "recs": [[{"raw": hx(r["raw"]), "fields": []} for r in t] for t in tabs]}
    wf = c.get("wfmt")
    return {"op": "prog", "fmt": c["fmt"], "hdr": _header(c), "prog": prog, "nF": FORMATS[c["fmt"]][2],
            "join": bool(wf and WRITERS[wf][2] is not None),
            "cmp": "fields" if (c["repl"] or _has_cat(c["prog"]) or (wf and WRITERS[wf][2] is not None)) else "bytes",
            "tables": ["".join(r["raw"] for r in t) for t in tabs], "recs": tabs,
            "repl": [[k, [_fmt_new(kind, v) for v in vals]] for k, kind, vals in c["repl"]]}


def agree_model(c, got, m):
    """the Lean side also reports whether every extractor built from the case's files satisfies the (proved-sound)
    invariant checker `Ext.invB` — the hypothesis of `program_bytes`; it must hold for the correspondence to count"""
    if isinstance(got, dict) and got.get("err") == "other:NotImplementedError" and _exotic_kind(c["prog"]):
        return True     # the index KIND was refused (see `agree`): nothing to compare with the model
    if isinstance(m, dict) and "out" in m:
        if m.get("inv") is not True:
            return False
        m = {k: v for k, v in m.items() if k != "inv"}
    return core.canon(got) == core.canon(m)


def finding_key(c, got, exp):
    fmt = c["fmt"]
    crlf = c.get("eol") == "\r\n"
    if isinstance(got, dict) and str(got.get("err", "")).startswith("other:"):
        if fmt == "sam" and crlf:
            return "sam:crlf-file-cannot-be-read"
        return f"{fmt}:raises-{got['err'][6:]}"
    if fmt == "gtf":
        return "gtf:eager-read-reformats-noncanonical-integers"
    if c["repl"]:
        return f"{fmt}:replaced-write" + (":crlf" if crlf else "")
    if crlf:
        return ("sam" if fmt == "sam" else "delimited" if fmt in ("bed", "bed6", "narrowpeak", "vcf", "vcfg", "vcfi") else fmt) + ":crlf-selection-loses-newline"
    return f"{fmt}:passthrough-bytes-differ"
