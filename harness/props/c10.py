"""C10 — genome-wide operations respect chromosome boundaries."""
import atexit
import itertools
import os
import shutil
import tempfile

import numpy as np

from .. import core
from ..core import SKIP
from . import c10_extra

ID = "C10"
RULE = ("genomes of 1..4 chromosomes (sizes 0..6; names where one is a prefix of another; names with '_' that are ignored "
        "when the default filter is on) x interval/location sets per chromosome drawn with heavy weight on start = 0, "
        "stop = chromosome size, touching neighbours and empty chromosomes; exhaustive part: every genome of <= 3 chromosomes "
        "with sizes <= 3 x every global position / every local position for the coordinate maps, every pair of boundary-"
        "touching intervals for merge. Each public entry point (Genome.get_intervals(..).get_mask/get_pileup/merged/clip/"
        "extended_to_size/sorted/get_location, GenomicLocation.get_windows, GenomicArray[intervals], GenomicSequence[intervals], "
        "Geometry.*, GlobalOffset.*) is compared with the single-contig operation applied per chromosome. Pile-ups and masks "
        "are observed per chromosome AND genome-wide (sum, number of zero positions, np.histogram with given bins, genome size, "
        "Geometry.get_global_mask as a dense array) against the concatenation of the INCLUDED chromosomes' own arrays, with "
        "ignored ('_') chromosomes of several sizes in the genome; pile-up, mask, mask complement, merge, clip and extend are "
        "also run through the streamed per-chromosome path (as_stream(), Genome.get_intervals(stream) with every kind of "
        "chunking, read_intervals(file, stream=True)) with chromosomes without entries at the start, in the middle and at the "
        "END of the genome order. Round 4 (c10_extra.py): per-chromosome views of a genome-wide array (track[name], "
        "track[locations], track[mask], get_data, from_dict), BinnedGenome counts, map_locations (locations at interval "
        "starts/stops and at position 0 of the next chromosome), Geometry.jaccard / jaccard_all_vs_all / get_track, "
        "constructors (from_fields, np.concatenate, from_track, get_sorted_stream, sorted locations), file readers "
        "(Genome.from_file on .chrom.sizes / .fa, read_intervals, read_track, read_locations incl. numeric names, "
        "read_sequence, BinnedGenome.from_file/count_file), GenomicSequence dict and FASTA backends, StreamedGeometry; "
        "merge inputs that are outside a chromosome or not in genome order must raise. Genomes with more contigs than fit one "
        "byte (257, 300; thorough 600) with entries on the contigs around index 255/256 and the last one, through every op; "
        "two genome objects over the same chromosomes in different orders (permutation, sort_names) alive together: a track "
        "(in memory and streamed) of one indexed with intervals or a mask of the other, and mask & mask, must give the right "
        "chromosome's values or refuse (op xgenome); ONE sequence object indexed "
        "first with one genome's intervals and then with the other's (a cache keyed by the first call). Narrow coordinate "
        "columns (int8/uint8/int16/int32, as BAM intervals or user arrays have) on genomes just longer than the dtype's range, "
        "through every op, and a genome with a chromosome of almost 2**31 bases in front (op hugegenome, run-length tracks). "
        "Round 6: two genome objects with the SAME names in the same order but another split of the length (same total and "
        "different total): mask & mask, track[mask], pile-up + pile-up must refuse, a track indexed with the other genome's "
        "intervals gives the values where the intervals fit or refuses; GlobalOffset.from_local_interval / "
        "start_ends_from_intervals with the documented keyword do_clip (True and False) on entries overhanging chromosomes "
        "that are not the last one (op globalise: global starts/stops and the way back through to_local_interval). "
        "Round 7: WHERE THE TABLE COMES FROM (src): the in-memory operations are also run on the same entries read from a "
        "bed file (lazily parsed columns: Genome.read_intervals(file), bnp.open(file).read()), joined from two files with "
        "np.concatenate and selected by a mask from a larger file; every combination of 0..3 entries per chromosome "
        "(exactly one entry on the first / a middle / the last chromosome) x source x operation. "
        "Round 8: batches on ONE BinnedGenome incl. rejected ones (counts after every batch; a rejected batch changes "
        "nothing); GenomicIntervals joined with np.concatenate / indexed with a mask as further sources (giconcat, gisel); "
        "cases with ignored names repeated on a genome derived with with_ignored_added (gderive), also after from_file. "
        "Non-trivial = "
        ">= 2 included chromosomes and some entry touches a chromosome end or position 0")
EXHAUSTIVE = {"quick": False, "thorough": False}
MODEL_OPS = {"seq", "lookup", "l2g", "g2l", "pileup", "mask", "merge", "clip", "extend", "windows", "sort", "extract", "location"} | c10_extra.MODEL_OPS
PARALLEL = 16
ASSUMPTIONS = [
    "single-contig operations (arithmetics/intervals.py get_pileup, get_boolean_mask, merge_intervals, clip, extend_to_size) are "
    "modelled by their list-level meaning; their own correctness is property C08",
    "npstructures RunLengthArray slicing / RunLength2dArray.from_intervals().sum(axis=0) / ragged indexing by (start, stop) pairs "
    "are externals with list-level meaning (dense slice, number of covering intervals)",
    "np.searchsorted(side='right') on a non-decreasing array = number of leading elements <= x; np.lexsort = stable sort by keys",
    "chromosome-name lookup: the npstructures HashTable is an external (key -> stored value, IndexError when absent); absence of "
    "hash collisions between a foreign name and a genome name is not proved (exercised with prefix / extension / permutation names)",
]
TRUSTED_EXTRA = ["C10: GenomicSequence extraction is compared implementation-vs-oracle only (complement table is C14's)"]

MANIFEST = {
    "text": "Lean 4 theorems, for every genome (any number and size of chromosomes, zero sizes included) and every list of entries: "
            "local<->global conversion is a bijection on valid positions (searchsorted model = walk-the-chromosomes spec); pile-up and "
            "mask computed on the concatenated genome and cut back per chromosome equal the single-contig result on that chromosome's "
            "own entries (cover_local); values under an interval are the slice of the chromosome's own dense array, reversed on '-'; "
            "clip / extend_to_size / windows with the size looked up by the row's own chromosome stay inside that chromosome and never "
            "reach a neighbour's global range; sorting = stable sort by (chromosome index, start, stop); ignored-chromosome filtering "
            "keeps order and ranks; the genome-wide array is exactly the concatenation of the included chromosomes' own arrays "
            "(global_is_concat: length, sum, zero count, histograms follow) and the streamed per-chromosome path yields one "
            "array per chromosome of the genome order, all-zero of full length for a chromosome without entries wherever it "
            "is (stream_per_chromosome); get_location lies inside its own interval; Geometry.sort is in genome order; "
            "track[name]/track[location]/track[mask] are the chromosome's own values (track_views_local, toDict_flatten_inverse); "
            "BinnedGenome bins count only their own chromosome's locations (binned_local); map_locations pairs an interval with "
            "exactly its own chromosome's locations in [start, stop) (map_locations_local, shipped side='right' rule refuted); "
            "completeness: pile-up/mask/extraction fail exactly on entries outside their chromosome (pileup_none_iff); the "
            "searchsorted model is pinned as a count over sorted prefix sums (searchsorted_is_count). Merge (no hypothesis, "
            "merge_checked_iff): a result exactly when all entries are inside their chromosomes and in genome order, and then "
            "the per-chromosome merge, otherwise an error. Globalisation of intervals with or without do_clip "
            "(globalise_clip_own_chromosome, globalise_none_iff): the global interval lies inside the own chromosome's global range, "
            "to_local_interval returns the entry cut at its own chromosome size, refusal exactly outside; clipping at the genome "
            "end instead is refuted (globalise_genome_end_unsound). Older statements: Merge: the shipped rule (merge in concatenated coordinates) is refuted in Lean with the boundary-"
            "touching witness, the repaired per-chromosome rule is proved equal to the per-chromosome single-contig merge. "
            "Generated obligations: the real GenomicIntervalsFull.clip / extended_to_size / get_location and Geometry.clip / "
            "extend_to_size are executed on symbolic columns every run and the recorded expressions (Gen/C10.lean) are proved equal "
            "to the model's kernels with the row's OWN chromosome size; window flanks are re-tabulated. Chromosome-name lookup "
            "(polynomial hash mod 2^31-1 + hash table) is modelled: genome names map to their own index when the hashes are "
            "distinct (name_lookup_partial; collisions with foreign names are not excluded by proof). "
            "Correspondence: implementation vs Lean model vs Lean spec vs independent Python oracle on every public entry point.",
    "note": "Single-contig operations are specified, not re-verified here (C08). GenomicSequence (indexed FASTA, reverse "
            "complement) is covered by the correspondence only; name lookup is proved only up to hash collisions (…_partial).",
    "technique": "Lean 4 proof (induction over the chromosome list / prefix sums) + symbolic tracing of straight-line kernels into "
                 "generated Lean + differential correspondence with the implementation",
    "design": "§6 C10",
}

_TMP = None
_TMP_PID = None


def _tmpdir():
    global _TMP, _TMP_PID
    if _TMP is None:
        _TMP = tempfile.mkdtemp(prefix="c10-")
        _TMP_PID = os.getpid()

        def _rm(d=_TMP, pid=_TMP_PID):
            if os.getpid() == pid:
                shutil.rmtree(d, ignore_errors=True)
        atexit.register(_rm)
    return _TMP


# ------------------------------------------------------------------ symbolic tracing -> Gen/C10.lean

class NotTraceable(Exception):
    pass


def _lift(x):
    if isinstance(x, _Sym):
        return x.expr
    if isinstance(x, np.ndarray):
        return ("const", tuple(int(v) for v in x.ravel()))
    if isinstance(x, (bool, np.bool_)):
        raise NotTraceable("bool")
    if isinstance(x, (int, np.integer)):
        return ("int", int(x))
    if isinstance(x, str):
        return ("str", x)
    raise NotTraceable(type(x).__name__)


def _binop(op, rev=False):
    def f(self, other):
        a, b = (other, self) if rev else (self, other)
        return _Sym((op, _lift(a), _lift(b)))
    return f


class _Sym:
    """a whole column of unknown integers; records the expression the real code builds from it"""
    __array_priority__ = 1000
    __hash__ = None

    def __init__(self, expr):
        self.expr = expr
    __add__ = _binop("+"); __radd__ = _binop("+", True)
    __sub__ = _binop("-"); __rsub__ = _binop("-", True)
    __eq__ = _binop("=="); __ne__ = _binop("!=")
    __floordiv__ = _binop("//")

    def ravel(self):
        return self

    def __len__(self):
        return 2

    def __bool__(self):
        raise NotTraceable("bool")

    def __int__(self):
        raise NotTraceable("int")

    def __index__(self):
        raise NotTraceable("index")

    def __array_ufunc__(self, ufunc, method, *inputs, **kw):
        name = {"maximum": "max", "minimum": "min", "add": "+", "subtract": "-", "equal": "=="}.get(ufunc.__name__)
        if method != "__call__" or name is None or kw:
            raise NotTraceable(ufunc.__name__)
        return _Sym((name,) + tuple(_lift(x) for x in inputs))

    def __array_function__(self, func, types, args, kwargs):
        if func is np.where and len(args) == 3 and not kwargs:
            return _Sym(("where",) + tuple(_lift(x) for x in args))
        raise NotTraceable(getattr(func, "__name__", "?"))


_TRACE_SIZES = {"c0": 1000003, "c1": 2000003, "c2": 3000017}     # distinctive: a constant in a trace names its chromosome


def _trace_kernels():
    """run the real clip / extend_to_size on symbolic columns (row 0 on c1, row 1 on c0)"""
    import dataclasses
    from bionumpy.genomic_data.geometry import Geometry
    from bionumpy.genomic_data.genomic_intervals import GenomicIntervalsFull
    from bionumpy.genomic_data.genome_context import GenomeContext
    from bionumpy.encoded_array import as_encoded_array

    @dataclasses.dataclass
    class Duck:
        chromosome: object
        start: object
        stop: object
        strand: object = None

        def __len__(self):
            return 2
    from bionumpy.datatypes import StrandedInterval

    class IvDuck(StrandedInterval):
        """passes isinstance(.., Interval) without the column conversion of the real constructor"""
        def __init__(self, chromosome, start, stop, strand):
            for k, v in dict(chromosome=chromosome, start=start, stop=stop, strand=strand).items():
                object.__setattr__(self, k, v)

        def __len__(self):
            return 2
    ctx = GenomeContext.from_dict(_TRACE_SIZES)
    chrom = as_encoded_array(["c1", "c0"], ctx.encoding)
    duck = lambda: Duck(chrom, _Sym("s"), _Sym("e"), _Sym("strand"))
    ivduck = lambda: IvDuck(chrom, _Sym("s"), _Sym("e"), _Sym("strand"))
    out = {}
    for name, f in (("clipGenome", lambda: GenomicIntervalsFull(duck(), ctx).clip()),
                    ("clipGeometry", lambda: Geometry(_TRACE_SIZES).clip(duck())),
                    ("extendGeometry", lambda: Geometry(_TRACE_SIZES).extend_to_size(duck(), _Sym("L"))),
                    ("extendGenome", lambda: GenomicIntervalsFull(ivduck(), ctx, True).extended_to_size(_Sym("L")))):
        try:
            r = f()
            out[name] = (_to_lean(r.start.expr), _to_lean(r.stop.expr))
        except Exception:
            out[name] = None
    for name, stranded, where in (("locStart", True, "start"), ("locStop", True, "stop"), ("locCenter", True, "center"),
                                  ("locStartU", False, "start"), ("locCenterU", False, "center")):
        try:
            l = GenomicIntervalsFull(ivduck(), ctx, stranded).get_location(where)
            p = l.position
            out[name] = (_to_lean(p.expr if isinstance(p, _Sym) else None), None)
        except Exception:
            out[name] = None
    return out


def _to_lean(e):
    if e is None:
        raise NotTraceable("not symbolic")
    if isinstance(e, str):
        if e in ("s", "e", "L"):
            return e
        raise NotTraceable(e)
    tag = e[0]
    if tag == "int":
        return f"({e[1]} : Int)"
    if tag == "const":
        own = (_TRACE_SIZES["c1"], _TRACE_SIZES["c0"])
        if e[1] == own:
            return "own"
        if e[1] == own[::-1]:
            return "other"
        return f"({e[1][0]} : Int)"
    if tag in ("max", "min"):
        return f"({tag} {_to_lean(e[1])} {_to_lean(e[2])})"
    if tag in ("+", "-"):
        return f"({_to_lean(e[1])} {tag} {_to_lean(e[2])})"
    if tag == "//" and e[2][0] == "int" and e[2][1] > 0:
        return f"({_to_lean(e[1])} / {_to_lean(e[2])})"          # floor division by a positive literal = Int ediv
    if tag == "where":
        c = e[1]
        if c[0] == "==" and c[1] == "strand" and c[2] in (("str", "+"), ("str", "-")):
            cond = "fwd = true" if c[2][1] == "+" else "fwd = false"
            return f"(if {cond} then {_to_lean(e[2])} else {_to_lean(e[3])})"
    raise NotTraceable(str(e)[:60])


def _tabulate_flanks():
    """observed (left, right) flank of get_windows far from the chromosome ends"""
    import bionumpy as bnp
    from bionumpy.datatypes import LocationEntry
    G = bnp.Genome.from_dict({"c0": 1000})
    loc = G.get_locations(LocationEntry(["c0"], [500]))
    fl, ws = [], []
    for f in range(0, 7):
        w = loc.get_windows(flank=f)
        fl.append((f, 500 - int(w.start[0]), int(w.stop[0]) - 500))
    for k in range(1, 13):
        w = loc.get_windows(window_size=k)
        ws.append((k, 500 - int(w.start[0]), int(w.stop[0]) - 500))
    return fl, ws


_FALLBACK = {"clipGenome": ("(max (0 : Int) s)", "(min own e)"), "clipGeometry": ("(max (0 : Int) s)", "(min own e)"),
             "extendGeometry": ("(if fwd = true then s else (max (e - L) (0 : Int)))", "(if fwd = true then (min (s + L) own) else e)"),
             "extendGenome": ("(if fwd = true then s else (max (e - L) (0 : Int)))", "(if fwd = true then (min (s + L) own) else e)"),
             "locStart": ("(if fwd = true then s else (e - (1 : Int)))", None), "locStop": ("(if fwd = false then s else (e - (1 : Int)))", None),
             "locCenter": ("((s + e) / (2 : Int))", None), "locStartU": ("s", None), "locCenterU": ("((s + e) / (2 : Int))", None)}
_TRACED = []


def regenerate():
    tr = _trace_kernels()
    fl, ws = _tabulate_flanks()
    _TRACED[:] = [k for k, v in tr.items() if v is not None]
    out = ["/-! GENERATED on every run by harness/props/c10.py from the package imported from /repo: symbolic traces of the real",
           "`clip` / `extend_to_size` kernels (executed on symbolic columns; `own` = the size the code looked up for the row's own",
           "chromosome, `other` = the size of the other row's chromosome) and the observed window flanks. Do not edit. -/",
           "namespace Gen.C10", ""]
    for name in ("clipGenome", "clipGeometry", "extendGeometry", "extendGenome"):
        a, b = tr[name] if tr[name] is not None else _FALLBACK[name]
        out.append(f"def {name}S (s e L own other : Int) (fwd : Bool) : Int := {a}")
        out.append(f"def {name}E (s e L own other : Int) (fwd : Bool) : Int := {b}")
    for name in ("locStart", "locStop", "locCenter", "locStartU", "locCenterU"):
        a, _ = tr[name] if tr[name] is not None else _FALLBACK[name]
        out.append(f"def {name} (s e : Int) (fwd : Bool) : Int := {a}")
    out.append("/-- kernels that were really traced this run (the others fall back to the hand model's formula) -/")
    out.append("def traced : List String := [" + ", ".join(f'"{k}"' for k in _TRACED) + "]")
    out.append("def flankTable : List (Nat × Int × Int) := [" + ", ".join(f"({a}, {b}, {c})" for a, b, c in fl) + "]")
    out.append("def wsizeTable : List (Nat × Int × Int) := [" + ", ".join(f"({a}, {b}, {c})" for a, b, c in ws) + "]")
    out += ["", "end Gen.C10", ""]
    return [("BnpVerif/Gen/C10.lean", "\n".join(out))]


def extra_evidence():
    return {"traced_kernels": list(_TRACED)}


# ------------------------------------------------------------------ helpers shared by impl (names) and generators

def _ign(c):
    f = c.get("filt", True)
    if isinstance(f, list):                            # a caller-supplied filter function: these names are ignored
        return [n in f for n in c["names"]]
    return [bool(f) and "_" in n for n in c["names"]]


def _filter_fn(c):
    """the filter_function handed to Genome.from_dict / GenomeContext.from_dict"""
    from bionumpy.genomic_data.genome_context import ignore_underscores
    f = c.get("filt", True)
    if isinstance(f, list):
        ignored = set(f)
        return lambda name: name not in ignored
    return ignore_underscores if f else None


def _rank(ign):
    """original chromosome index -> rank among included (None when ignored)"""
    r, k = [], 0
    for g in ign:
        r.append(None if g else k)
        k += 0 if g else 1
    return r


def model_request(c):
    d = dict(c)
    d["ign"] = _ign(c)
    if c["op"] == "seq":
        d["codes"] = [[ord(ch) for ch in q.upper()] for q in c["seqs"]]
    if c["op"] == "lookup":
        ign = _ign(c)
        keys = [n for n, g in zip(c["names"], ign) if not g] + [n for n, g in zip(c["names"], ign) if g]
        d["keys"] = [[ord(ch) for ch in n] for n in keys]
        d["qs"] = [[ord(ch) for ch in q] for q in c["queries"]]
    return d


# ------------------------------------------------------------------ implementation side

def _names_of(col):
    try:
        r = col.tolist()
        if isinstance(r, list):
            return [str(x) for x in r]
    except Exception:
        pass
    return [col[i].to_string() for i in range(len(col))]


def _ints(a):
    return [int(x) for x in np.asarray(a).ravel()]


def _coord_dtype(c):
    """dtype of the coordinate columns handed to the package (narrow columns are kept as they are by the tables:
    BAM intervals have int32 starts); the genome may be longer than the dtype's range although every local
    coordinate fits"""
    return np.dtype(c.get("dtype", "int64"))


def _bed_for(c, iv, stranded, tag=""):
    key = core.case_hash({"n": c["names"], "iv": iv, "s": bool(stranded)})
    fn = os.path.join(_tmpdir(), f"{key}-{os.getpid()}{tag}.bed")
    if not os.path.exists(fn):
        with open(fn, "w") as fh:
            for x in iv:
                if stranded:
                    fh.write(f"{c['names'][x[0]]}\t{x[1]}\t{x[2]}\t.\t0\t{'+' if x[3] else '-'}\n")
                else:
                    fh.write(f"{c['names'][x[0]]}\t{x[1]}\t{x[2]}\n")
    return fn


def _read_table(fn, stranded):
    """the whole bed file as ONE table, as the file reader hands it out (columns parsed from the text on demand)"""
    import bionumpy as bnp
    from bionumpy.io.delimited_buffers import Bed6Buffer
    f = bnp.open(fn, buffer_type=Bed6Buffer) if stranded else bnp.open(fn)
    try:
        return f.read()
    finally:
        f.close()


def _mk_intervals(c, stranded):
    """the table of the case's entries. `src` names where the table comes from (the SAME entries in every source):
    built in memory from lists (default), `file`: read from a bed file written for the case (a lazily parsed table),
    `file2`: two files holding the entries before / after `fcut`, read and joined with np.concatenate,
    `filesel`: read from a file that holds extra rows, which are then removed by a boolean mask; `giconcat`: two
    GenomicIntervals objects joined with np.concatenate (NumPy dispatch on the library's own type); `gisel`: a
    GenomicIntervals object with extra rows indexed with a boolean mask"""
    from bionumpy.datatypes import Interval, StrandedInterval
    iv = c["iv"]
    src = c.get("src", "mem")
    if src != "mem" and iv:
        if src == "file":
            return _read_table(_bed_for(c, iv, stranded), stranded)
        if src == "file2":
            k = c.get("fcut", len(iv) // 2)
            parts = [p for p in (iv[:k], iv[k:]) if p]
            return np.concatenate([_read_table(_bed_for(c, p, stranded, f"-p{j}"), stranded) for j, p in enumerate(parts)])
        if src in ("giconcat", "gisel"):
            # (via Geometry: the table-level analogue of the GenomicIntervals-level operations done in _call)
            mem = lambda part: _mk_intervals(dict(c, iv=part, src="mem"), stranded)
            if src == "giconcat":
                k = c.get("fcut", len(iv) // 2)
                return np.concatenate([mem(p) for p in (iv[:k], iv[k:]) if p])
            rows, keep = [], []
            for x in iv:
                rows += [x, [x[0], 0, 1, True]]
                keep += [True, False]
            return mem(rows)[np.array(keep)]
        if src == "filesel":
            # every entry is followed by a decoy row on the same chromosome; the decoys are masked out again
            rows, keep = [], []
            for x in iv:
                rows += [x, [x[0], 0, 1, True]]
                keep += [True, False]
            return _read_table(_bed_for(c, rows, stranded, "-sel"), stranded)[np.array(keep)]
        raise ValueError(src)
    if not iv:
        return (StrandedInterval if stranded else Interval).empty()
    names = [c["names"][x[0]] for x in iv]
    dt = _coord_dtype(c)
    s = np.array([x[1] for x in iv], dtype=dt)
    e = np.array([x[2] for x in iv], dtype=dt)
    if stranded:
        return StrandedInterval(names, s, e, ["+" if x[3] else "-" for x in iv])
    return Interval(names, s, e)


def _genome(c):
    import bionumpy as bnp
    d = dict(zip(c["names"], c["sizes"]))
    G = bnp.Genome.from_dict(d, filter_function=_filter_fn(c))
    for added in c.get("gderive") or []:
        # a DERIVED genome object: more names (none of them in the genome or in the data) are ignored on top of the
        # ones the filter ignores already; everything else must stay as it was
        G = G.with_ignored_added(list(added))
    return G


def _incl_names(c):
    ign = _ign(c)
    return [n for n, g in zip(c["names"], ign) if not g]


def _obs_intervals(c, chrom, start, stop):
    idx = {n: i for i, n in enumerate(_incl_names(c))}
    return {"iv": [[idx.get(n, "?" + str(n)), s, e] for n, s, e in zip(_names_of(chrom), _ints(start), _ints(stop))]}


def _rows(r):
    out = []
    for row in r:
        row = row.to_array() if hasattr(row, "to_array") else row
        out.append(_ints(row))
    return out


def _track_from_vals(c, G):
    return G.get_track(_bedgraph_from_vals(c))


def _bedgraph_from_vals(c):
    from bionumpy.datatypes import BedGraph
    ign = _ign(c)
    names, starts, stops, vals = [], [], [], []
    for n, g, v in zip(c["names"], ign, c["vals"]):
        if g:
            continue
        i = 0
        while i < len(v):
            j = i
            while j < len(v) and v[j] == v[i]:
                j += 1
            names.append(n); starts.append(i); stops.append(j); vals.append(v[i])
            i = j
    return BedGraph(names, np.array(starts, dtype=int), np.array(stops, dtype=int), np.array(vals, dtype=int))


def _fasta_for(c):
    key = core.case_hash({"n": c["names"], "s": c["seqs"]})
    path = os.path.join(_tmpdir(), f"{key}-{os.getpid()}.fa")
    if not os.path.exists(path):
        with open(path, "w") as fh:
            for n, s in zip(c["names"], c["seqs"]):
                fh.write(f">{n}\n{s}\n")
    return path



BINS = [0, 1, 2, 3]


def _genomewide(t, op, compute=lambda x: x):
    """genome-wide quantities of a pile-up / mask track (in-memory or streamed)"""
    out = {"sum": int(compute(t.sum()))}
    if op == "pileup":
        out["zeros"] = int(compute((t == 0).sum()))
        out["hist"] = _ints(compute(np.histogram(t, bins=BINS))[0])
    else:
        out["zeros"] = int(compute((~t).sum()))
        out["hist"] = None
    return out


def _sorted_for_stream(c):
    """entries in genome order (by chromosome position in the genome), so every chromosome's entries are contiguous"""
    ks = [x[0] for x in c["iv"]]
    return ks == sorted(ks)


def _stream_gi(c, stranded):
    """a fresh streamed GenomicIntervals (streams are consumed by every evaluation)"""
    from bionumpy.streams import NpDataclassStream
    from bionumpy.datatypes import Interval, StrandedInterval
    G = _genome(c)
    if c["path"] == "as_stream":
        return G.get_intervals(_mk_intervals(c, stranded), stranded=stranded).as_stream()
    if c["path"] == "file":
        key = core.case_hash({"n": c["names"], "iv": c["iv"]})
        fn = os.path.join(_tmpdir(), f"{key}-{os.getpid()}.bed")
        if not os.path.exists(fn):
            with open(fn, "w") as fh:
                for x in c["iv"]:
                    fh.write(f"{c['names'][x[0]]}\t{x[1]}\t{x[2]}\n")
        return G.read_intervals(fn, stream=True)
    bounds = [0] + list(c.get("cuts", [])) + [len(c["iv"])]
    chunks = [_mk_intervals(dict(c, iv=c["iv"][a:b]), stranded) for a, b in zip(bounds[:-1], bounds[1:]) if b > a]
    return G.get_intervals(NpDataclassStream(iter(chunks), StrandedInterval if stranded else Interval), stranded=stranded)


def _dense_from_runs(c, runs):
    """runs: (name, start, stop, value) in output order -> per included chromosome the dense array, None when the
    chromosome does not occur at all; positions not covered by a run are reported as -1"""
    incl = _incl_names(c)
    d = {}
    for n, a, b, v in runs:
        arr = d.setdefault(n, [])
        if len(arr) < b:
            arr.extend([-1] * (b - len(arr)))
        for p in range(a, b):
            arr[p] = int(v)
    return [d.get(n) for n in incl]


def _call_stream(c):
    import bionumpy as bnp
    op = c["op"]
    stranded = bool(c.get("stranded", False)) or op == "extend"
    S = lambda: _stream_gi(c, stranded)
    if op in ("pileup", "mask"):
        T = (lambda: S().get_pileup()) if op == "pileup" else (lambda: S().get_mask())
        if op == "pileup":
            r = bnp.compute(T().get_data())
            runs = list(zip(_names_of(r.chromosome), r.start.tolist(), r.stop.tolist(), np.asarray(r.value).tolist()))
        else:
            r1 = bnp.compute(T().get_data())
            r0 = bnp.compute((~T()).get_data())
            runs = [(n, a, b, 1) for n, a, b in zip(_names_of(r1.chromosome), r1.start.tolist(), r1.stop.tolist())] + \
                   [(n, a, b, 0) for n, a, b in zip(_names_of(r0.chromosome), r0.start.tolist(), r0.stop.tolist())]
        out = {"chroms": _dense_from_runs(c, runs)}
        out.update(_genomewide_stream(T, op))
        return out
    if op == "windows":
        cw = dict(c, iv=[[x[0], x[1], x[1] + 1, True] for x in c["pts"]])
        loc = _stream_gi(cw, False).get_location("start")
        r = (loc.get_windows(flank=c["flank"]) if c.get("flank") is not None else loc.get_windows(window_size=c["wsize"])).compute()
        return _obs_intervals(c, r.chromosome, r.start, r.stop)
    if op == "extract":
        from bionumpy.streams import NpDataclassStream
        from bionumpy.datatypes import BedGraph
        bg = _bedgraph_from_vals(c)
        track = _genome(c).get_track(NpDataclassStream(iter([bg]), BedGraph))
        return {"rows": _rows(bnp.compute(track[_stream_gi(c, bool(c.get("stranded", False)))]))}
    if op == "clip":
        r = S().clip().compute()
    elif op == "extend":
        r = S().extended_to_size(c["L"]).compute()
    elif op == "merge":
        r = S().merged(c["d"]).compute()
    else:
        raise ValueError(op)
    return _obs_intervals(c, r.chromosome, r.start, r.stop)


def _genomewide_stream(T, op):
    import bionumpy as bnp
    out = {"sum": int(bnp.compute(T().sum()))}
    if op == "pileup":
        out["zeros"] = int(bnp.compute((T() == 0).sum()))
        out["hist"] = _ints(bnp.compute(np.histogram(T(), bins=BINS))[0])
    else:
        out["zeros"] = int(bnp.compute((~T()).sum()))
        out["hist"] = None
    return out

def _call(c):
    """run the real entry point; returns the canonical observation"""
    import bionumpy as bnp
    from bionumpy.genomic_data.geometry import Geometry
    from bionumpy.datatypes import LocationEntry
    op, via = c["op"], c.get("via", "genome")
    stranded = bool(c.get("stranded", False))
    if op in c10_extra.OPS:
        return c10_extra.call(c)
    if c.get("path", "mem") != "mem":
        return _call_stream(c)
    if op == "lookup":
        from bionumpy.genomic_data.genome_context import GenomeContext
        from bionumpy.encoded_array import as_encoded_array
        ctx = GenomeContext.from_dict(dict(zip(c["names"], c["sizes"])), _filter_fn(c))
        return {"idx": _ints(as_encoded_array(list(c["queries"]), ctx.encoding).raw())}
    if op in ("l2g", "g2l"):
        from bionumpy.genomic_data.genome_context import GenomeContext
        ctx = GenomeContext.from_dict(dict(zip(c["names"], c["sizes"])), _filter_fn(c))
        go = ctx.global_offset
        if op == "l2g":
            g = go.from_local_coordinates([c["names"][x[0]] for x in c["pts"]], np.array([x[1] for x in c["pts"]], dtype=int))
            return {"g": _ints(g)}
        chrom, local = go.to_local_coordinates(np.array(c["gs"], dtype=int))
        idx = {n: i for i, n in enumerate(_incl_names(c))}
        return {"cp": [[idx.get(n, "?" + str(n)), p] for n, p in zip(_names_of(chrom), _ints(local))]}
    if via == "geometry":
        geo = Geometry(dict(zip(c["names"], c["sizes"])))
        iv = _mk_intervals(c, stranded or op == "extend")
        if op in ("pileup", "mask"):
            t = geo.get_pileup(iv) if op == "pileup" else geo.get_mask(iv)
            d = t.to_dict()
            out = {"chroms": [_ints(np.asarray(d[n]).astype(int)) for n in _incl_names(c)]}
            out.update(_genomewide(t, op))
            out["gsize"] = int(geo.size())
            if op == "mask":
                out["glob"] = _ints(np.asarray(geo.get_global_mask(iv).to_array()).astype(int))
            return out
        if op == "merge":
            r = geo.merge_intervals(iv, c["d"])
        elif op == "clip":
            r = geo.clip(iv)
        elif op == "extend":
            r = geo.extend_to_size(iv, c["L"])
        elif op == "sort":
            r = geo.sort(iv)
        else:
            raise ValueError(op)
        return _obs_intervals(c, r.chromosome, r.start, r.stop)
    G = _genome(c)
    if op == "windows":
        loc = G.get_locations(LocationEntry([c["names"][x[0]] for x in c["pts"]], np.array([x[1] for x in c["pts"]], dtype=_coord_dtype(c))))
        w = loc.get_windows(flank=c["flank"]) if c.get("flank") is not None else loc.get_windows(window_size=c["wsize"])
        return _obs_intervals(c, w.chromosome, w.start, w.stop)
    if c.get("src") == "file" and c["iv"]:
        gi = G.read_intervals(_bed_for(c, c["iv"], stranded), stranded=stranded)     # the documented route from a file
    elif c.get("src") == "giconcat" and c["iv"]:
        k = c.get("fcut", len(c["iv"]) // 2)
        gi = np.concatenate([G.get_intervals(_mk_intervals(dict(c, iv=p, src="mem"), stranded), stranded=stranded)
                             for p in (c["iv"][:k], c["iv"][k:]) if p])
    elif c.get("src") == "gisel" and c["iv"]:
        rows, keep = [], []
        for x in c["iv"]:
            rows += [[x[0], 0, 1, False], x]
            keep += [False, True]
        gi = G.get_intervals(_mk_intervals(dict(c, iv=rows, src="mem"), stranded), stranded=stranded)[np.array(keep)]
    else:
        gi = G.get_intervals(_mk_intervals(c, stranded), stranded=stranded)
    if op in ("pileup", "mask"):
        t = gi.get_pileup() if op == "pileup" else gi.get_mask()
        d = t.to_dict()
        out = {"chroms": [_ints(np.asarray(d[n]).astype(int)) for n in _incl_names(c)]}
        out.update(_genomewide(t, op))
        out["gsize"] = int(G.size)
        return out
    if op == "extract":
        t = _track_from_vals(c, G)
        return {"rows": _rows(t[gi])}
    if op == "seq":
        if c["backend"] == "dict":
            from bionumpy.genomic_data.genomic_sequence import GenomicSequence
            seq = GenomicSequence.from_dict(dict(zip(c["names"], c["seqs"])))
        else:
            seq = G.read_sequence(_fasta_for(c))
        r = seq[gi]
        return {"rows": [row.to_string() for row in r]}
    if op == "location":
        l = gi.get_location(["start", "stop", "center"][c["where"]])
        return {"pts": [[a, b] for (a, b, _) in _obs_intervals(c, l.chromosome, l.position, l.position)["iv"]]}
    if op == "merge":
        r = gi.merged(c["d"])
    elif op == "clip":
        r = gi.clip()
    elif op == "extend":
        r = gi.extended_to_size(c["L"])
    elif op == "sort":
        r = gi.sorted()
    else:
        raise ValueError(op)
    return _obs_intervals(c, r.chromosome, r.start, r.stop)


def impl(c):
    try:
        return _call(c)
    except Exception as e:
        import traceback
        last = traceback.extract_tb(e.__traceback__)[-1].filename
        if os.path.abspath(last) == os.path.abspath(__file__):
            raise                                     # a bug of this harness, not of the package
        return {"err": "raised", "exc": type(e).__name__}


# ------------------------------------------------------------------ independent oracle (pure Python, per chromosome)

def _merge1(d, l):
    """single-contig merge of start-sorted (s, e) pairs: join while start <= running stop + d"""
    out = []
    for s, e in l:
        if out and s <= out[-1][1] + d:
            out[-1][1] = max(out[-1][1], e)
        else:
            out.append([s, e])
    return out


_COMP = {"A": "T", "C": "G", "G": "C", "T": "A", "N": "N"}


def oracle(c):
    op, via = c["op"], c.get("via", "genome")
    if op in c10_extra.OPS:
        return c10_extra.oracle(c)
    ign = _ign(c)
    rank = _rank(ign)
    sizes = c["sizes"]
    incl = [i for i, g in enumerate(ign) if not g]
    stranded = bool(c.get("stranded", False))
    if via == "geometry" and not c.get("filt", True):
        return SKIP                                    # Geometry always applies the default filter
    if op == "lookup":
        if sum(ign) > 1 or not c["queries"]:
            return SKIP                                # the order of several ignored names among themselves is a set order
        keys = [n for n, g in zip(c["names"], ign) if not g] + [n for n, g in zip(c["names"], ign) if g]
        if any(q not in keys for q in c["queries"]):
            return {"err": "raised"}
        return {"idx": [keys.index(q) for q in c["queries"]]}
    if op == "l2g":
        if any(rank[x[0]] is None for x in c["pts"]):
            return SKIP
        if any(not (0 <= x[1] < sizes[x[0]]) for x in c["pts"]):
            return {"err": "raised"}      # beyond the chromosome end OR negative (would land on the previous chromosome)
        return {"g": [sum(sizes[i] for i in incl if i < x[0]) + x[1] for x in c["pts"]]}
    if op == "g2l":
        tot = sum(sizes[i] for i in incl)
        out = []
        for g in c["gs"]:
            if not (0 <= g < tot):
                return SKIP
            for k, i in enumerate(incl):
                if g < sizes[i]:
                    out.append([k, g])
                    break
                g -= sizes[i]
        return {"cp": out}
    if op == "windows":
        if any(rank[x[0]] is None or not (0 <= x[1] < sizes[x[0]]) for x in c["pts"]):
            return SKIP
        if c.get("path", "mem") != "mem" and ([x[0] for x in c["pts"]] != sorted(x[0] for x in c["pts"]) or 0 in sizes):
            return SKIP
        if c.get("flank") is not None:
            l, r = c["flank"], c["flank"] + 1
        else:
            l, r = c["wsize"] // 2, c["wsize"] // 2 + c["wsize"] % 2
        return {"iv": [[rank[x[0]], max(0, x[1] - l), min(sizes[x[0]], x[1] + r)] for x in c["pts"]]}
    iv = c["iv"]
    path = c.get("path", "mem")
    if path != "mem":
        # the streamed path needs the data in genome order, and (as_stream / stream) every entry on an included chromosome
        if via != "genome" or not _sorted_for_stream(c) or any(sizes[i] == 0 for i in incl):
            return SKIP
    if via == "geometry" and any(rank[x[0]] is None for x in iv):
        return SKIP
    kept = [x for x in iv if rank[x[0]] is not None]     # rows on ignored chromosomes are dropped (mask_data)
    inside = all(0 <= x[1] <= x[2] <= sizes[x[0]] and x[1] < sizes[x[0]] for x in kept)
    if op == "clip":
        return {"iv": [[rank[x[0]], max(0, x[1]), min(sizes[x[0]], x[2])] for x in kept]}
    if op == "extend":
        L = c["L"]
        return {"iv": [[rank[x[0]], x[1], min(x[1] + L, sizes[x[0]])] if x[3] else [rank[x[0]], max(x[2] - L, 0), x[2]] for x in kept]}
    if not inside:
        if op in ("merge", "pileup", "mask", "extract") and path == "mem":
            # an entry reaching beyond its chromosome, with a NEGATIVE start (it would be counted on the previous
            # chromosome) or with stop < start is not a valid input: it must be refused, not processed silently
            return {"err": "raised"}
        return SKIP
    if op in ("pileup", "mask"):
        chroms = []
        for i in incl:
            dense = [sum(1 for x in kept if x[0] == i and x[1] <= p < x[2]) for p in range(sizes[i])]
            chroms.append(dense if op == "pileup" else [1 if v else 0 for v in dense])
        # genome-wide quantities are those of the concatenation of the included chromosomes' own arrays
        flat = [v for ch in chroms for v in ch]
        out = {"chroms": chroms, "sum": sum(flat), "zeros": sum(1 for v in flat if v == 0),
               "hist": [sum(1 for v in flat if v == 0), sum(1 for v in flat if v == 1), sum(1 for v in flat if v in (2, 3))]
               if op == "pileup" else None}
        if path == "mem":
            out["gsize"] = len(flat)
            if via == "geometry" and op == "mask":
                out["glob"] = flat
        return out
    if op == "merge":
        ks = [(rank[x[0]], x[1]) for x in kept]
        if ks != sorted(ks):
            # entries that are not in genome order are not a valid input: in memory an error is demanded (the
            # grouping would otherwise attribute entries to the wrong chromosome); the streamed path is C12's
            return {"err": "raised"} if path == "mem" else SKIP
        out = []
        for i in incl:
            out += [[rank[i], s, e] for s, e in _merge1(c["d"], [(x[1], x[2]) for x in kept if x[0] == i])]
        return {"iv": out}
    if op == "sort":
        if via == "geometry":
            # Geometry.sort orders by global start only: (chromosome, start) sequence + the multiset of entries
            return {"keys": sorted([rank[x[0]], x[1]] for x in kept), "set": sorted([rank[x[0]], x[1], x[2]] for x in kept)}
        return {"iv": sorted([rank[x[0]], x[1], x[2]] for x in kept)}
    if op == "location":
        w = c["where"]
        if not stranded and w == 1:
            return SKIP
        pts = []
        for x in kept:
            if w == 2:
                p = (x[1] + x[2]) // 2
            elif not stranded:
                p = x[1]
            else:
                first = (w == 0) == bool(x[3])
                p = x[1] if first else x[2] - 1
            pts.append([rank[x[0]], p])
        return {"pts": pts}
    if op in ("extract", "seq") and any(x[1] == x[2] for x in kept):
        return SKIP      # the single-contig extraction itself is undefined (raises) for an empty interval
    if op == "extract":
        rows = []
        for x in kept:
            row = c["vals"][x[0]][x[1]:x[2]]
            rows.append(row[::-1] if (stranded and not x[3]) else row)
        return {"rows": rows}
    if op == "seq":
        rows = []
        for x in kept:
            row = c["seqs"][x[0]][x[1]:x[2]].upper()
            if stranded and not x[3]:
                row = "".join(_COMP[b] for b in reversed(row))
            rows.append(row)
        return {"rows": rows}
    raise ValueError(op)


def agree(c, got, exp):
    if c["op"] == "xgenome":
        # two genome objects with different chromosome orders: the right values, or an explicit refusal
        exp = dict(exp)
        refusal_ok = exp.pop("refusal_ok", False)
        if isinstance(got, dict) and got.get("err") == "raised":
            return refusal_ok or exp.get("err") == "raised"
        return core.canon(got) == core.canon(exp)
    return _agree(c, got, exp)


def _agree(c, got, exp):
    if isinstance(got, dict) and got.get("err") == "raised":
        return exp.get("err") == "raised"
    if c["op"] == "sort" and c.get("via") == "geometry" and isinstance(got, dict) and "iv" in got:
        got = {"keys": [x[:2] for x in got["iv"]], "set": sorted(got["iv"])}
    return core.canon(got) == core.canon(exp)


def agree_model(c, got, m):
    if isinstance(got, dict) and got.get("err") == "raised":
        return isinstance(m, dict) and m.get("err") == "raised"
    if c["op"] == "seq" and isinstance(m, dict) and "rows" in m and isinstance(got, dict) and "rows" in got:
        return [[ord(ch) for ch in r] for r in got["rows"]] == m["rows"]
    if c["op"] == "gjaccard" and isinstance(m, dict) and "pair" in m:
        # the Lean model gives (intersection, union) counts; the float is formed here, once, from exact small integers
        jf = lambda iu: float(iu[0] / iu[1]).hex() if iu[1] else None
        n = len(m["all"])
        return got.get("pair") == jf(m["pair"]) and \
            got.get("all") == [[float(0).hex() if a == b else jf(m["all"][a][b]) for b in range(n)] for a in range(n)]
    if c["op"] == "sort" and c.get("via") == "geometry" and isinstance(got, dict) and "iv" in got and isinstance(m, dict) and "iv" in m:
        # np.argsort on the global start is not stable: compare the key sequence and the multiset
        return [x[:2] for x in got["iv"]] == [x[:2] for x in m["iv"]] and sorted(got["iv"]) == sorted(m["iv"])
    return core.canon(got) == core.canon(m)


def finding_key(c, got, exp):
    if c["op"] == "sgeometry" and isinstance(got, dict) and got.get("err") == "not-implemented":
        return f"sgeometry:get_{c['what']}:not-implemented"
    return _finding_key(c, got, exp)


def _finding_key(c, got, exp):
    kind = "raised" if isinstance(got, dict) and got.get("err") == "raised" else "wrong-result"
    if isinstance(exp, dict) and exp.get("err") == "raised":
        kind = "accepted-out-of-range"
    return f"{c['op']}:{c.get('via', 'genome')}:{kind}"


def nontrivial(c):
    if c["op"] in c10_extra.OPS:
        return c10_extra.nontrivial(c)
    ign = _ign(c)
    if sum(1 for g in ign if not g) < 2:
        return False
    sizes = c["sizes"]
    if c["op"] == "g2l":
        offs = set(itertools.accumulate([s for s, g in zip(sizes, ign) if not g]))
        return any(g == 0 or g in offs or g + 1 in offs for g in c["gs"])
    if c["op"] == "lookup":
        return any(a != b and (a.startswith(b) or b.startswith(a)) for a in c["names"] for b in c["queries"])
    if c["op"] in ("l2g", "windows"):
        return any(x[1] == 0 or x[1] >= sizes[x[0]] - 1 for x in c["pts"])
    return any(x[1] <= 0 or x[2] >= sizes[x[0]] for x in c["iv"])


# ------------------------------------------------------------------ generators

_NAME_POOLS = [
    ["chr1", "chr2", "chr3", "chr4"],
    ["chr1", "chr11", "chr1_alt", "chr2"],
    ["c", "ch", "chr", "chr_"],
    ["1", "11", "1_1", "2"],
    ["chrX", "chrX_random", "chrXY", "chrY"],
    ["a_b", "a", "ab", "b"],
    ["ab1", "a1b", "b1a", "1ba"],
]


def _rand_genome(rng, allow_zero=False, min_chrom=1):
    n = rng.choice([1, 2, 2, 3, 3, 4])
    n = max(n, min_chrom)
    pool = rng.choice(_NAME_POOLS)
    names = pool[:n] if rng.random() < 0.6 else rng.sample(pool, n)
    lo = 0 if (allow_zero and rng.random() < 0.3) else 1
    sizes = [rng.choice([lo, 1, 2, 3, 5, 6]) for _ in names]
    return names, sizes


def _rand_iv(rng, sizes, cands, k, boundary=0.6, valid=True, nonempty=False):
    """k entries on chromosomes from cands (those with size > 0 when valid), boundary-heavy"""
    out = []
    cands = [c for c in cands if sizes[c] > 0] if valid else list(cands)
    if not cands:
        return out
    for _ in range(k):
        c = rng.choice(cands)
        sz = sizes[c]
        if valid:
            r = rng.random()
            if r < boundary / 2:
                s, e = 0, rng.randint(0, sz)
            elif r < boundary:
                s = rng.randrange(sz)
                e = sz
            else:
                s = rng.randrange(sz)
                e = rng.randint(s, sz)
            if nonempty and e == s:
                e = s + 1
        else:
            s = rng.randint(-3, sz + 2)
            e = rng.randint(s, sz + 3)
        out.append([c, s, e, rng.random() < 0.5])
    return out


def _sorted_genome(iv, rank):
    ig = [x for x in iv if rank[x[0]] is None]
    ok = sorted([x for x in iv if rank[x[0]] is not None], key=lambda x: (rank[x[0]], x[1]))
    return ok, ig


def _boundary_merge_cases():
    """every pair (interval ending at the end of a chromosome, interval starting at 0 of the next one)"""
    for s1 in (1, 2, 3):
        for s2 in (1, 2, 3):
            for a in range(s1):
                for e in range(1, s2 + 1):
                    for d in (0, 1):
                        for via in ("geometry", "genome"):
                            yield {"op": "merge", "via": via, "names": ["chr1", "chr2"], "sizes": [s1, s2], "filt": True,
                                   "iv": [[0, a, s1, True], [1, 0, e, True]], "d": d}


_SRCS = ("file", "file2", "filesel", "giconcat", "gisel")


def _profile_cases(big):
    """how many entries each chromosome holds (0..3 each, every combination) x where the table comes from: the result
    for one chromosome must not depend on the NUMBER of entries of its neighbours (a chromosome with exactly one entry
    first / in the middle / last, chromosomes without entries anywhere), nor on the table being built in memory,
    read from a file, joined from two files or selected from a larger file"""
    names, sizes = ["chr1", "chr11", "chr2"], [6, 7, 5]
    base = {"names": names, "sizes": sizes, "filt": True}
    # no chromosome has entries: values / sequence under an EMPTY interval table (no rows), stranded and not
    for stranded in (False, True):
        yield dict(base, op="extract", iv=[], stranded=stranded, vals=[[1, 2, 3, 4, 5, 6], [11, 12, 13, 14, 15, 16, 17], [21, 22, 23, 24, 25]])
        for backend in ("dict", "fasta"):
            yield dict(base, op="seq", iv=[], stranded=stranded, seqs=["ACGTAC", "GGATCCA", "TTGCA"], backend=backend)
    for counts in itertools.product(range(4), repeat=3):
        if not any(counts):
            continue
        iv = []
        for ci, n in enumerate(counts):
            sz = sizes[ci]
            # a chain of overlapping / touching entries, the last one (of three) apart at the chromosome end
            chain = [[ci, 0, 2, True], [ci, 1, 4, False], [ci, sz - 1, sz, True]][:n] if n != 1 else [[ci, sz - 3, sz, ci % 2 == 0]]
            iv += chain
        for si, src in enumerate(("mem",) + _SRCS):
            if not big and src != "mem" and (sum(counts) + si) % 3 and 1 not in counts:
                continue
            for via in ("genome", "geometry"):
                for d in (0, 1):
                    yield dict(base, op="merge", via=via, iv=iv, d=d, src=src, fcut=counts[0])
                yield dict(base, op="sort", via=via, iv=iv[::-1], src=src, fcut=counts[2])
                yield dict(base, op="extend", via=via, iv=iv, L=3, stranded=True, src=src, fcut=counts[0] + counts[1])
                yield dict(base, op="clip", via=via, iv=iv, src=src, fcut=counts[0])
            yield dict(base, op="pileup", via="genome", iv=iv, stranded=False, src=src, fcut=counts[0])
            yield dict(base, op="mask", via="geometry", iv=iv, stranded=False, src=src, fcut=counts[0] + counts[1])
            yield dict(base, op="location", iv=iv, stranded=True, where=sum(counts) % 3, src=src, fcut=counts[0])
            yield dict(base, op="extract", iv=iv, stranded=True, vals=[[1, 2, 3, 4, 5, 6], [11, 12, 13, 14, 15, 16, 17], [21, 22, 23, 24, 25]],
                       src=src, fcut=counts[0] + counts[1])
            yield dict(base, op="seq", iv=iv, stranded=True, seqs=["ACGTAC", "GGATCCA", "TTGCA"], backend="dict" if sum(counts) % 2 else "fasta",
                       src=src, fcut=counts[0])


def _all_iv(sizes):
    return [[c, a, b, True] for c, sz in enumerate(sizes) for a in range(sz) for b in range(a, sz + 1)]


def _pair_cases(top):
    """every genome of two chromosomes with sizes 1..top x every (multi)set of two valid intervals x the dense ops"""
    for sizes in itertools.product(range(1, top + 1), repeat=2):
        sizes = list(sizes)
        base = {"names": ["chr1", "chr11"], "sizes": sizes, "filt": True}
        ivs = _all_iv(sizes)
        for i, a in enumerate(ivs):
            for b in ivs[i:]:
                for via in ("genome", "geometry"):
                    yield dict(base, op="pileup", via=via, iv=[a, b], stranded=False)
                    yield dict(base, op="mask", via=via, iv=[b, a], stranded=False)
                for path in ("as_stream", "stream"):
                    yield dict(base, op="pileup", via="genome", path=path, iv=[a, b], stranded=False, cuts=[1] if a[0] != b[0] else [])
                    yield dict(base, op="mask", via="genome", path=path, iv=[a, b], stranded=False, cuts=[])
                    yield dict(base, op="merge", via=via, iv=[a, b], d=0)
                    yield dict(base, op="merge", via=via, iv=[a, b], d=1)
                yield dict(base, op="sort", via="genome", iv=[b, a])
                if a[1] < a[2] and b[1] < b[2]:
                    vals = [list(range(1, sizes[0] + 1)), list(range(11, sizes[1] + 11))]
                    yield dict(base, op="extract", iv=[[a[0], a[1], a[2], False], b], stranded=True, vals=vals)


_DEFAULT_FILTER_ONLY = {"files", "hugegenome", "ctor", "xgenome", "sgeometry", "seqviews", "gjaccard", "fromtrack"}


def cases(tier, rng):
    _tmpdir()
    k = kd = 0
    for c in _cases_all(tier, rng):
        yield c
        # the same case under a CALLER-SUPPLIED filter_function (keyword of Genome.from_dict / GenomeContext.from_dict):
        # the '_' names are renamed so that the default filter would keep them, and the filter ignores them by name
        if c.get("filt") is True and c.get("via", "genome") == "genome" and c["op"] not in _DEFAULT_FILTER_ONLY \
                and any("_" in n for n in c["names"]) and "queries" not in c:
            k += 1
            if k % 2 == 0:
                names = [n.replace("_", "X") for n in c["names"]]
                if len(set(names)) == len(names):
                    yield dict(c, names=names, filt=[n for n, o in zip(names, c["names"]) if "_" in o])
        # the same case on a genome object DERIVED with with_ignored_added (once / twice) from the one that already ignores
        # the '_' names
        if c.get("filt") and c.get("via", "genome") == "genome" and c["op"] not in (_DEFAULT_FILTER_ONLY - {"files"}) \
                and "queries" not in c and any("_" in n for n in c["names"]):
            kd += 1
            if kd % 3 == 0:
                yield dict(c, gderive=[["chrM"]] if kd % 2 else [["chrEBV", "chrM"], ["chrUn9"]])


def _cases_all(tier, rng):
    yield from c10_extra.cases(tier, rng)
    yield from _cases_main(tier, rng)


def _cases_main(tier, rng):            # created in the parent, before the worker pool forks, so that the parent removes it at exit
    big = tier in ("thorough", "widen")
    # 0. the design-round expectations, stated as plain cases (rediscovered by the comparison, not assumed)
    yield {"op": "merge", "via": "geometry", "names": ["chr1", "chr2"], "sizes": [5, 5], "filt": True,
           "iv": [[0, 3, 5, True], [1, 0, 2, True]], "d": 0}
    yield {"op": "merge", "via": "genome", "names": ["chr1", "chr2"], "sizes": [5, 5], "filt": True,
           "iv": [[0, 1, 2, True], [1, 1, 2, True]], "d": 0}
    for bop in ("pileup", "mask", "merge"):
        for via in ("genome", "geometry"):
            yield {"op": bop, "via": via, "names": ["a", "b"], "sizes": [3, 2], "filt": True, "iv": [[1, -1, 1, True]], "d": 0, "stranded": False}
            yield {"op": bop, "via": via, "names": ["a", "b"], "sizes": [3, 2], "filt": True, "iv": [[0, 2, 1, True]], "d": 0, "stranded": False}
    yield from _boundary_merge_cases()
    for via in ("geometry", "genome"):
        yield {"op": "merge", "via": via, "names": ["chr1", "chr2"], "sizes": [5, 5], "filt": True,
               "iv": [[0, 0, 2, True], [1, 0, 1, True], [0, 1, 3, True]], "d": 0}
    # 1. coordinate maps: exhaustive over small genomes
    top = 3 if big else 2
    for n in (1, 2, 3):
        for sizes in itertools.product(range(0, top + 1), repeat=n):
            sizes = list(sizes)
            names = ["chr1", "chr11", "chr1_alt"][:n] if sum(sizes) % 2 else ["chr1", "chr2", "chr3"][:n]
            for filt in ((True, False) if any("_" in x for x in names) else (True,)):
                ign = [filt and "_" in x for x in names]
                tot = sum(s for s, g in zip(sizes, ign) if not g)
                if tot:
                    yield {"op": "g2l", "names": names, "sizes": sizes, "filt": filt, "gs": list(range(tot))}
                pts = [[c, p] for c in range(n) if not ign[c] for p in range(sizes[c])]
                if pts:
                    yield {"op": "l2g", "names": names, "sizes": sizes, "filt": filt, "pts": pts}
                for c in range(n):
                    if not ign[c]:
                        yield {"op": "l2g", "names": names, "sizes": sizes, "filt": filt, "pts": [[c, sizes[c]]]}
                        yield {"op": "l2g", "names": names, "sizes": sizes, "filt": filt, "pts": [[c, -1]]}
    # 1a. chromosome-name lookup: genome names, names that are prefixes / extensions / permutations of them
    for pool in _NAME_POOLS:
        for n in (1, 2, 3, 4):
            names = pool[:n]
            for filt in (True, False):
                base = {"op": "lookup", "names": names, "sizes": [3] * n, "filt": filt}
                yield dict(base, queries=list(names))
                yield dict(base, queries=list(reversed(names)) + names[:1])
                foreign = [names[0] + "1", names[0][:-1] or "x", names[-1][::-1] + "q", names[0] + names[-1], names[0].upper() + "z",
                           names[-1][::-1], names[0][1:] + names[0][:1], names[-1][:-2] + names[-1][-2:][::-1]]
                foreign = [q for q in foreign if q and q not in names]
                for q in foreign:
                    yield dict(base, queries=[names[0], q])
                for _ in range(6 if big else 2):
                    yield dict(base, queries=[rng.choice(names + foreign) for _ in range(rng.choice([1, 2, 4]))])
    yield from _pair_cases(3 if big else 2)
    yield from _profile_cases(big)
    # 2. random genomes x boundary-heavy entries x every entry point
    N = 3500 if big else 110
    for _ in range(N):
        names, sizes = _rand_genome(rng, allow_zero=True)
        filt = rng.random() < 0.7
        base = {"names": names, "sizes": sizes, "filt": filt}
        ign = [filt and "_" in x for x in names]
        rank = _rank(ign)
        incl = [i for i, g in enumerate(ign) if not g]
        if not incl or sum(sizes[i] for i in incl) == 0:
            continue
        k = rng.choice([0, 1, 2, 3, 4, 6])
        for via in ("genome", "geometry"):
            if via == "geometry" and not filt:
                continue
            cands = incl if via == "geometry" else list(range(len(names)))
            iv = _rand_iv(rng, sizes, cands, k)
            stranded = rng.random() < 0.5
            for op in ("pileup", "mask"):
                yield dict(base, op=op, via=via, iv=iv, stranded=stranded and via == "genome")
            if via == "genome":
                # the same observables through the streamed per-chromosome path; entries often leave the last
                # (or first, or a middle) chromosomes empty
                live = [i for i in range(len(names)) if sizes[i] > 0]
                sub = rng.choice([live, live[:max(1, len(live) - 1)], live[:1], live[1:] or live, live[::2]])
                ivs = sorted(_rand_iv(rng, sizes, sub, k), key=lambda x: (x[0], x[1]))
                ivz = sorted(_rand_iv(rng, sizes, sub, k, valid=False), key=lambda x: x[0])
                if ivs:
                    for op in ("pileup", "mask"):
                        yield dict(base, op=op, via=via, path="file", iv=ivs, cuts=[], stranded=False)
                for path in ("as_stream", "stream"):
                    cuts = sorted(rng.sample(range(1, len(ivs)), rng.randint(0, len(ivs) - 1))) if len(ivs) > 1 and path == "stream" else []
                    for op in ("pileup", "mask"):
                        yield dict(base, op=op, via=via, path=path, iv=ivs, cuts=cuts, stranded=False)
                    yield dict(base, op="merge", via=via, path=path, iv=ivs, cuts=cuts, d=rng.choice([0, 1, 2]))
                    yield dict(base, op="clip", via=via, path=path, iv=ivz, cuts=[])
                    yield dict(base, op="extend", via=via, path=path, iv=ivs, cuts=cuts, L=rng.choice([0, 1, 3, 7]), stranded=True)
            ok, ig = _sorted_genome(iv, rank)
            merged_in = ok + ig if rng.random() < 0.5 else ig + ok
            yield dict(base, op="merge", via=via, iv=merged_in, d=rng.choice([0, 0, 1, 2]))
            if ok:
                # the same in-memory operations on a table that comes from a file (lazily parsed columns)
                src = rng.choice(_SRCS)
                fsrc = {"src": src, "fcut": rng.randint(0, len(ok))}
                yield dict(base, op="merge", via=via, iv=merged_in if src == "file" else ok, d=rng.choice([0, 0, 1, 2]), **fsrc)
                fop = rng.choice(["pileup", "mask", "sort", "clip", "extend", "location", "extract", "seq"])
                if fop not in ("location", "extract", "seq") or (via == "genome" and (fop == "location" or all(s_ > 0 for s_ in sizes))):
                    okf = [x for x in ok if x[1] < x[2]] if fop in ("extract", "seq") else ok
                    if okf or fop in ("extract", "seq"):    # an EMPTY extraction table (no chromosome has entries) is a case too
                      yield dict(base, op=fop, via=via, iv=okf if fop != "sort" else rng.sample(ok, len(ok)), stranded=fop == "extend" or (via == "genome" and rng.random() < 0.5),
                                 L=rng.choice([0, 1, 3, 7]), where=rng.choice([0, 1, 2]), backend=rng.choice(["dict", "fasta"]),
                                 vals=[[rng.choice([0, 1, 1, 2, 7]) for _ in range(s_)] for s_ in sizes],
                                 seqs=["".join(rng.choice("ACGT") for _ in range(s_)) for s_ in sizes], **fsrc)
            if ok and rng.random() < 0.5:
                # a negative start (preferably on a chromosome that HAS a left neighbour) / a stop before the start
                badz = [list(x) for x in ok]
                cand = [j for j, x in enumerate(badz) if rank[x[0]] and rank[x[0]] > 0] or list(range(len(badz)))
                j = rng.choice(cand)
                if rng.random() < 0.7:
                    badz[j][1] = -rng.choice([1, 1, 2])
                    badz[j][2] = max(badz[j][2], rng.choice([0, 1]))
                else:
                    badz[j][1], badz[j][2] = min(badz[j][2] + 1, sizes[badz[j][0]] - 1), badz[j][1]
                for bop in ("pileup", "mask", "merge"):
                    yield dict(base, op=bop, via=via, iv=badz, d=0, stranded=False)
                if via == "genome" and sum(sizes[i] for i in incl):
                    vz = [[rng.choice([0, 1, 2]) for _ in range(s_)] for s_ in sizes]
                    yield dict(base, op="extract", iv=badz, stranded=False, vals=vz)
            if len(ok) >= 2 and rng.random() < 0.5:
                perm = rng.sample(ok, len(ok))                                 # not in genome order (maybe not contiguous)
                yield dict(base, op="merge", via=via, iv=perm, d=rng.choice([0, 1]))
            if ok and rng.random() < 0.4:
                bad = [list(x) for x in ok]
                j = rng.randrange(len(bad))
                if rng.random() < 0.5:
                    bad[j][2] = sizes[bad[j][0]] + rng.choice([1, 2])          # stop beyond the chromosome end
                else:
                    bad[j][1] = bad[j][2] = sizes[bad[j][0]]                   # starts at the chromosome end
                yield dict(base, op="merge", via=via, iv=bad, d=rng.choice([0, 1]))
            yield dict(base, op="sort", via=via, iv=iv)
            ivz = _rand_iv(rng, sizes, cands, k, valid=False)
            yield dict(base, op="clip", via=via, iv=ivz)
            yield dict(base, op="extend", via=via, iv=(iv if rng.random() < 0.6 else ivz), L=rng.choice([0, 1, 2, 3, 7]), stranded=True)
        iv = _rand_iv(rng, sizes, list(range(len(names))), max(k, 1), nonempty=True)
        stranded = rng.random() < 0.6
        vals = [[rng.choice([0, 1, 1, 2, 7]) for _ in range(s)] for s in sizes]
        if sum(sizes[i] for i in incl):
            yield dict(base, op="extract", iv=iv, stranded=stranded, vals=vals)
            siv = sorted(iv, key=lambda x: x[0])
            for path in ("as_stream", "stream"):
                yield dict(base, op="extract", path=path, iv=siv, stranded=stranded, vals=vals, cuts=[])
        for w in (0, 1, 2):
            yield dict(base, op="location", iv=iv, stranded=stranded, where=w)
        pts = [[c, rng.choice([0, sizes[c] - 1, rng.randrange(sizes[c])])] for c in (rng.choice(incl) for _ in range(max(k, 1))) if sizes[c] > 0]
        if pts:
            spts = sorted(pts, key=lambda x: x[0])
            if rng.random() < 0.5:
                f = rng.choice([0, 1, 2, 5])
                yield dict(base, op="windows", pts=pts, flank=f, wsize=None)
                for path in ("as_stream", "stream"):
                    yield dict(base, op="windows", path=path, pts=spts, flank=f, wsize=None, cuts=[])
            else:
                w = rng.choice([1, 2, 3, 4, 9])
                yield dict(base, op="windows", pts=pts, flank=None, wsize=w)
                for path in ("as_stream", "stream"):
                    yield dict(base, op="windows", path=path, pts=spts, flank=None, wsize=w, cuts=[])
        if all(s > 0 for s in sizes):
            seqs = ["".join(rng.choice("ACGT") for _ in range(s)) for s in sizes]
            yield dict(base, op="seq", iv=iv, stranded=stranded, seqs=seqs, backend="fasta")
