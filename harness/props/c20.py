"""C20 — operations do not modify their inputs.

Decision on the implementation: a REGISTRY of public API calls x generated arguments that take the
functions' special paths (negative numbers, '+' signs, scientific floats, '.', list-valued columns,
genotype columns, CRLF, missing final newline, gzip, multi-chunk reads). For every call

  * a deep byte snapshot of every argument is taken before and after the call (arrays: dtype/shape/bytes,
    encoded and ragged arrays: flat bytes + row lengths + encoding, tables: every column, lazily read file
    chunks: the bytes the chunk writes), and lazily read chunks are additionally compared, field by field
    after the call, with an identical twin built from the same spec that was never passed to anything;
  * the function is applied twice to the same argument objects and the two results must be equal.

The Lean side (Model/C20, Props/C20) is a heap model with view/copy tags (assumptions about NumPy); its
prediction for every routine is "no argument buffer changes, second call equal"; three routines are also
executed in the model (values + aliasing) and compared with the implementation.
"""
import atexit
import dataclasses
import gzip
import hashlib
import os
import re
import shutil
import tempfile

import numpy as np

from .. import core
from ..core import SKIP

ID = "C20"
RULE = ("registry of public API calls (text/number conversion, encodings, sequence functions, interval arithmetic, genomic-data "
        "methods, table methods, stream reductions, field access / indexing / concatenation / write of lazily read chunks of every "
        "file format) x generated arguments; before/after deep byte snapshots of every argument + twin comparison for lazy chunks + "
        "twice-application equality; an EDGE variant pushes arguments just outside the preconditions (calls that raise must leave their "
        "arguments unchanged too); a RESPELT variant writes text arguments (arrays, views, one column or cell of a file, text columns of "
        "lazily read chunks) in another spelling of the same value — case, '+', leading zeros, blanks, exponent marker E/e/D/d, digit "
        "grouping, decimal comma, base prefix, spellings of 'missing' — refused or accepted, the caller's text stays as written. Non-trivial = the arguments take a special path: a sign, '+', 'e', '.', a list-valued or "
        "genotype column, CRLF, no final newline, gzip, several chunks, an empty row, a strand")
EXHAUSTIVE = {"quick": False, "thorough": False}
MODEL_OPS = {"m_str_to_int", "m_merge", "m_bincount", "m_fresh"}
PARALLEL = 16
ASSUMPTIONS = ["C20 Lean theorems are about a heap model: every NumPy/npstructures step is TAGGED view (aliases its source) or copy "
               "(fresh buffer) as NumPy documents it; the tags are assumptions, the real aliasing is decided by the snapshot registry",
               "a call that raises is compared like any other (arguments must still be unchanged)",
               "explicit item/attribute assignment by the caller is outside the property and outside the registry"]
TRUSTED_EXTRA = ["C20: the snapshot function of harness/props/c20.py (what counts as the contents of an argument) and the registry "
                 "itself (which calls and argument shapes are exercised)"]

MANIFEST = {
    "text": "PARTIAL by nature (aliasing of NumPy buffers is runtime truth). Lean 4 heap model (buffers, references = buffer + "
            "positions, steps tagged alloc/view/write/tryWrite): general frame theorem for ALL programs passing a static check "
            "(every in-place write targets a buffer the routine allocated itself) => every pre-existing buffer is unchanged, for all "
            "heaps/arguments; read-only buffers are never changed by any program; instances frame_str_to_int_model, frame_str_to_float_model, "
            "frame_parse_split_fields_model, frame_genotype_model, frame_merge_model, frame_bincount_stream_model, frame_fresh_selection_model, frame_vcf_position_model; idempotent (second call on the heap the "
            "first left, by simulation under buffer renaming); get/set laws of the heap; refutations for the "
            "variants without the upstream copy. The decision on the implementation is the snapshot registry: 245 public "
            "functions/methods x generated special-path arguments, before/after deep byte snapshots of every argument, twin "
            "comparison of lazily read chunks, bytes written before/after field access, twice-application equality.",
    "note": "partial: the Lean theorems assume the view/copy tags of NumPy steps (assumption list in evidence); what detects a real "
            "mutation is the implementation-side snapshot check. Functions are exercised on the registry's argument generators only "
            "(221 registry entries x 4 argument variants (plain / view of a larger base / read-only / zero rows), 16 file formats incl. BAM/gz/CRLF/multi-chunk; half of the calls pass arguments as VIEWS of larger "
            "arrays whose base is snapshotted too). Measured (16 cores, seeds 0-3): quick 9-21 s / 5.8k calls, thorough 1-2 min / 72k "
            "calls. Lazily read chunks are also driven through random multi-step programs (fields / slice / mask / concatenate / replace / write). "
            "Results that alias an argument are listed in evidence (informational: the property exempts the caller's own later assignment). Defect found and fixed in /repo: 4991739 (GenotypeRowEncoding.encode rewrote newlines in the caller's array).",
    "technique": "Lean 4 heap-model frame theorem (induction over programs) + implementation-side before/after snapshot registry "
                 "with twice-application check",
    "design": "§6 C20",
}

_TMP = tempfile.mkdtemp(prefix="c20_")
atexit.register(lambda: shutil.rmtree(_TMP, ignore_errors=True))
_counter = [0]


def _path(suffix):
    _counter[0] += 1
    return os.path.join(_TMP, f"{os.getpid()}_{_counter[0]}{suffix}")


def B():
    import bionumpy as bnp
    return bnp


# ------------------------------------------------------------------ snapshots

class Unknown(Exception):
    pass


class Changed(Exception):
    """raised by a registry program that itself found an argument-derived table reading differently after an operation
    that must not change it"""


def _is_lazy(x):
    from bionumpy.bnpdataclass.lazybnpdataclass import LazyBNPDataClass
    return isinstance(x, LazyBNPDataClass)


def chunk_buffer_class(chunk):
    """the file-buffer class a lazily read chunk came from (needed to write it back in its own format); looked up defensively:
    a rename of the private attributes must not disturb the check"""
    try:
        return chunk._itemgetter.buffer.__class__
    except AttributeError:
        for v in list(vars(chunk).values()):
            b = getattr(v, "buffer", None)
            if b is not None and hasattr(b, "get_field_by_number"):
                return b.__class__
        return None


def written_bytes(chunk):
    """the bytes a lazily read chunk writes (through the public writer)"""
    bnp = B()
    buf = chunk_buffer_class(chunk)
    if buf is None:
        # the buffer class is not reachable (internals renamed): the chunk's own serialisation through the public method
        try:
            out = chunk.get_buffer()
            return bytes(out.raw() if hasattr(out, "raw") else out)
        except Exception as e:
            return ("nowrite", type(e).__name__)
    suffix = ".bam" if "Bam" in buf.__name__ else ".txt"
    p = _path(suffix)
    try:
        try:
            with bnp.open(p, "w", buffer_type=buf) as f:
                f.write(chunk)
        except Exception as e:
            return ("nowrite", type(e).__name__)
        with open(p, "rb") as f:
            raw = f.read()
        # gzip members carry a timestamp: compare what they decompress to
        return gzip.decompress(raw) if raw[:2] == b"\x1f\x8b" else raw
    finally:
        if os.path.exists(p):
            os.remove(p)


def canon_array(x):
    """VALUE-level form of a NumPy array: the property says arguments and results "compare equal", which does not include the
    storage dtype. Fixed-width byte/unicode strings are compared as strings (a column sliced from a cached `S5` array and the
    same column parsed afresh as `S4` hold the same names), integers as int64 values (uint64 beyond that as Python ints),
    floats as float64 with one NaN and +0.0 for -0.0, booleans as booleans."""
    k = x.dtype.kind
    if k in "SU":
        return ("strs", x.shape, tuple(v.decode("latin-1") if isinstance(v, bytes) else v for v in x.ravel().tolist()))
    if k == "b":
        return ("bools", x.shape, np.ascontiguousarray(x).tobytes())
    if k in "iu":
        if k == "u" and x.dtype.itemsize == 8 and x.size and int(x.max()) > np.iinfo(np.int64).max:
            return ("ints", x.shape, tuple(int(v) for v in x.ravel().tolist()))
        return ("ints", x.shape, np.ascontiguousarray(x, dtype=np.int64).tobytes())
    if k == "f":
        a = np.array(x, dtype=np.float64) + 0.0
        a[np.isnan(a)] = np.nan
        return ("floats", x.shape, np.ascontiguousarray(a).tobytes())
    return ("nd", x.dtype.str, x.shape, np.ascontiguousarray(x).tobytes())


def snap(x, depth=0, lazy_fields=False, result=False):
    """deep, value-level snapshot of an argument or a result (nested tuples of plain values / bytes)"""
    from bionumpy.encoded_array import EncodedArray, EncodedRaggedArray
    from bionumpy.bnpdataclass import BNPDataClass
    from npstructures import RaggedArray
    if depth > 8:
        return ("deep",)
    if isinstance(x, PathArg):
        with open(x, "rb") as f:
            return ("file", f.read())
    if x is None or isinstance(x, (bool, int, str, bytes)):
        return x
    if isinstance(x, float):
        return ("f", float(x).hex())
    if isinstance(x, (np.integer, np.floating, np.bool_)):
        return canon_array(np.asarray(x))
    if isinstance(x, EncodedRaggedArray):
        flat = x.ravel()
        return ("eragged", type(x.encoding).__name__ + str(getattr(x.encoding, "_alphabet", "")) if not isinstance(x.encoding, type) else x.encoding.__name__,
                snap(np.asarray(flat.raw()), depth + 1), np.asarray(x.lengths).astype(np.int64).tobytes())
    if isinstance(x, EncodedArray):
        enc = x.encoding
        return ("enc", (type(enc).__name__ + str(getattr(enc, "_alphabet", ""))) if not isinstance(enc, type) else enc.__name__,
                snap(np.asarray(x.raw()), depth + 1))
    if isinstance(x, RaggedArray):
        return ("ragged", snap(np.asarray(x.ravel()), depth + 1), np.asarray(x.lengths).astype(np.int64).tobytes())
    if isinstance(x, np.ndarray):
        if x.dtype == object:
            return ("objarr", x.shape, tuple(snap(v, depth + 1, lazy_fields, result) for v in x.ravel().tolist()))
        return canon_array(x)
    if _is_lazy(x):
        if lazy_fields or result:
            out = []
            for f in dataclasses.fields(x):
                try:
                    out.append((f.name, snap(getattr(x, f.name), depth + 1)))
                except Exception as e:
                    out.append((f.name, ("raises", type(e).__name__)))
            return ("lazyfields", type(x).__name__, tuple(out))
        return ("lazy", written_bytes(x))
    if isinstance(x, BNPDataClass):
        return ("table", type(x).__name__, tuple((f.name, snap(getattr(x, f.name), depth + 1)) for f in dataclasses.fields(x)))
    if isinstance(x, (list, tuple)):
        return (type(x).__name__, tuple(snap(v, depth + 1, lazy_fields, result) for v in x))
    if isinstance(x, dict):
        return ("dict", tuple((str(k), snap(v, depth + 1, lazy_fields, result)) for k, v in sorted(x.items(), key=lambda kv: str(kv[0]))))
    name = type(x).__name__
    bnp = B()
    from bionumpy.string_array import StringArray
    from bionumpy.sequence.position_weight_matrix import PWM
    if isinstance(x, StringArray):
        return ("sarr", snap(np.asarray(x.raw()), depth + 1))
    if isinstance(x, PWM):
        m = getattr(x, "_matrix", None)
        return ("pwm", str(x.alphabet), snap(np.asarray(m), depth + 1) if m is not None else str(x))
    from bionumpy.genomic_data.genomic_intervals import GenomicIntervals, GenomicLocation
    from bionumpy.genomic_data.genomic_track import GenomicArray
    from bionumpy.genomic_data.genome import Genome
    from bionumpy.genomic_data.genome_context_base import GenomeContextBase
    if isinstance(x, GenomicIntervals):
        cols = [("chromosome", snap(x.chromosome, depth + 1)), ("start", snap(np.asarray(x.start), depth + 1)),
                ("stop", snap(np.asarray(x.stop), depth + 1))]
        if x.is_stranded():
            cols.append(("strand", snap(x.strand, depth + 1)))
        return ("gintervals", tuple(cols))
    if isinstance(x, GenomicLocation):
        return ("glocation", snap(x.chromosome, depth + 1), snap(np.asarray(x.position), depth + 1))
    if isinstance(x, GenomicArray):
        d = x.to_dict()
        return ("garray", tuple((k, snap(np.asarray(v), depth + 1)) for k, v in sorted(d.items())))
    if isinstance(x, Genome):
        return ("genome", tuple(sorted((str(k), int(v)) for k, v in x.get_genome_context().chrom_sizes.items())))
    if isinstance(x, GenomeContextBase):
        return ("gcontext", tuple(sorted((str(k), int(v)) for k, v in x.chrom_sizes.items())))
    if hasattr(x, "to_array") and "RunLength" in name:
        try:
            return ("rle", snap(np.asarray(x.to_array()), depth + 1))
        except ValueError:      # ragged run-length array: row by row
            return ("rle-rows", tuple(snap(np.asarray(r.to_array()), depth + 1) for r in x))
    try:
        import pandas as pd
        if isinstance(x, pd.DataFrame):
            return ("df", tuple(x.columns), tuple(snap(x[c].to_numpy(), depth + 1) for c in x.columns))
    except ImportError:
        pass
    if not result:
        raise Unknown(name)
    # results only: generic objects (both results come from the same code path, so caches are in the same state)
    if hasattr(x, "__next__") or name in ("NpDataclassStream", "BnpStream", "generator"):
        return ("stream", tuple(snap(v, depth + 1, lazy_fields, True) for v in x))
    if hasattr(x, "__dict__"):
        return ("obj", name, tuple((k, snap(v, depth + 1, lazy_fields, True)) for k, v in sorted(vars(x).items())
                                   if not callable(v) and not k.startswith("__")))
    return ("repr", name, repr(x))


def digest(s):
    return hashlib.sha1(repr(s).encode()).hexdigest()[:16]


# ------------------------------------------------------------------ argument specs -> objects

ENCODINGS = {"DNA": lambda: B().DNAEncoding, "ACGTn": lambda: __import__("bionumpy.encodings.alphabet_encoding", fromlist=["x"]).ACGTnEncoding,
             "Amino": lambda: B().AminoAcidEncoding, "Base": lambda: B().BaseEncoding,
             "Digit": lambda: __import__("bionumpy.encodings.alphabet_encoding", fromlist=["x"]).DigitEncoding,
             "Strand": lambda: __import__("bionumpy.encodings", fromlist=["x"]).StrandEncoding,
             "RNA": lambda: B().RNAENcoding}


def _enc(name):
    return ENCODINGS[name]()


def _bufcls(name):
    bnp = B()
    if name is None:
        return None
    for modname in ("bionumpy", "bionumpy.io.delimited_buffers", "bionumpy.io.vcf_buffers", "bionumpy.io.bam", "bionumpy.io.gfa",
                    "bionumpy.io.pairs", "bionumpy.io", "bionumpy.io.wig"):
        mod = __import__(modname, fromlist=["x"])
        if hasattr(mod, name):
            return getattr(mod, name)
    raise KeyError(name)


def _datacls(name):
    bnp = B()
    if hasattr(bnp.datatypes, name):
        return getattr(bnp.datatypes, name)
    return getattr(bnp, name)


def build(spec):
    bnp = B()
    from npstructures import RaggedArray
    k = spec["k"]
    if k == "py":
        return spec["v"]
    if k == "strs":
        rows = list(spec["rows"])
        if spec.get("enc"):
            return bnp.as_encoded_array(rows, _enc(spec["enc"]))
        return bnp.as_encoded_array(rows)
    if k == "str":
        if spec.get("enc"):
            return bnp.as_encoded_array(spec["s"], _enc(spec["enc"]))
        return bnp.as_encoded_array(spec["s"])
    if k == "ints":
        return np.array(spec["v"], dtype=spec.get("dtype", "int64"))
    if k == "floats":
        return np.array([float(v) for v in spec["v"]], dtype=float)
    if k == "floats2":
        return np.array(spec["v"], dtype=float).reshape(-1, 2)
    if k == "bools":
        return np.array(spec["v"], dtype=bool)
    if k == "ragged":
        return RaggedArray([list(r) for r in spec["rows"]])
    if k == "list":
        return [build(s) for s in spec["items"]]
    if k == "dict":
        return {kk: build(v) if isinstance(v, dict) and "k" in v else v for kk, v in spec["v"].items()}
    if k == "table":
        cls = _datacls(spec["cls"])
        return cls(**{name: build(col) for name, col in spec["cols"].items()})
    if k == "genome":
        return bnp.Genome.from_dict(dict(spec["sizes"]))
    if k == "gintervals":
        g = bnp.Genome.from_dict(dict(spec["sizes"]))
        return g.get_intervals(build(spec["table"]), stranded=spec.get("stranded", False))
    if k == "glocations":
        g = bnp.Genome.from_dict(dict(spec["sizes"]))
        return g.get_locations(build(spec["table"]))
    if k == "track":
        g = bnp.Genome.from_dict(dict(spec["sizes"]))
        return g.get_track(build(spec["table"]))
    if k == "pwm":
        from bionumpy.sequence.position_weight_matrix import PWM
        return PWM.from_dict({a: list(v) for a, v in spec["v"].items()})
    if k == "file":
        return build_file(spec)
    if k == "path":
        suffix = "." + spec["fmt"] + (".gz" if spec.get("gz") else "")
        p = _path(suffix)
        with open(p, "wb") as f:
            f.write(file_bytes(spec))
        _created.append(p)
        return PathArg(p)
    raise KeyError(k)


_created = []


class PathArg(str):
    """a file name argument; its snapshot is the bytes of the file"""


def _cleanup_paths():
    while _created:
        p = _created.pop()
        for q in (p, p + ".fai"):
            if os.path.exists(q):
                os.remove(q)


def file_bytes(spec):
    if spec["fmt"] == "bam":
        from . import c16
        raw = c16.encode_header(spec["refs"], b"") + b"".join(c16.encode_record(r) for r in spec["recs"])
        return c16.bgzf(raw, 4096)
    data = spec["text"].encode("latin-1")
    return gzip.compress(data) if spec.get("gz") else data


_CUSTOM = {}


COLTYPES = ["str", "bools", "ints", "floats", "int", "float", "optfloat"]


def custom_buffer(cols=None, header=False):
    """a delimited buffer made by the public `get_bufferclass_for_datatype` for a table whose columns are ANY selection (one
    column, several, any order) of: str, List[bool], List[int], List[float], int, float, Optional[float] — the three
    `_parse_split_fields` paths (sep '' and ','), also as the only / the last / a middle column"""
    cols = tuple(cols or COLTYPES)
    if header:
        cols = cols + ("header",)
    if cols not in _CUSTOM:
        from typing import List, Optional
        bnp = B()
        from bionumpy.bnpdataclass.bnpdataclass import make_dataclass
        types = {"str": str, "bools": List[bool], "ints": List[int], "floats": List[float], "int": int, "float": float, "optfloat": Optional[float]}
        real = [c for c in cols if c != "header"]
        cls = make_dataclass([("c%d_%s" % (i, c), types[c]) for i, c in enumerate(real)], "Custom_" + "_".join(cols))
        _CUSTOM[cols] = bnp.io.get_bufferclass_for_datatype(cls, has_header=header)
    return _CUSTOM[cols]


def build_file(spec):
    """a lazily read chunk (or the list of all chunks) of a file written from the spec"""
    bnp = B()
    suffix = "." + spec["fmt"] + (".gz" if spec.get("gz") else "")
    p = _path(suffix)
    with open(p, "wb") as f:
        f.write(file_bytes(spec))
    try:
        kw = {}
        if spec.get("buffer") == "custom":
            kw["buffer_type"] = custom_buffer(spec.get("cols"), bool(spec.get("header")))
        elif (spec.get("buffer") or "").startswith("datatype:"):
            # the buffer class the public factory makes for a shipped data class (Interval, BedGraph, GFFEntry, GTFEntry), no header line
            kw["buffer_type"] = bnp.io.get_bufferclass_for_datatype(_datacls(spec["buffer"].split(":")[1]))
        elif spec.get("buffer"):
            kw["buffer_type"] = _bufcls(spec["buffer"])
        if "lazy" in spec:      # the same request in eager mode (lazy=False): the table is parsed at once
            kw["lazy"] = spec["lazy"]
        if spec.get("chunk"):
            chunks = list(bnp.open(p, **kw).read_chunks(min_chunk_size=spec["chunk"]))
            if spec.get("which") == "all":
                return chunks
            return chunks[min(spec.get("which", 0), len(chunks) - 1)] if chunks else bnp.open(p, **kw).read()
        d = bnp.open(p, **kw).read()
        return d.get_data_object() if spec.get("eager") and _is_lazy(d) else d
    finally:
        os.remove(p)


# ------------------------------------------------------------------ the registry

def _fields(ch):
    return [getattr(ch, f.name) for f in dataclasses.fields(ch)]


def _write_table(t, suffix, buffer=None):
    bnp = B()
    p = _path(suffix)
    try:
        kw = {"buffer_type": _bufcls(buffer)} if buffer else {}
        with bnp.open(p, "w", **kw) as f:
            f.write(t)
        with open(p, "rb") as f:
            raw = f.read()
        return gzip.decompress(raw) if raw[:2] == b"\x1f\x8b" else raw
    finally:
        if os.path.exists(p):
            os.remove(p)


def _first_int_field(ch):
    for f in dataclasses.fields(ch):
        if f.type is int:
            return f.name
    return None


def _replace_int(ch):
    bnp = B()
    name = _first_int_field(ch)
    if name is None:
        return None
    new = bnp.replace(ch, **{name: np.asarray(getattr(ch, name)) + 1})
    return snap(new, lazy_fields=True)


def _mask(n, every=2):
    m = np.zeros(n, dtype=bool)
    m[::every] = True
    return m


def registry():
    bnp = B()
    from bionumpy.io import strops
    from bionumpy.arithmetics import intervals as iv
    import bionumpy.arithmetics as ar
    from bionumpy.encodings.vcf_encoding import GenotypeRowEncoding, PhasedGenotypeRowEncoding
    from bionumpy.encodings.alphabet_encoding import ACGTnEncoding
    from bionumpy.encodings import QualityEncoding
    R = {}
    # --- text / number conversion
    R["str_to_int"] = (lambda t: strops.str_to_int(t), ["int_strs"])
    R["str_to_float"] = (lambda t: strops.str_to_float(t), ["float_strs"])
    R["str_to_int_with_missing"] = (lambda t: strops.str_to_int_with_missing(t), ["int_strs_missing"])
    R["str_to_float_with_missing"] = (lambda t: strops.str_to_float_with_missing(t), ["float_strs_missing"])
    R["ints_to_strings"] = (lambda a: strops.ints_to_strings(a), ["int_array"])
    R["float_to_strings"] = (lambda a: strops.float_to_strings(a), ["float_array"])
    R["int_lists_to_strings"] = (lambda r, sep, keep: strops.int_lists_to_strings(r, sep=sep, keep_last=keep), ["int_lists+sep"])
    R["split"] = (lambda s, sep: strops.split(s, sep=sep), ["flat_text+sep"])
    R["join"] = (lambda r, sep, keep: strops.join(r, sep=sep, keep_last=keep), ["ragged_text+sep"])
    R["str_equal"] = (lambda r, s: bnp.str_equal(r, s), ["ragged_text+word"])
    R["match_string"] = (lambda r, s: bnp.match_string(r, s), ["dna+pattern"])
    # --- encodings
    R["as_encoded_array(list)"] = (lambda rows: bnp.as_encoded_array(rows), ["pylist_strs"])
    R["as_encoded_array(enc,target)"] = (lambda a, e: bnp.as_encoded_array(a, _enc(e)), ["dna_base+enc", "dna_enc+same"])
    R["change_encoding"] = (lambda a, e: bnp.change_encoding(a, _enc(e)), ["dna_enc+other"])
    R["encoding.encode"] = (lambda a, e: _enc(e).encode(a), ["dna_base+enc"])
    R["encoding.decode"] = (lambda a, e: _enc(e).decode(a), ["dna_enc+same"])
    R["QualityEncoding.encode"] = (lambda a: QualityEncoding.encode(a), ["quality_text"])
    R["GenotypeRowEncoding.encode"] = (lambda a: GenotypeRowEncoding.encode(a), ["genotype_rows"])
    R["PhasedGenotypeRowEncoding.encode"] = (lambda a: PhasedGenotypeRowEncoding.encode(a), ["phased_genotype_rows"])
    R["encoded == str"] = (lambda a, s: a == s, ["ragged_text+char", "flat_text+sep"])
    R["encoded[index]"] = (lambda a, i: a[i], ["ragged_text+index"])
    R["encoded[:, col]"] = (lambda a, c: a[:, c], ["ragged_text+col"])
    R["np.concatenate(encoded)"] = (lambda a, b: np.concatenate([a, b]), ["two_ragged_text", "two_flat_text"])
    R["encoded.tolist"] = (lambda a: a.tolist(), ["ragged_text1"])
    R["encoded.to_string"] = (lambda a: a.to_string(), ["flat_text1"])
    R["count_encoded"] = (lambda a: bnp.count_encoded(a), ["dna_enc1", "flat_dna_enc1"])
    R["ragged_slice"] = (lambda a, s, e: bnp.ragged_slice(a, s, e), ["ragged_text+bounds"])
    # --- sequence functions
    R["get_reverse_complement"] = (lambda a: bnp.sequence.get_reverse_complement(a), ["dna_enc1", "dna_base1", "flat_dna_enc1", "flat_dna_base1"])
    R["translate_dna_to_protein"] = (lambda a: bnp.sequence.translate_dna_to_protein(a), ["codons", "codon_entries"])
    R["get_kmers"] = (lambda a, k: bnp.get_kmers(a, k), ["dna_enc+k", "flat_dna_enc+k"])
    R["get_minimizers"] = (lambda a, k, w: bnp.get_minimizers(a, k, w), ["dna_enc+k+w"])
    R["count_kmers"] = (lambda a, k: bnp.sequence.count_kmers(a, k), ["dna_enc+k"])
    R["get_motif_scores"] = (lambda a, p: bnp.get_motif_scores(a, p), ["dna_enc+pwm"])
    # --- interval arithmetic
    R["merge_intervals"] = (lambda t, d: ar.merge_intervals(t, distance=d), ["sorted_intervals+d"])
    R["sort_intervals"] = (lambda t: ar.sort_intervals(t), ["intervals1", "stranded_intervals1"])
    R["get_boolean_mask"] = (lambda t, n: ar.get_boolean_mask(t, n), ["chr_intervals+size"])
    R["get_pileup"] = (lambda t, n: ar.get_pileup(t, n), ["chr_intervals+size"])
    R["pileup"] = (lambda t: iv.pileup(t), ["chr_intervals1"])
    R["intersect"] = (lambda a, b: ar.intersect(a, b), ["two_chr_intervals"])
    R["count_overlap"] = (lambda a, b: ar.count_overlap(a, b), ["two_chr_intervals"])
    R["unique_intersect"] = (lambda a, b, n: ar.unique_intersect(a, b, n), ["two_chr_intervals+size"])
    R["global_intersect"] = (lambda a, b: ar.global_intersect(a, b), ["two_intervals"])
    R["extend_to_size"] = (lambda t, n, s: iv.extend_to_size(t, n, s), ["stranded_intervals+len+sizes"])
    R["clip"] = (lambda t, s: iv.clip(t, s), ["intervals+sizes"])
    R["jaccard"] = (lambda sizes, a, b: ar.jaccard(sizes, a, b), ["sizes+two_sorted_intervals"])
    R["forbes"] = (lambda sizes, a, b: ar.forbes(sizes, a, b), ["sizes+two_sorted_intervals"])
    R["alignment_to_interval"] = (lambda ch: bnp.alignments.alignment_to_interval(ch), ["bam_chunk"])
    # --- genomic data
    R["Genome.from_dict"] = (lambda d: snap(bnp.Genome.from_dict(d)), ["sizes_dict"])
    R["genome.get_intervals"] = (lambda g, t: snap(g.get_intervals(t)), ["genome+intervals"])
    R["genome.get_track"] = (lambda g, t: snap(g.get_track(t)), ["genome+bedgraph"])
    R["genome.get_locations"] = (lambda g, t: snap(g.get_locations(t)), ["genome+locations"])
    R["gi.merged"] = (lambda gi: snap(gi.merged()), ["gintervals"])
    R["gi.get_mask"] = (lambda gi: snap(gi.get_mask()), ["gintervals"])
    R["gi.get_pileup"] = (lambda gi: snap(gi.get_pileup()), ["gintervals"])
    R["gi.extended_to_size"] = (lambda gi, n: snap(gi.extended_to_size(n)), ["gintervals_stranded+len"])
    R["gi.clip"] = (lambda gi: snap(gi.clip()), ["gintervals"])
    R["gi.get_location"] = (lambda gi, w: snap(gi.get_location(w)), ["gintervals_stranded+where"])
    R["gi[index]"] = (lambda gi, i: snap(gi[i]), ["gintervals+mask"])
    R["gl.get_windows"] = (lambda gl, f: snap(gl.get_windows(flank=f)), ["glocations+flank"])
    R["track.sum"] = (lambda t: t.sum(), ["track"])
    R["track + 1"] = (lambda t: snap(t + 1), ["track"])
    R["track[gintervals]"] = (lambda t, gi: snap(t[gi]), ["track+gintervals"])
    R["track.to_bedgraph"] = (lambda t: snap(t.get_data()), ["track"])
    R["np.log(track + 1)"] = (lambda t: snap(np.log(t + 1)), ["track"])
    # --- table methods
    R["table[mask]"] = (lambda t, m: t[m], ["table+mask"])
    R["table[slice]"] = (lambda t, a, b: t[a:b], ["table+slice"])
    R["table[ints]"] = (lambda t, i: t[i], ["table+ints"])
    R["np.concatenate(tables)"] = (lambda a, b: np.concatenate([a, b]), ["two_tables"])
    R["bnp.replace"] = (lambda t, v: bnp.replace(t, start=v), ["table+newstart"])
    R["table.tolist"] = (lambda t: [dataclasses.astuple(e) if dataclasses.is_dataclass(e) else e for e in t.tolist()], ["table1"])
    R["table.topandas"] = (lambda t: t.topandas(), ["table1"])
    R["table.sort_by"] = (lambda t, f: t.sort_by(f), ["table+field"])
    R["str(table)"] = (lambda t: str(t), ["table1"])
    R["table.add_fields"] = (lambda t, v: t.add_fields({"extra": v}, {"extra": int}), ["table+newstart"])
    R["bnp.groupby"] = (lambda t, f: [(str(k), snap(v)) for k, v in bnp.groupby(t, f)], ["sorted_table+chromfield"])
    R["write(table)"] = (lambda t, sfx: _write_table(t, sfx), ["table+suffix"])
    # --- stream reductions
    R["bnp.bincount"] = (lambda a, n: bnp.bincount(a, minlength=n), ["small_ints+minlength"])
    R["bnp.histogram"] = (lambda a, n: bnp.histogram(a, bins=n, range=(0, 10)), ["small_ints+minlength"])
    R["bnp.mean"] = (lambda a: bnp.mean(a), ["float_array"])
    # --- lazily read file chunks, every format
    R["chunk.fields"] = (lambda ch: [snap(v) for v in _fields(ch)], ["chunk"])
    R["chunk.get_data_object"] = (lambda ch: ch.get_data_object(), ["chunk"])
    R["chunk.tolist"] = (lambda ch: len(ch.tolist()), ["chunk"])
    R["str(chunk)"] = (lambda ch: str(ch), ["chunk"])
    R["chunk[mask].fields"] = (lambda ch: [snap(v) for v in _fields(ch[_mask(len(ch))])], ["chunk"])
    R["chunk[::-1].write"] = (lambda ch: written_bytes(ch[::-1]), ["chunk"])
    R["chunk.fields.then.write"] = (lambda ch: (len(_fields(ch)), written_bytes(ch))[1], ["chunk"])
    R["np.concatenate(chunks).fields"] = (lambda chs: [snap(v) for v in _fields(np.concatenate(chs))], ["chunks"])
    R["np.concatenate(chunks).write"] = (lambda chs: written_bytes(np.concatenate(chs)), ["chunks"])
    R["bnp.replace(chunk)"] = (lambda ch: _replace_int(ch), ["chunk"])
    R["count_entries/len(chunk)"] = (lambda ch: len(ch), ["chunk"])
    return registry2(R)


def _stream(items):
    from bionumpy.streams import BnpStream
    return BnpStream(iter(items))


def _dstream(tables):
    from bionumpy.streams import NpDataclassStream
    return NpDataclassStream(iter(tables), dataclass=type(tables[0]) if tables else None)


def _consume(x):
    return [snap(v, result=True) for v in x]


def run_chunk_program(ch, prog):
    """a sequence of public operations on a lazily read chunk and on what they return; the chunk itself must stay as read"""
    bnp = B()
    cur = ch
    out = []
    for op in prog:
        n = len(cur)
        if op == "fields":
            out.append([snap(v) for v in _fields(cur)])
        elif op == "first_field":
            out.append(snap(getattr(cur, dataclasses.fields(cur)[0].name)))
        elif op == "slice":
            cur = cur[1:] if n > 1 else cur[:]
        elif op == "head":
            cur = cur[:max(1, n - 1)]
        elif op == "mask":
            cur = cur[_mask(n)]
        elif op == "ints":
            cur = cur[np.arange(n)[::-1]]
        elif op == "concat_self":
            cur = np.concatenate([cur, cur])
        elif op == "replace":
            name = _first_int_field(cur)
            if name is not None:
                cur = bnp.replace(cur, **{name: np.asarray(getattr(cur, name)) + 1})
        elif op == "write":
            out.append(written_bytes(cur) if _is_lazy(cur) else None)
        elif op == "data_object":
            out.append(snap(cur.get_data_object() if _is_lazy(cur) else cur))
        elif op == "reread":
            out.append([[snap(v) for v in _fields(cur)] for _ in range(2)])
        elif op == "replace_same":
            fs = dataclasses.fields(cur)
            f = fs[n % len(fs)]
            cur = bnp.replace(cur, **{f.name: getattr(cur, f.name)})
        elif op == "todict":
            out.append(snap(cur.todict() if hasattr(cur, "todict") else None, result=True))
        elif op == "topandas":
            out.append(snap(cur.topandas(), result=True))
        elif op == "repr":
            # exercised for its effect on the chunk only: in this environment npstructures' row formatting raises TypeError
            # (int() of a 1-element array under NumPy 2) depending on whether columns are already cached
            try:
                repr(cur), str(cur)
            except TypeError:
                pass
        elif op == "iter":
            out.append(len(list(iter(cur))))
        elif op == "roundtrip_dict":
            out.append(snap(type(cur).from_dict({f.name: getattr(cur, f.name) for f in dataclasses.fields(cur)}), result=True))
        elif op == "slice_setattr":
            # explicit assignment on a DERIVED table (allowed to change that table, never the chunk it was taken from)
            if cur is not ch:
                name = _first_int_field(cur)
                if name is not None:
                    setattr(cur, name, np.asarray(getattr(cur, name)) * 0 + 7)
        elif op == "write_as":
            other = {"Bed6Buffer": "BedBuffer", "Bed12Buffer": "Bed6Buffer", "BedBuffer": "Bed6Buffer", "NarrowPeakBuffer": "Bed6Buffer",
                     "BdgBuffer": "BedBuffer", "TwoLineFastaBuffer": "MultiLineFastaBuffer", "MultiLineFastaBuffer": "TwoLineFastaBuffer",
                     "FastQBuffer": "TwoLineFastaBuffer", "GTFBuffer": "GFFBuffer", "GFFBuffer": "BedBuffer"}.get(
                         getattr(chunk_buffer_class(ch), "__name__", "") if _is_lazy(ch) else "")
            if other and _is_lazy(cur):
                pth = _path(".txt")
                try:
                    with bnp.open(pth, "w", buffer_type=_bufcls(other)) as f:
                        f.write(cur)
                    out.append(open(pth, "rb").read())
                except Exception as e:
                    out.append(("raised", type(e).__name__))
                finally:
                    if os.path.exists(pth):
                        os.remove(pth)
        elif op == "back":
            cur = ch
    return out


TEXTFNS = ["str_to_int", "str_to_float", "str_to_int_with_missing", "str_to_float_with_missing", "tolist", "eq", "lengths", "copy",
           "as_dna", "split", "count"]


def apply_textfn(col, name):
    bnp = B()
    from bionumpy.io import strops
    if name in ("str_to_int", "str_to_float", "str_to_int_with_missing", "str_to_float_with_missing"):
        return getattr(strops, name)(col)
    if name == "tolist":
        return col.tolist()
    if name == "eq":
        return col == "-5"
    if name == "lengths":
        return col.lengths
    if name == "copy":
        return col.copy()
    if name == "as_dna":
        return bnp.as_encoded_array(col, bnp.DNAEncoding)
    if name == "split":
        return strops.split(col.ravel(), sep=",")
    return bnp.count_encoded(col.ravel())


def _text_columns(ch):
    from bionumpy.encoded_array import EncodedRaggedArray
    out = []
    for f in dataclasses.fields(ch):
        try:
            v = getattr(ch, f.name)
        except Exception:
            continue
        if isinstance(v, EncodedRaggedArray):
            out.append(v)
    return out


def chunk_column_fn(ch, j, sel, name):
    """a text function applied to a text column straight from a lazily read chunk, or to a fresh row selection of it"""
    cols = _text_columns(ch)
    if not cols:
        return None
    col = cols[j % len(cols)]
    n = len(col)
    if sel == "slice" and n:
        col = col[min(1, n - 1):4]
    elif sel == "mask" and n:
        col = col[_mask(n)]
    elif sel == "ints" and n:
        col = col[[n - 1, 0]]
    try:
        return snap(apply_textfn(col, name), result=True)
    except Exception as e:      # a parse error is an outcome like any other: the chunk must still be unchanged
        return ("raised", type(e).__name__)


NUMFNS = ["str_to_int", "str_to_float", "str_to_int_with_missing", "str_to_float_with_missing"]


def chunk_columns_fn(ch, name):
    """a text->number function applied to EVERY text column of a lazily read chunk, the column object passed exactly as the chunk
    hands it out (a user parsing a text column himself, e.g. QUAL of a VCF file): parsed or refused, the chunk reads as before"""
    out = []
    for col in _text_columns(ch):
        try:
            out.append(snap(apply_textfn(col, name), result=True))
        except Exception as e:
            out.append(("raised", type(e).__name__))
    return out


def replace_then_reread(ch, j, bump):
    """bnp.replace(chunk, <one field>=...) then every OTHER field read twice on the new table and once more on the chunk"""
    bnp = B()
    fs = dataclasses.fields(ch)
    f = fs[j % len(fs)]
    val = getattr(ch, f.name)
    if bump and isinstance(val, np.ndarray) and val.dtype.kind in "iu":
        val = val + 1
    new = bnp.replace(ch, **{f.name: val})
    others = [g.name for g in fs if g.name != f.name]

    def read(obj):
        out = []
        for name in others:
            try:
                out.append((name, snap(getattr(obj, name))))
            except Exception as e:
                out.append((name, ("raised", type(e).__name__)))
        return out
    r1, r2 = read(new), read(new)
    return (r1, r2, read(ch), r1 == r2)


def field_write_fields(ch, sel, j):
    """a selection of a lazily read chunk: read one field, WRITE the selection, read every field again — it must read exactly
    like an identical selection that was never written"""
    n = len(ch)
    def take(x):
        if sel == "mask":
            return x[_mask(n)]
        if sel == "ints":
            return x[np.arange(n)[::-1]]
        return x[min(1, n - 1):] if n else x
    a, b = take(ch), take(ch)
    fs = dataclasses.fields(a)
    getattr(a, fs[j % len(fs)].name)
    w = written_bytes(a)

    def read(obj):
        out = []
        for f in fs:
            try:
                out.append((f.name, snap(getattr(obj, f.name))))
            except Exception as e:
                out.append((f.name, ("raises", type(e).__name__)))
        return out
    after, fresh = read(a), read(b)
    if after != fresh:
        raise Changed("arg0:selection-reads-differently-after-being-written")
    return (w, after)


def registry2(R):
    """second batch: every further public callable reachable from bionumpy.__all__ and the io / streams /
    genomic-data / variants / util entry points"""
    bnp = B()
    from bionumpy.io import strops
    from bionumpy.arithmetics import intervals as iv, bedgraph as bg
    from bionumpy.arithmetics import similarity_measures as sm
    import bionumpy.arithmetics as ar
    from bionumpy.io import delimited_buffers as db
    from bionumpy.io.matrix_dump import matrix_to_csv, parse_matrix, read_matrix
    from bionumpy.io.indexed_fasta import create_index
    from bionumpy.string_array import as_string_array, StringArray
    from bionumpy.encodings.string_encodings import StringEncoding
    from bionumpy.encodings.kmer_encodings import KmerEncoding
    from bionumpy.encodings import QualityEncoding
    from bionumpy.sequence.position_weight_matrix import PWM
    from bionumpy.sequence.string_matcher import StringMatcher, RegexMatcher
    from bionumpy.sequence.kmers import KmerEncoder
    from bionumpy.streams.chunk_entries import chunk_entries
    from bionumpy.bnpdataclass.bnpdataclass import dynamic_concatenate
    from bionumpy.util import interleave
    import bionumpy.variants as va
    # --- encoded arrays as NumPy-like objects
    R["encoded.copy"] = (lambda a: a.copy(), ["ragged_text1", "flat_text1", "dna_enc1"])
    R["encoded.ravel"] = (lambda a: a.ravel(), ["ragged_text1", "dna_enc1"])
    R["encoded.raw"] = (lambda a: a.raw(), ["ragged_text1", "flat_text1", "dna_enc1"])
    R["encoded.lengths"] = (lambda a: a.lengths, ["ragged_text1", "dna_enc1"])
    R["encoded[::-1]"] = (lambda a: a[::-1], ["ragged_text1", "flat_text1"])
    R["encoded[:, ::-1]"] = (lambda a: a[:, ::-1], ["ragged_text1", "dna_enc1"])
    R["encoded != str"] = (lambda a, s: a != s, ["ragged_text+char", "flat_text+sep"])
    R["repr(encoded)"] = (lambda a: repr(a), ["ragged_text1", "flat_text1", "dna_enc1"])
    R["str(encoded)"] = (lambda a: str(a), ["ragged_text1", "flat_text1"])
    R["len/shape/size(encoded)"] = (lambda a: (len(a), a.shape if hasattr(a, "shape") else None, a.size), ["ragged_text1", "flat_text1"])
    R["np.append(encoded)"] = (lambda a, b: np.append(a, b), ["two_flat_text"])
    R["np.insert(encoded)"] = (lambda a, b: np.insert(a, 0, b), ["two_flat_text"])
    R["encoded.reshape"] = (lambda a: a.reshape(-1, 1), ["flat_text1"])
    R["np.where(mask, enc, enc)"] = (lambda a, b: np.where(np.arange(min(len(a), len(b))) % 2 == 0, a[:min(len(a), len(b))], b[:min(len(a), len(b))]), ["two_flat_text"])
    R["encoded == encoded"] = (lambda a, b: a[:min(len(a), len(b))] == b[:min(len(a), len(b))], ["two_flat_text"])
    R["np.sort/argsort(encoded raw)"] = (lambda a: (np.sort(a.raw()), np.argsort(a.raw(), kind="stable")), ["flat_text1"])
    R["encoded.encoding.get_labels"] = (lambda a: a.encoding.get_labels() if hasattr(a.encoding, "get_labels") else None, ["dna_enc1"])
    R["ragged.sum/mean(axis=-1)"] = (lambda r: (r.sum(axis=-1), r.mean(axis=-1) if len(r) else None), ["ragged_ints1"])
    R["ragged[index]"] = (lambda r, i: r[i], ["ragged_ints+index"])
    R["np.concatenate(ragged)"] = (lambda a, b: np.concatenate([a, b]), ["two_ragged_ints"])
    # --- string arrays
    R["as_string_array"] = (lambda a: as_string_array(a), ["ragged_text1", "pylist_strs"])
    R["string_array == str"] = (lambda a, s: as_string_array(a) == s, ["ragged_text+word"])
    R["string_array ops"] = (lambda a: (lambda x: (x[::-1], x.lengths, np.concatenate([x, x]), x.tolist() if hasattr(x, "tolist") else None))(as_string_array(a)), ["ragged_text1"])
    # --- encodings
    R["StringEncoding.encode/decode"] = (lambda a: (lambda e: (lambda c: (c, e.decode(c)))(e.encode(a)))(StringEncoding(["chr1", "chr2", "chr10", "chrX"])), ["chrom_names"])
    R["KmerEncoding.decode(get_kmers)"] = (lambda a, k: (lambda km: km.encoding.to_string(int(km.raw().ravel()[0])) if km.size else None)(bnp.get_kmers(a, k)), ["dna_enc+k"])
    R["QualityEncoding.decode"] = (lambda a: QualityEncoding.decode(QualityEncoding.encode(a)), ["quality_text"])
    R["BaseEncoding.encode/decode"] = (lambda a: bnp.BaseEncoding.decode(bnp.BaseEncoding.encode(a)), ["ragged_text1"])
    R["AlphabetEncoding(custom)"] = (lambda a: bnp.as_encoded_array(a, bnp.encodings.AlphabetEncoding("ACGTN")), ["dna_base1"])
    R["GenotypeRowEncoding.decode"] = (lambda a: (lambda E: E.decode(E.encode(a)))(__import__("bionumpy.encodings.vcf_encoding", fromlist=["x"]).GenotypeRowEncoding), ["genotype_rows"])
    # --- sequence machinery
    R["PWM.from_dict/counts"] = (lambda d: (snap(PWM.from_dict(d)), snap(PWM.from_counts(d))), ["pwm_dict"])
    R["PWM.calculate_score(s)"] = (lambda a, p: (p.calculate_score(a[0]) if len(a) and len(a[0]) == p.window_size else None, p.calculate_scores(a[0]) if len(a) else None), ["dna_enc+pwm"])
    R["PositionWeightMatrix.rolling_window"] = (lambda a, p: __import__("bionumpy.sequence.position_weight_matrix", fromlist=["x"]).PositionWeightMatrix(p).rolling_window(a), ["dna_enc+pwm"])
    R["StringMatcher.rolling_window"] = (lambda a, s: StringMatcher(s, bnp.DNAEncoding).rolling_window(a), ["dna_enc+pattern"])
    R["RegexMatcher"] = (lambda a, s: RegexMatcher(s, bnp.DNAEncoding).rolling_window(a), ["dna_enc+regex"])
    R["KmerEncoder.rolling_window"] = (lambda a, k: KmerEncoder(k, bnp.DNAEncoding).rolling_window(a), ["dna_enc+k"])
    R["Minimizers.rolling_window"] = (lambda a, k, w: __import__("bionumpy.sequence.minimizers", fromlist=["x"]).Minimizers(w, KmerEncoder(k, bnp.DNAEncoding)).rolling_window(a), ["dna_enc+k+w"])
    R["count_encoded(weights)"] = (lambda a, w: bnp.count_encoded(a.ravel(), weights=w[:a.size] if len(w) >= a.size else None), ["dna_enc+weights"])
    R["count_encoded(axis=-1)"] = (lambda a: snap(bnp.count_encoded(a, axis=-1), result=True), ["dna_enc1"])
    R["EncodedCounts ops"] = (lambda a: (lambda c: (c.counts.copy(), c.proportions, c.most_common(2) if hasattr(c, "most_common") else None, snap(c + c, result=True)))(bnp.count_encoded(a.ravel())), ["dna_enc1"])
    R["get_sequences"] = (lambda s, t: bnp.sequence.get_sequences(s, t), ["refseq+intervals"])
    R["get_strand_specific_sequences"] = (lambda s, t: bnp.sequence.get_strand_specific_sequences(s, t), ["refseq+stranded_intervals"])
    R["simulate.simulate_sequences"] = (lambda n: __import__("bionumpy.simulate", fromlist=["x"]).simulate_sequences("ACGT", {"a": n, "b": 3}, np.random.default_rng(1)), ["small_n"])
    # --- interval arithmetic, second batch
    R["intervals.extend"] = (lambda t, n: iv.extend(t, n), ["intervals+n"])
    R["bedgraph.get_pileup"] = (lambda t, n: bg.get_pileup(t, n), ["chr_intervals+size"])
    R["bedgraph.value_hist"] = (lambda t: bg.value_hist(t), ["bedgraph_int"])
    R["bedgraph.from_runlength_array"] = (lambda t, n: bg.from_runlength_array("chr1", ar.get_pileup(t, n)), ["chr_intervals+size"])
    R["get_contingency_table"] = (lambda a, b, n: sm.get_contingency_table(a, b, n), ["two_chr_intervals+size"])
    R["jaccard(stream order)"] = (lambda sizes, a, b: ar.jaccard(sizes, a, b), ["sizes+two_sorted_intervals"])
    R["count_reference_length"] = (lambda ch: bnp.alignments.count_reference_length(ch.cigar_op, ch.cigar_length), ["bam_chunk"])
    R["merge_intervals(grouped stream)"] = (lambda ts: _consume(ar.merge_intervals(bnp.groupby(_dstream(ts), "chromosome"))), ["sorted_tables_list"])
    R["sort_intervals(sort_order)"] = (lambda t: ar.sort_intervals(t, sort_order=["chr1", "chr2", "chr10", "chrX"]), ["intervals1"])
    R["get_pileup(stranded/bed6)"] = (lambda t, n: ar.get_pileup(t, n), ["chr_bed6+size"])
    # --- tables, second batch
    R["table.todict/toiter"] = (lambda t: (len(list(t.toiter())),), ["table1"])
    R["table.shallow_tuple"] = (lambda t: t.shallow_tuple(), ["table1"])
    R["table.astype"] = (lambda t: t.astype(bnp.datatypes.Interval), ["stranded_intervals1"])
    R["dataclasses.replace(table)"] = (lambda t, v: dataclasses.replace(t, stop=np.asarray(t.start) + 1), ["table+newstart"])
    R["table == / len / iter"] = (lambda t: (len(t), [dataclasses.astuple(e) for e in t][:2]), ["intervals1"])
    R["from_entry_tuples"] = (lambda rows: bnp.datatypes.Interval.from_entry_tuples([tuple(r) for r in rows]), ["interval_tuples"])
    R["from_dict/todict roundtrip"] = (lambda t: type(t).from_dict({f.name: getattr(t, f.name) for f in dataclasses.fields(t)}), ["intervals1"])
    R["from_data_frame(topandas)"] = (lambda t: type(t).from_data_frame(t.topandas()), ["intervals1"])
    R["dynamic_concatenate"] = (lambda ts: dynamic_concatenate(iter(ts)), ["sorted_tables_list"])
    R["single_entry"] = (lambda c, a, b: bnp.datatypes.Interval.single_entry(c, a, b), ["single_interval"])
    R["table.get_context/has_context"] = (lambda t: (t.has_context("header"),), ["table1"])
    R["np.argsort/lexsort(columns)"] = (lambda t: (np.argsort(t.start, kind="stable"), np.lexsort((t.stop, t.start))), ["intervals1"])
    R["table[table.start > x]"] = (lambda t: t[np.asarray(t.start) > 10], ["table_with_start"])
    R["get_bufferclass_for_datatype"] = (lambda t: bnp.io.get_bufferclass_for_datatype(type(t)).from_data(t), ["intervals1", "stranded_intervals1"])
    for bufname, kind in [("BedBuffer", "intervals1"), ("Bed6Buffer", "bed6_table"), ("BdgBuffer", "bedgraph1"), ("NarrowPeakBuffer", "narrowpeak_table"),
                          ("FastQBuffer", "fastq_table"), ("TwoLineFastaBuffer", "seq_table"), ("MultiLineFastaBuffer", "seq_table"),
                          ("GfaSequenceBuffer", "seq_table"), ("GFFBuffer", "gff_table"), ("VCFWithInfoAsStringBuffer", "vcf_table"), ("SAMBuffer", "sam_table"),
                          ("Bed12Buffer", "bed12_table"), ("ChromosomeSizeBuffer", "sizes_table")]:
        R[bufname + ".from_data"] = ((lambda bn: (lambda t: _bufcls(bn).from_data(t)))(bufname), [kind])
    # --- streams
    R["bnp.bincount(stream)"] = (lambda xs: bnp.bincount(_stream(xs)), ["small_int_arrays"])
    R["bnp.bincount(stream, minlength)"] = (lambda xs: bnp.bincount(_stream(xs), minlength=12), ["small_int_arrays"])
    R["bnp.histogram(stream)"] = (lambda xs: bnp.histogram(_stream(xs), bins=4, range=(0, 10)), ["small_int_arrays"])
    R["bnp.mean(stream)"] = (lambda xs: bnp.mean(_stream(xs)), ["float_arrays"])
    R["bnp.quantile"] = (lambda a, n: bnp.quantile(a, [0.25, 0.5]), ["small_ints+minlength"])
    R["bnp.groupby(stream)"] = (lambda ts: [(str(k), snap(v)) for k, v in bnp.groupby(_dstream(ts), "chromosome")], ["sorted_tables_list"])
    R["chunk_entries"] = (lambda ts, n: _consume(chunk_entries(_dstream(ts), n)), ["sorted_tables_list+n"])
    R["streamable fn(stream)"] = (lambda ts: _consume(bnp.sequence.translate_dna_to_protein(_dstream(ts))), ["codon_entries_list"])
    R["alignment_to_interval(stream)"] = (lambda chs: _consume(bnp.alignments.alignment_to_interval(_dstream(chs))), ["bam_chunks_list"])
    R["NpDataclassStream iterate"] = (lambda ts: _consume(_dstream(ts)), ["sorted_tables_list"])
    R["count_overlap(chromosome_map)"] = (lambda a, b: ar.count_overlap(a, b), ["two_intervals"])
    # --- io entry points taking a file name
    R["bnp.open(path).read()"] = (lambda p: snap(bnp.open(str(p)).read(), result=True), ["path"])
    R["bnp.open(path).read_chunks()"] = (lambda p: _consume(bnp.open(str(p)).read_chunks(min_chunk_size=64)), ["path"])
    R["bnp.open(path).read_chunk()"] = (lambda p: snap(bnp.open(str(p)).read_chunk(min_chunk_size=64), result=True), ["path"])
    R["bnp.count_entries(path)"] = (lambda p: bnp.count_entries(str(p)), ["path"])
    R["bnp.open(path, lazy=False)"] = (lambda p: snap(bnp.open(str(p), lazy=False).read(), result=True), ["path"])
    R["bnp.read(path)"] = (lambda p: snap(__import__("bionumpy.io.files", fromlist=["x"]).read(str(p)), result=True), ["path"])
    R["create_index(fasta)"] = (lambda p: create_index(str(p)), ["fasta_path"])
    R["open_indexed[...]"] = (lambda p: (lambda f: [(k, snap(f[k][1:4])) for k in f.keys()])(bnp.open_indexed(str(p))), ["fasta_path"])
    R["IndexedFasta.get_interval_sequences"] = (lambda p, t: bnp.open_indexed(str(p)).get_interval_sequences(t), ["fasta_path+intervals"])
    R["IndexedFasta.get_contig_lengths"] = (lambda p: dict(bnp.open_indexed(str(p)).get_contig_lengths()), ["fasta_path"])
    R["parse_matrix"] = (lambda a: snap(parse_matrix(a, rowname_type=None), result=True), ["matrix_text"])
    R["matrix_to_csv"] = (lambda a: matrix_to_csv(a.astype(int), header=["a", "b"]), ["matrix2"])
    R["read_matrix(path)"] = (lambda p: snap(read_matrix(str(p), rowname_type=None), result=True), ["matrix_path"])
    R["read_motif(path)"] = (lambda p: snap(bnp.io.read_motif(str(p)), result=True), ["jaspar_path"])
    R["Genome.from_file"] = (lambda p: snap(bnp.Genome.from_file(str(p))), ["sizes_path"])
    R["genome.read_intervals"] = (lambda g, p: snap(g.read_intervals(str(p))), ["genome+bed_path"])
    R["genome.read_track"] = (lambda g, p: snap(g.read_track(str(p))), ["genome+bdg_path"])
    R["genome.read_locations"] = (lambda g, p: snap(g.read_locations(str(p))), ["genome+vcf_path"])
    R["genome.read_sequence[intervals]"] = (lambda g, p, gi: g.read_sequence(str(p))[gi], ["genome+fasta_path+gintervals"])
    R["genome.read_annotation"] = (lambda g, p: (lambda a: (snap(a.genes), snap(a.transcripts), snap(a.exons)))(g.read_annotation(str(p))), ["genome+gtf_path"])
    # --- genomic data, second batch
    R["genome.get_genome_context/size"] = (lambda g: (snap(g.get_genome_context()), g.size), ["genome1"])
    R["GenomicIntervals.from_fields"] = (lambda g, t: snap(bnp.genomic_data.GenomicIntervals.from_fields(g.get_genome_context(), t.chromosome, t.start, t.stop)), ["genome+intervals"])
    R["gi.get_data_field/start/stop"] = (lambda gi: (gi.start, gi.stop, gi.chromosome, gi.get_data_field("start")), ["gintervals"])
    R["gi.get_location(stranded)"] = (lambda gi: snap(gi.get_location("start")), ["gintervals_stranded+len0"])
    R["gi.get_pileup.sum / mask ops"] = (lambda gi: (gi.get_pileup().sum(), snap(gi.get_mask() & gi.get_mask()), snap(~gi.get_mask())), ["gintervals"])
    R["track.extract_chromsome"] = (lambda t: np.asarray(t.extract_chromsome("chr1").to_array()) if hasattr(t.extract_chromsome("chr1"), "to_array") else np.asarray(t.extract_chromsome("chr1")), ["track"])
    R["track comparisons/where"] = (lambda t: (snap(t > 1), snap(t * 2 - t), snap(np.sqrt(t * t))), ["track"])
    R["track[gi].mean/sum/max(axis=-1)"] = (lambda t, gi: (lambda x: (x.sum(axis=-1), x.max(axis=-1) if len(x) else None))(t[gi]), ["track+gintervals"])
    R["track.to_dict/get_data"] = (lambda t: (snap(t.to_dict()), snap(t.get_data())), ["track"])
    R["np.histogram/bincount(track)"] = (lambda t: snap(np.histogram(t, bins=3, range=(0, 10)), result=True), ["track"])
    R["GenomicArray.from_bedgraph"] = (lambda g, t: snap(bnp.genomic_data.GenomicArray.from_bedgraph(t, g.get_genome_context())), ["genome+bedgraph"])
    R["gl.get_windows.extract"] = (lambda t, gl: snap(t[gl.get_windows(flank=2)]), ["track+glocations"])
    R["BinnedGenome.count"] = (lambda g, gl: (lambda b: (b.count(gl), snap(b.count_dict, result=True)))(bnp.genomic_data.BinnedGenome(g.get_genome_context(), bin_size=10)), ["genome+locations"])
    R["gi.sorted/merged(stranded)"] = (lambda gi: snap(gi.merged()), ["gintervals_stranded+len0"])
    R["genome.get_intervals(bed6 chunk)"] = (lambda g, ch: snap(g.get_intervals(ch, stranded=True)), ["genome+bed6_chunk"])
    R["genome.get_track(bdg chunk)"] = (lambda g, ch: snap(g.get_track(ch)), ["genome+bdg_chunk"])
    # --- variants
    R["apply_variants_to_sequence"] = (lambda s, v: va.apply_variants_to_sequence(s, v), ["flatseq+snps"])
    R["apply_variants"] = (lambda se, v: va.apply_variants(se, v), ["seqentries+snps"])
    R["count_mutation_types"] = (lambda v, s: snap(va.count_mutation_types(v, s), result=True), ["snps+flatseq"])
    # --- util
    R["textfn(chunk column)"] = (lambda ch, j, sel, name: chunk_column_fn(ch, j, sel, name), ["chunk+col+fn"])
    R["replace(chunk, field) then reread"] = (lambda ch, j, bump: replace_then_reread(ch, j, bump), ["chunk+field"])
    R["numfn(every text column of a chunk)"] = (lambda ch, name: chunk_columns_fn(ch, name), ["chunk+numfn"])
    R["selection: field, write, fields"] = (lambda ch, sel, j: field_write_fields(ch, sel, j), ["chunk+sel+field"])
    R["Genome.from_dict(d).with_ignored_added"] = (lambda d, names: snap(bnp.Genome.from_dict(d).with_ignored_added(names)), ["sizes_dict+names"])
    R["genome.with_ignored_added"] = (lambda g, names: snap(g.with_ignored_added(names)), ["genome_u+names"])
    R["genome.with_ignored_added.get_intervals"] = (lambda g, names, t: snap(g.with_ignored_added(names).get_intervals(t)), ["genome_u+names+intervals"])
    R["GenomeContext.from_dict(d) methods"] = (lambda d, names: (lambda gc: (snap(gc.chrom_sizes, result=True), list(gc.chromosome_order()) if hasattr(gc, "chromosome_order") else None,
                                                 snap(gc.with_ignored_added(names)), snap(gc.chrom_sizes, result=True)))(
        __import__("bionumpy.genomic_data.genome_context", fromlist=["x"]).GenomeContext.from_dict(d)), ["sizes_dict+names"])
    R["genome_context.mask_data"] = (lambda g, t: snap(g.get_genome_context().mask_data(t)), ["genome_u+intervals"])
    R["Genome.from_dict(d, filter/sort kwargs)"] = (lambda d: (snap(bnp.Genome.from_dict(d, filter_function=None)) if "filter_function" in __import__("inspect").signature(bnp.Genome.from_dict).parameters else None,
                                                      snap(bnp.Genome.from_dict(d, sort_names=True)) if "sort_names" in __import__("inspect").signature(bnp.Genome.from_dict).parameters else None), ["sizes_dict_u"])
    R["chunk.program"] = (lambda ch, prog: run_chunk_program(ch, prog), ["chunk+program"])
    R["gi.clip(out of bounds)"] = (lambda gi: snap(gi.clip()), ["gintervals_oob"])
    R["gi.extended_to_size(oob)"] = (lambda gi, n: snap(gi.extended_to_size(n)), ["gintervals_oob+len"])
    R["gi.get_mask/pileup(after clip)"] = (lambda gi: (snap(gi.clip().get_mask()), snap(gi.clip().get_pileup())), ["gintervals_oob"])
    R["int_to_str"] = (lambda n: strops.int_to_str(n), ["small_n"])
    R["str_equal(ragged, ragged)"] = (lambda a, b: bnp.str_equal(a, b), ["two_ragged_same_rows"])
    R["split(list of separators)"] = (lambda s_: strops.split(s_, sep=[",", ";"]), ["flat_text_seps"])
    R["int_lists_to_strings(sep='')"] = (lambda r: strops.int_lists_to_strings(r, sep=""), ["ragged_bits"])
    R["intervals.extend(both)"] = (lambda t, n: iv.extend(t, both=n), ["intervals+n"])
    R["pileup.to_bedgraph / [intervals]"] = (lambda t, n: (lambda p: (snap(p.to_bedgraph("chr1")), snap(p[t[:1]], result=True)))(ar.get_pileup(t, n)), ["chr_intervals+size"])
    R["sort_intervals(human_key_func)"] = (lambda t: ar.sort_intervals(t, chromosome_key_function=iv.human_key_func), ["intervals1"])
    R["lazy class from_dict/from_data_frame"] = (lambda ch: (snap(type(ch).from_dict(ch.todict()) if hasattr(ch, "todict") else None, result=True),), ["chunk"])
    R["encoded misc (T/dtype/hash/from_encoded_array/str)"] = (lambda a: (lambda ea: (snap(a.T) if a.ndim == 2 else None, str(a.dtype), hash(a) if a.ndim <= 1 else None,
                                                                         ea.from_encoded_array(a), str(a), repr(a)))(__import__("bionumpy.encoded_array", fromlist=["x"])), ["flat_text1", "flat_dna_enc1"])
    R["EncodedLookup"] = (lambda a: (lambda lk: (snap(lk[a]), ))(bnp.EncodedLookup(np.arange(4) * 10, bnp.DNAEncoding)), ["flat_dna_enc1", "dna_enc1"])
    R["util.interleave"] = (lambda a, b: interleave(a, b), ["two_int_arrays"])
    R["bnp.replace(kwargs several)"] = (lambda t, v: bnp.replace(t, start=v, stop=v + 1), ["table+newstart"])
    return R


# ------------------------------------------------------------------ argument generators (JSON-able specs)

def _ints(rng, n=None, lo=-10 ** 6, hi=10 ** 6):
    n = rng.choice([1, 2, 3, 5, 8]) if n is None else n
    pool = [0, 1, -1, 9, 10, -10, 99, 100, 12345, -99999, 10 ** 9, -(10 ** 12), 2 ** 31, 10 ** 15 - 1]
    return [rng.choice(pool + [rng.randrange(lo, hi)]) for _ in range(n)]


def _int_str(rng):
    v = rng.choice([0, 1, 7, 10, 42, 100, 999, 1000, 123456789, rng.randrange(10 ** 6)])
    return rng.choice(["", "", "-", "+"]) + str(v)


def _float_str(rng):
    m = rng.choice(["0", "1", "12", "3.5", "0.001", "10.25", "123.456", ".5" if False else "0.5", "7."if False else "7.0"])
    sign = rng.choice(["", "", "-"])
    if rng.random() < 0.4:
        return sign + m + "e" + rng.choice(["", "-", "+"]) + str(rng.choice([0, 1, 2, 5, 10]))
    return sign + m


MISSING_SPELLINGS = ["NA", "na", "N/A", "nan", "NaN", "NAN", "null", "None", "-", "*", "", "?", ".."]


_NUMBER = re.compile(r"^[+-]?(\d+\.?\d*|\.\d+)([eE][+-]?\d+)?$")


def respellings(t):
    """the SAME text value in the other spellings that other readers of the same kind of text accept (Python's int()/float(), C
    strtod/strtol, R, awk, spreadsheet exports): case, explicit sign, leading zeros, bare / trailing decimal point, exponent
    marker E / e / D / d, exponent sign and zeros, an exponent on a plain number, surrounding blanks, digit grouping, decimal
    comma, base prefixes, the spellings of a missing value. The package may refuse a spelling — then it must refuse WITHOUT
    touching its argument — or accept it — then it must not normalise the caller's text in place."""
    out = []
    if t.upper() != t:
        out.append(t.upper())
    if t.lower() != t:
        out.append(t.lower())
    if t.swapcase() not in (t, t.upper(), t.lower()):
        out.append(t.swapcase())
    if t.capitalize() not in (t, t.upper(), t.lower()):
        out.append(t.capitalize())
    if t in (".", "", "*"):
        out += [m for m in MISSING_SPELLINGS if m != t]
    body = t.lstrip("+-")
    sign = t[:len(t) - len(body)]
    numeric = _NUMBER.match(t) is not None
    if numeric:
        if not sign:
            out.append("+" + t)
        if sign == "+":
            out.append(body)
        out += [sign + "0" + body, sign + "000" + body, " " + t, t + " ", "  " + t + "  ", sign + " " + body]
        low = body.lower()
        if "e" not in low:
            out += [t + "E0", t + "e0", t + "E+00", t + "E-0", t + "e+0", t + "D0", t + "d+00"]
            if "." not in body:
                out += [t + ".", t + ".0", t + ".E0", "{}0x{:x}".format(sign, int(body)), "{}0X{:X}".format(sign, int(body)),
                        "{}0o{:o}".format(sign, int(body)), t + "L", t + "f"]
                if len(body) > 1:
                    out += [sign + body[:-1] + "E1" if body.endswith("0") else sign + body[:-1] + "." + body[-1] + "E1",
                            sign + body[0] + "_" + body[1:]]
                if len(body) > 3:
                    out += [sign + body[:-3] + "," + body[-3:], sign + body[:-3] + " " + body[-3:], sign + body[:-3] + "'" + body[-3:]]
            else:
                out += [t.replace(".", ","), t + "0", t + "f", t + "F"]
                if body.startswith("0.") and len(body) > 2:
                    out.append(sign + body[1:])            # .5
                if body.endswith(".0") and len(body) > 2:
                    out.append(sign + body[:-1])           # 7.
        else:
            i = low.index("e")
            m, e = body[:i], body[i + 1:]
            es = e[:1] if e[:1] in "+-" else ""
            ed = e[len(es):]
            for mark in "EeDd":
                out += [sign + m + mark + e, sign + m + mark + es + "0" + ed, sign + m + mark + es + "00" + ed]
                if not es:
                    out.append(sign + m + mark + "+" + ed)
                if es == "+":
                    out.append(sign + m + mark + ed)
            out += [sign + m + " e" + e, sign + m + "e " + e, sign + m + "*10^" + e, sign + m + "×10^" + e]
            if "." in m:
                out.append(sign + m.replace(".", ",") + "e" + e)
    return [x for x in dict.fromkeys(out) if x != t]


def respell(t, rng):
    alts = respellings(t)
    return rng.choice(alts) if alts else t


def respell_spec(s, rng, p=0.5):
    """a text argument with some of its rows (at least one, where possible) written in another spelling of the same value"""
    if not isinstance(s, dict):
        return s
    k = s.get("k")
    if k == "strs" and s["rows"]:
        rows = list(s["rows"])
        must = rng.randrange(len(rows))
        return dict(s, rows=[respell(r, rng) if (i == must or rng.random() < p) else r for i, r in enumerate(rows)])
    if k == "str":
        return dict(s, s=respell(s["s"], rng))
    if k == "py" and isinstance(s["v"], str):
        return dict(s, v=respell(s["v"], rng))
    if k == "list":
        return dict(s, items=[respell_spec(x, rng, p) for x in s["items"]])
    if k == "table":
        cols = dict(s["cols"])
        names = [n for n, c in cols.items() if isinstance(c, dict) and c.get("k") == "strs"]
        if names:
            n = rng.choice(names)
            cols[n] = respell_spec(cols[n], rng, p)
        return dict(s, cols=cols)
    if k in ("gintervals", "glocations", "track"):
        return dict(s, table=respell_spec(s["table"], rng, p))
    if k in ("file", "path") and s.get("fmt") != "bam" and s.get("text"):
        # ONE column of the file (the same one in every record line), or one single cell
        nl = "\r\n" if "\r\n" in s["text"] else "\n"
        lines = s["text"].split(nl)
        body = [i for i, l in enumerate(lines) if l and not l.startswith(("#", "@", ">", "+"))]
        if not body:
            return s
        width = max(len(lines[i].split("\t")) for i in body)
        j = rng.randrange(width)
        single = rng.choice(body) if rng.random() < 0.3 else None
        for i in body:
            cells = lines[i].split("\t")
            if j < len(cells) and (single is None or single == i) and (single == i or rng.random() < 0.8):
                parts = cells[j].split(",") if rng.random() < 0.5 else [cells[j]]      # list-valued cells: one element
                q = rng.randrange(len(parts))
                parts[q] = respell(parts[q], rng).replace("\t", " ")
                cells[j] = ",".join(parts)
                lines[i] = "\t".join(cells)
        return dict(s, text=nl.join(lines))
    return s


def _dna(rng, n=None, alphabet="ACGT", lower=False):
    n = rng.choice([0, 1, 2, 3, 5, 8, 13]) if n is None else n
    s = "".join(rng.choice(alphabet) for _ in range(n))
    return s.lower() if lower and rng.random() < 0.3 else s


def _word(rng):
    return "".join(rng.choice("abcXYZ019_.-+e,") for _ in range(rng.choice([0, 1, 2, 4, 7])))


def _strs(rows, enc=None):
    return {"k": "strs", "rows": rows, "enc": enc}


CHROMS = ["chr1", "chr2", "chr10", "chrX"]
SIZES = {"chr1": 100, "chr2": 60, "chr10": 45, "chrX": 30}


def _intervals(rng, n=None, sorted_=False, one_chrom=False, stranded=False, cls=None):
    n = rng.choice([1, 2, 3, 5, 8]) if n is None else n
    rows = []
    for _ in range(n):
        c = "chr1" if one_chrom else rng.choice(CHROMS)
        a = rng.randrange(0, SIZES[c] - 1)
        b = rng.randrange(a + 1, SIZES[c] + 1)
        rows.append((c, a, b))
    if sorted_:
        rows.sort(key=lambda r: (CHROMS.index(r[0]), r[1], r[2]))
    cols = {"chromosome": _strs([r[0] for r in rows]), "start": {"k": "ints", "v": [r[1] for r in rows]},
            "stop": {"k": "ints", "v": [r[2] for r in rows]}}
    if stranded:
        cols["strand"] = _strs([rng.choice("+-") for _ in rows])
        return {"k": "table", "cls": cls or "StrandedInterval", "cols": cols}
    return {"k": "table", "cls": cls or "Interval", "cols": cols}


def _bedgraph(rng):
    rows = []
    skip = [c for c in CHROMS[1:] if rng.random() < 0.25]
    for c in CHROMS:
        if c in skip:
            continue
        pos = 0
        while pos < SIZES[c]:
            e = min(SIZES[c], pos + rng.choice([1, 2, 5, 20, 100]))
            rows.append((c, pos, e, rng.choice([0.0, 1.0, 2.5, -3.0, 1e-5, 100.0])))
            pos = e
    return {"k": "table", "cls": "BedGraph", "cols": {"chromosome": _strs([r[0] for r in rows]), "start": {"k": "ints", "v": [r[1] for r in rows]},
                                                     "stop": {"k": "ints", "v": [r[2] for r in rows]}, "value": {"k": "floats", "v": [r[3] for r in rows]}}}


def _table(rng):
    kind = rng.choice(["Interval", "StrandedInterval", "Bed6", "SequenceEntry", "BedGraph"])
    if kind == "Interval":
        return _intervals(rng)
    if kind == "StrandedInterval":
        return _intervals(rng, stranded=True)
    if kind == "BedGraph":
        return _bedgraph(rng)
    if kind == "Bed6":
        t = _intervals(rng, stranded=True, cls="Bed6")
        n = len(t["cols"]["start"]["v"])
        cols = t["cols"]
        strand = cols.pop("strand")
        cols["name"] = _strs([_word(rng) or "n" for _ in range(n)])
        cols["score"] = {"k": "ints", "v": [rng.choice([0, 1, 1000, -5]) for _ in range(n)]}
        cols["strand"] = strand
        return t
    n = rng.choice([1, 2, 4])
    return {"k": "table", "cls": "SequenceEntry", "cols": {"name": _strs([f"s{i}" for i in range(n)]), "sequence": _strs([_dna(rng) for _ in range(n)])}}


# file texts -----------------------------------------------------------------

def _nl(rng):
    return rng.choice(["\n", "\n", "\r\n"])


def _finish(rng, lines, nl, allow_crlf=True):
    if not allow_crlf:
        nl = "\n"
    text = nl.join(lines)
    return text + (nl if rng.random() < 0.6 else "")


def file_spec(rng, fmt=None):
    fmt = fmt or rng.choice(FORMATS)
    n = rng.choice([1, 2, 3, 5, 9])
    nl = _nl(rng)
    gz = rng.random() < 0.2
    spec = {"k": "file", "fmt": fmt, "gz": gz}
    rows = []
    for i in range(n):
        c = rng.choice(CHROMS)
        a = rng.randrange(0, 50)
        b = a + rng.randrange(1, 40)
        rows.append((c, a, b))
    if fmt == "bed":
        kind = rng.choice(["bed3", "bed6", "bed12"])
        lines = []
        for c, a, b in rows:
            l = [c, str(a), str(b)]
            if kind != "bed3":
                l += [rng.choice([_word(rng).replace(",", "") or "n", "-12", "+4", "-0.5", "1E-5", "2e3"]), rng.choice(["0", "1000", "-5", "+7", "."]) if kind == "bed6" else rng.choice(["0", "960"]), rng.choice("+-.")]
            if kind == "bed12":
                k = rng.choice([1, 2, 3])
                tc = rng.choice(["", ","])
                l += [str(a), str(b), rng.choice(["0", "255,0,0", "0,0,0"]), str(k), ",".join(str(rng.randrange(1, 9)) for _ in range(k)) + tc,
                      ",".join(str(3 * j) for j in range(k)) + tc]
            lines.append("\t".join(l))
        spec["buffer"] = {"bed3": None, "bed6": "Bed6Buffer", "bed12": "Bed12Buffer"}[kind]
        spec["text"] = _finish(rng, lines, nl)
    elif fmt == "bdg":
        lines = ["\t".join([c, str(a), str(b), _float_str(rng)]) for c, a, b in rows]
        spec["text"] = _finish(rng, lines, nl)
    elif fmt == "narrowPeak":
        lines = ["\t".join([c, str(a), str(b), _word(rng).replace(",", "") or ".", str(rng.randrange(0, 1000)), rng.choice("+-."),
                            _float_str(rng), rng.choice(["-1", "3.2", "1e-3"]), rng.choice(["-1", "0.5", "2e+2"]), str(rng.choice([-1, 0, 17]))])
                 for c, a, b in rows]
        spec["text"] = _finish(rng, lines, nl)
    elif fmt == "tsv":
        # a custom table: 1..4 columns drawn from the type pool (single list-valued columns included), or all seven
        r_ = rng.random()
        cols = (list(COLTYPES) if r_ < 0.2 else [rng.choice(["ints", "floats", "bools"])] if r_ < 0.5
                else [rng.choice(COLTYPES) for _ in range(rng.choice([1, 2, 3, 4]))])

        def cell(kind, i):
            if kind == "str":
                return rng.choice(["r%d" % i, "-4", "+2", "3E2", "1e-3"])
            if kind == "bools":
                return "".join(rng.choice("01") for _ in range(rng.choice([1, 3, 4])))
            if kind == "ints":
                return ",".join(rng.choice(["-3", "+5", "12", "0", "400"]) for _ in range(rng.choice([1, 2, 3])))
            if kind == "floats":
                return ",".join(rng.choice(["-1.5", "2e-3", "7", "+0.25"]) for _ in range(rng.choice([1, 2])))
            if kind == "int":
                return rng.choice(["-7", "+3", "15"])
            if kind == "float":
                return rng.choice(["-2.5", "1e3", "4"])
            return rng.choice([".", "-0.5", "3e-2"])
        lines = ["\t".join(cell(k, i) for k in cols) for i in range(n)]
        spec["buffer"] = "custom"
        spec["cols"] = cols
        if rng.random() < 0.3:
            spec["header"] = True
            lines = ["\t".join("c%d_%s" % (i, k) for i, k in enumerate(cols))] + lines
        spec["text"] = _finish(rng, lines, "\n")
    elif fmt == "vcf":
        samples = rng.choice([0, 0, 1, 2, 3])
        buffer = rng.choice([None, "VCFMatrixBuffer", "PhasedVCFMatrixBuffer", "PhasedHaplotypeVCFMatrixBuffer", "VCFBuffer2", "VCFHaplotypeBuffer"]) if samples else rng.choice([None, None, "VCFWithInfoAsStringBuffer"])
        phased = buffer in ("PhasedVCFMatrixBuffer", "PhasedHaplotypeVCFMatrixBuffer", "VCFHaplotypeBuffer")
        head = ["##fileformat=VCFv4.2", '##INFO=<ID=DP,Number=1,Type=Integer,Description="d">', '##INFO=<ID=AF,Number=A,Type=Float,Description="a">',
                '##INFO=<ID=DB,Number=0,Type=Flag,Description="f">', '##FORMAT=<ID=GT,Number=1,Type=String,Description="g">']
        cols = ["#CHROM", "POS", "ID", "REF", "ALT", "QUAL", "FILTER", "INFO"] + (["FORMAT"] + [f"S{i}" for i in range(samples)] if samples else [])
        lines = head + ["\t".join(cols)]
        for c, a, b in sorted(rows):
            info = rng.choice(["DP=3", "DP=10;AF=0.5", "AF=1e-3;DB", ".", "DB;DP=-1"])
            l = [c, str(a + 1), rng.choice([".", "rs1"]), rng.choice("ACGT"), rng.choice(["A", "C", "G,T"]), rng.choice([".", "50", "9.5", "1e3", "2.5E1"]), rng.choice(["PASS", "."]), info]
            if samples:
                sep = "|" if phased else rng.choice("|/")
                l += ["GT"] + [rng.choice("01.") + (sep) + rng.choice("01.") for _ in range(samples)]
            lines.append("\t".join(l))
        spec["buffer"] = buffer or ""
        spec["text"] = _finish(rng, lines, "\n")   # header parsing assumes \n
        if buffer in ("VCFBuffer2", "VCFHaplotypeBuffer", "VCFWithInfoAsStringBuffer"):
            pass
        if not spec["text"].endswith("\n") and buffer:
            spec["text"] += "\n"
    elif fmt in ("gff", "gtf"):
        lines = []
        for c, a, b in rows:
            attr = 'gene_id "g1"; transcript_id "t1";' if fmt == "gtf" else "ID=g1;Name=x"
            lines.append("\t".join([c, "src", rng.choice(["gene", "exon", "CDS"]), str(a + 1), str(b + 1), rng.choice([".", "5.5", "1e2", "-5", "+3", "12", "-1.5e2", "-7"]), rng.choice("+-."),
                                    rng.choice([".", "0", "2"]), attr]))
        if fmt == "gff" and rng.random() < 0.5:
            lines.insert(rng.randrange(len(lines) + 1), "##comment")
        spec["text"] = _finish(rng, lines, nl)
    elif fmt == "sam":
        lines = ["@HD\tVN:1.0", "@SQ\tSN:chr1\tLN:100"]
        for i, (c, a, b) in enumerate(rows):
            L = rng.choice([1, 4, 7])
            lines.append("\t".join([f"r{i}", str(rng.choice([0, 4, 16, 99])), c, str(a + 1), str(rng.choice([0, 60, 255])), f"{L}M", rng.choice(["*", "="]),
                                    str(rng.choice([0, 5])), str(rng.choice([0, -10, 25])), _dna(rng, L), "".join(rng.choice("!+5?I") for _ in range(L))]
                                   + (["NM:i:1", "XS:f:-1.5e3"] if rng.random() < 0.5 else ["NM:i:0"])))
        spec["text"] = _finish(rng, lines, "\n")
    elif fmt in ("fa", "fa2"):
        two = fmt == "fa2"
        lines = []
        for i in range(n):
            s = _dna(rng, rng.choice([1, 3, 7, 12, 25]), lower=True)
            lines.append(f">s{i} d")
            if two:
                lines.append(s)
            else:
                w = 5
                lines += [s[j:j + w] for j in range(0, len(s), w)]
        spec["fmt"] = "fa"
        spec["buffer"] = "TwoLineFastaBuffer" if two else None
        spec["text"] = _finish(rng, lines, nl)
    elif fmt == "fq":
        lines = []
        for i in range(n):
            s = _dna(rng, rng.choice([1, 3, 7, 12]), alphabet="ACGTN")
            lines += [f"@q{i}", s, "+", "".join(rng.choice("!#+5?I@") for _ in s)]
        spec["text"] = _finish(rng, lines, nl)
    elif fmt == "pairs":
        lines = ["\t".join([f"p{i}", c, str(a), rng.choice(CHROMS), str(b), rng.choice("+-"), rng.choice("+-")]) for i, (c, a, b) in enumerate(rows)]
        spec["text"] = _finish(rng, lines, "\n")
    elif fmt == "sizes":
        lines = [f"{c}\t{SIZES[c]}" for c in CHROMS[:n]]
        spec["text"] = _finish(rng, lines, nl)
    elif fmt == "gfa":
        lines = ["\t".join(["S", str(i + 1), _dna(rng, rng.choice([1, 4, 9]))]) for i in range(n)]
        spec["text"] = _finish(rng, lines, "\n")
    elif fmt == "bam":
        from . import c16
        refs = [["chr1", 1000], ["chr2", 500]]
        spec.update({"refs": refs, "recs": [c16.rand_rec(rng, 2) for _ in range(n)], "gz": False})
    if fmt != "bam" and "Matrix" not in (spec.get("buffer") or "") and rng.random() < 0.35:
        spec["chunk"] = rng.choice([16, 40, 64, 200])
        spec["which"] = rng.choice([0, 1, 2])
    if not spec.get("buffer") and rng.random() < 0.2:
        # the same file through the buffer class the public factory makes for the format's own data class
        made = {"bdg": "BedGraph", "gff": "GFFEntry", "gtf": "GTFEntry", "bed": "Interval"}.get(fmt)
        if made:
            spec["buffer"] = "datatype:" + made
            # (the factory's buffer classes skip comment lines before the table only: interior comment lines are GFF's own buffer's business)
            spec["text"] = spec["text"].replace("##comment\r\n", "").replace("##comment\n", "").replace("\n##comment", "").replace("\r\n##comment", "")
    if fmt != "bam" and rng.random() < 0.15:
        # the same request in eager mode / explicitly lazy. (Not the phased genotype buffers: the generated genotype columns hold
        # missing alleles, which the phased encodings refuse — lazily that is ONE field that raises when read, eagerly no table at all)
        if not any(t in (spec.get("buffer") or "") for t in ("Phased", "VCFHaplotypeBuffer")):
            spec["lazy"] = rng.choice([False, False, True])
    return spec


FORMATS = ["bed", "bed", "bdg", "narrowPeak", "vcf", "vcf", "gff", "gtf", "sam", "fa", "fa2", "fq", "pairs", "sizes", "gfa", "bam", "tsv", "tsv"]


def gen_args(kind, rng):
    """JSON-able argument specs for one call"""
    py = lambda v: {"k": "py", "v": v}
    if kind == "int_strs":
        return [_strs([_int_str(rng) for _ in range(rng.choice([1, 2, 3, 6]))])]
    if kind == "float_strs":
        return [_strs([_float_str(rng) for _ in range(rng.choice([1, 2, 3, 6]))])]
    if kind == "int_strs_missing":
        return [_strs([rng.choice([_int_str(rng), ".", _int_str(rng)]) for _ in range(rng.choice([1, 2, 3, 6]))])]
    if kind == "float_strs_missing":
        return [_strs([rng.choice([_float_str(rng), ".", _float_str(rng)]) for _ in range(rng.choice([1, 2, 3, 6]))])]
    if kind == "int_array":
        return [{"k": "ints", "v": _ints(rng)}]
    if kind == "float_array":
        return [{"k": "floats", "v": [rng.choice([0.0, -1.5, 1e-5, 2.5e10, 3.0, float(rng.randrange(1000)) / 8]) for _ in range(rng.choice([1, 2, 5]))]}]
    if kind == "int_lists+sep":
        return [{"k": "ragged", "rows": [[rng.randrange(0, 500) for _ in range(rng.choice([1, 2, 3]))] for _ in range(rng.choice([1, 2, 4]))]},
                py(rng.choice([",", ";"])), py(rng.random() < 0.5)]
    if kind == "flat_text+sep":
        sep = rng.choice([",", "\t", ";"])
        return [{"k": "str", "s": sep.join(_word(rng).replace(",", "") for _ in range(rng.choice([1, 2, 4])))}, py(sep)]
    if kind == "ragged_text+sep":
        return [_strs([_word(rng) for _ in range(rng.choice([1, 2, 4]))]), py(rng.choice(["\t", ",", "\n"])), py(rng.random() < 0.5)]
    if kind == "ragged_text+word":
        rows = [_word(rng) for _ in range(rng.choice([1, 2, 4]))]
        return [_strs(rows), py(rng.choice(rows + ["zz"]))]
    if kind == "ragged_text+char":
        return [_strs([_word(rng) for _ in range(rng.choice([1, 2, 4]))]), py(rng.choice("abc,.+-e0"))]
    if kind == "ragged_text+index":
        rows = [_word(rng) for _ in range(rng.choice([2, 3, 5]))]
        idx = rng.choice([{"k": "bools", "v": [rng.random() < 0.5 for _ in rows]}, {"k": "ints", "v": [rng.randrange(len(rows)) for _ in range(3)]}, py(0)])
        return [_strs(rows), idx]
    if kind == "ragged_text+col":
        return [_strs([(_word(rng) or "x") + "y" for _ in range(rng.choice([1, 2, 4]))]), py(rng.choice([0, -1]))]
    if kind == "two_ragged_text":
        return [_strs([_word(rng) for _ in range(rng.choice([1, 3]))]), _strs([_word(rng) for _ in range(rng.choice([1, 2]))])]
    if kind == "two_flat_text":
        return [{"k": "str", "s": _word(rng)}, {"k": "str", "s": _word(rng)}]
    if kind == "ragged_text1":
        return [_strs([_word(rng) for _ in range(rng.choice([1, 2, 4]))])]
    if kind == "flat_text1":
        return [{"k": "str", "s": _word(rng)}]
    if kind == "ragged_text+bounds":
        rows = [(_word(rng) or "q") + "abc" for _ in range(rng.choice([1, 2, 4]))]
        return [_strs(rows), {"k": "ints", "v": [rng.randrange(0, 2) for _ in rows]}, {"k": "ints", "v": [rng.randrange(2, 4) for _ in rows]}]
    if kind == "pylist_strs":
        return [py([_word(rng) for _ in range(rng.choice([1, 2, 4]))])]
    if kind == "dna+pattern":
        return [_strs([_dna(rng, rng.choice([3, 5, 9])) for _ in range(rng.choice([1, 2, 4]))]), py(_dna(rng, rng.choice([1, 2, 3])))]
    if kind == "dna_base+enc":
        return [_strs([_dna(rng, lower=True) for _ in range(rng.choice([1, 2, 4]))]), py(rng.choice(["DNA", "ACGTn"]))]
    if kind == "dna_enc+same":
        e = rng.choice(["DNA", "ACGTn"])
        return [_strs([_dna(rng) for _ in range(rng.choice([1, 2, 4]))], e), py(e)]
    if kind == "dna_enc+other":
        return [_strs([_dna(rng) for _ in range(rng.choice([1, 2, 4]))], "DNA"), py(rng.choice(["ACGTn", "Base", "DNA"]))]
    if kind == "dna_enc1":
        return [_strs([_dna(rng) for _ in range(rng.choice([1, 2, 4]))], rng.choice(["DNA", "ACGTn"]))]
    if kind == "dna_base1":
        return [_strs([_dna(rng, alphabet="ACGTNacgtn") for _ in range(rng.choice([1, 2, 4]))])]
    if kind == "quality_text":
        return [_strs(["".join(rng.choice("!#+5?I@") for _ in range(rng.choice([0, 1, 4]))) for _ in range(rng.choice([1, 2, 3]))])]
    if kind in ("genotype_rows", "phased_genotype_rows"):
        ns = rng.choice([1, 2, 3])
        sep = "|" if kind.startswith("phased") else None
        rows = []
        for _ in range(rng.choice([1, 2, 4])):
            rows.append("\t".join(rng.choice("01.") + (sep or rng.choice("|/")) + rng.choice("01.") for _ in range(ns)) + rng.choice(["\n", "\t"]))
        return [_strs(rows)]
    if kind == "codons":
        return [_strs(["".join(rng.choice("ACGT") for _ in range(3 * rng.choice([0, 1, 2, 4]))) for _ in range(rng.choice([1, 2, 3]))])]
    if kind == "codon_entries":
        n = rng.choice([1, 2, 3])
        return [{"k": "table", "cls": "SequenceEntry", "cols": {"name": _strs([f"s{i}" for i in range(n)]),
                 "sequence": _strs(["".join(rng.choice("ACGT") for _ in range(3 * rng.choice([1, 2, 4]))) for _ in range(n)])}}]
    if kind == "dna_enc+k":
        return [_strs([_dna(rng, rng.choice([3, 4, 6, 9])) for _ in range(rng.choice([1, 2, 4]))], "DNA"), py(rng.choice([1, 2, 3]))]
    if kind == "dna_enc+k+w":
        return [_strs([_dna(rng, rng.choice([8, 9, 12])) for _ in range(rng.choice([1, 2, 4]))], "DNA"), py(rng.choice([2, 3])), py(rng.choice([2, 3, 4]))]
    if kind == "dna_enc+pwm":
        L = rng.choice([1, 2, 3])
        return [_strs([_dna(rng, rng.choice([3, 5, 9])) for _ in range(rng.choice([1, 2, 4]))], "DNA"),
                {"k": "pwm", "v": {a: [rng.choice([0.1, 0.2, 0.4, 0.7]) for _ in range(L)] for a in "ACGT"}}]
    if kind == "sorted_intervals+d":
        return [_intervals(rng, sorted_=True, one_chrom=rng.random() < 0.8), py(rng.choice([0, 0, 1, 5]))]
    if kind == "intervals1":
        return [_intervals(rng)]
    if kind == "stranded_intervals1":
        return [_intervals(rng, stranded=True)]
    if kind == "chr_intervals+size":
        return [_intervals(rng, one_chrom=True), py(100)]
    if kind == "chr_intervals1":
        return [_intervals(rng, one_chrom=True)]
    if kind == "two_chr_intervals":
        return [_intervals(rng, one_chrom=True, sorted_=True), _intervals(rng, one_chrom=True, sorted_=True)]
    if kind == "two_chr_intervals+size":
        return [_intervals(rng, one_chrom=True, sorted_=True), _intervals(rng, one_chrom=True, sorted_=True), py(100)]
    if kind == "two_intervals":
        return [_intervals(rng, sorted_=True), _intervals(rng, sorted_=True)]
    if kind == "stranded_intervals+len+sizes":
        t = _intervals(rng, stranded=True)
        return [t, py(rng.choice([1, 10, 50])), {"k": "ints", "v": [SIZES[c] for c in t["cols"]["chromosome"]["rows"]]}]
    if kind == "intervals+sizes":
        t = _intervals(rng)
        return [t, {"k": "ints", "v": [SIZES[c] // 2 for c in t["cols"]["chromosome"]["rows"]]}]
    if kind == "sizes+two_sorted_intervals":
        return [{"k": "dict", "v": dict(SIZES)}, _intervals(rng, sorted_=True), _intervals(rng, sorted_=True)]
    if kind == "sizes_dict":
        return [{"k": "dict", "v": dict(SIZES)}]
    if kind == "genome+intervals":
        return [{"k": "genome", "sizes": SIZES}, _intervals(rng, stranded=rng.random() < 0.5)]
    if kind == "genome+bedgraph":
        return [{"k": "genome", "sizes": SIZES}, _bedgraph(rng)]
    if kind == "genome+locations":
        n = rng.choice([1, 2, 4])
        cs = [rng.choice(CHROMS) for _ in range(n)]
        return [{"k": "genome", "sizes": SIZES}, {"k": "table", "cls": "LocationEntry", "cols": {"chromosome": _strs(cs), "position": {"k": "ints", "v": [rng.randrange(SIZES[c]) for c in cs]}}}]
    if kind == "gintervals":
        return [{"k": "gintervals", "sizes": SIZES, "table": _intervals(rng, sorted_=True)}]
    if kind == "gintervals_stranded+len":
        return [{"k": "gintervals", "sizes": SIZES, "table": _intervals(rng, sorted_=True, stranded=True), "stranded": True}, py(rng.choice([1, 7, 30]))]
    if kind == "gintervals_stranded+where":
        return [{"k": "gintervals", "sizes": SIZES, "table": _intervals(rng, sorted_=True, stranded=True), "stranded": True}, py(rng.choice(["start", "stop", "center"]))]
    if kind == "gintervals+mask":
        t = _intervals(rng, sorted_=True)
        return [{"k": "gintervals", "sizes": SIZES, "table": t}, {"k": "bools", "v": [rng.random() < 0.5 for _ in t["cols"]["start"]["v"]]}]
    if kind == "glocations+flank":
        n = rng.choice([1, 2, 4])
        cs = [rng.choice(CHROMS) for _ in range(n)]
        return [{"k": "glocations", "sizes": SIZES, "table": {"k": "table", "cls": "LocationEntry", "cols": {"chromosome": _strs(cs), "position": {"k": "ints", "v": [rng.randrange(10, SIZES[c] - 10) for c in cs]}}}},
                py(rng.choice([1, 3, 5]))]
    if kind == "track":
        return [{"k": "track", "sizes": SIZES, "table": _bedgraph(rng)}]
    if kind == "track+gintervals":
        return [{"k": "track", "sizes": SIZES, "table": _bedgraph(rng)}, {"k": "gintervals", "sizes": SIZES, "table": _intervals(rng, sorted_=True)}]
    if kind == "table+mask":
        t = _table(rng)
        n = len(next(iter(t["cols"].values())).get("rows", next(iter(t["cols"].values())).get("v", [])))
        return [t, {"k": "bools", "v": [rng.random() < 0.5 for _ in range(n)]}]
    if kind == "table+slice":
        return [_table(rng), py(rng.choice([0, 1])), py(rng.choice([1, 2, 5]))]
    if kind == "table+ints":
        t = _table(rng)
        n = len(next(iter(t["cols"].values())).get("rows", next(iter(t["cols"].values())).get("v", [])))
        return [t, {"k": "ints", "v": [rng.randrange(max(n, 1)) for _ in range(rng.choice([1, 3]))]}]
    if kind == "two_tables":
        a = _intervals(rng, stranded=rng.random() < 0.5)
        b = _intervals(rng, stranded="strand" in a["cols"])
        return [a, b]
    if kind == "table+newstart":
        t = _intervals(rng)
        return [t, {"k": "ints", "v": [rng.randrange(5) for _ in t["cols"]["start"]["v"]]}]
    if kind == "table1":
        return [_table(rng)]
    if kind == "table+field":
        return [_intervals(rng), py(rng.choice(["start", "stop"]))]
    if kind == "sorted_table+chromfield":
        return [_intervals(rng, sorted_=True), py("chromosome")]
    if kind == "table+suffix":
        t = _table(rng)
        sfx = {"Interval": ".bed", "StrandedInterval": ".bed", "Bed6": ".bed", "SequenceEntry": rng.choice([".fa", ".fa.gz"]), "BedGraph": ".bdg"}[t["cls"]]
        if t["cls"] == "StrandedInterval":
            t = _intervals(rng)
        return [t, py(sfx)]
    if kind == "small_ints+minlength":
        return [{"k": "ints", "v": [rng.randrange(0, 9) for _ in range(rng.choice([1, 4, 9]))]}, py(rng.choice([1, 5, 12]))]
    if kind == "chunk":
        return [file_spec(rng)]
    if kind == "chunks":
        s = file_spec(rng, fmt=rng.choice([f for f in FORMATS if f not in ("bam", "vcf")]))
        s["chunk"] = rng.choice([16, 40, 64, 120])
        s["which"] = "all"
        return [s]
    if kind == "bam_chunk":
        return [file_spec(rng, fmt="bam")]
    # ---- second batch of generators
    if kind == "ragged_ints1":
        return [{"k": "ragged", "rows": [[rng.randrange(0, 50) for _ in range(rng.choice([0, 1, 2, 4]))] for _ in range(rng.choice([1, 2, 4]))]}]
    if kind == "ragged_ints+index":
        rows = [[rng.randrange(0, 50) for _ in range(rng.choice([0, 1, 2, 4]))] for _ in range(rng.choice([2, 3, 5]))]
        idx = rng.choice([{"k": "bools", "v": [rng.random() < 0.5 for _ in rows]}, {"k": "ints", "v": [rng.randrange(len(rows)) for _ in range(3)]}, py(0)])
        return [{"k": "ragged", "rows": rows}, idx]
    if kind == "two_ragged_ints":
        return [{"k": "ragged", "rows": [[rng.randrange(9) for _ in range(rng.choice([0, 1, 3]))] for _ in range(rng.choice([1, 2]))]} for _ in range(2)]
    if kind == "chrom_names":
        return [_strs([rng.choice(CHROMS) for _ in range(rng.choice([1, 2, 5]))])]
    if kind == "pwm_dict":
        L = rng.choice([1, 2, 3])
        return [{"k": "dict", "v": {a: [rng.choice([1, 2, 4, 7]) for _ in range(L)] for a in "ACGT"}}]
    if kind == "dna_enc+pattern":
        return [_strs([_dna(rng, rng.choice([3, 5, 9])) for _ in range(rng.choice([1, 2, 4]))], "DNA"), py(_dna(rng, rng.choice([1, 2, 3])) or "A")]
    if kind == "dna_enc+regex":
        return [_strs([_dna(rng, rng.choice([4, 6, 9])) for _ in range(rng.choice([1, 2, 4]))], "DNA"), py(rng.choice(["AC", "A[CG]T", "G.A", "[AT][AT]"]))]
    if kind == "dna_enc+weights":
        rows = [_dna(rng, rng.choice([1, 3, 5])) for _ in range(rng.choice([1, 2, 3]))]
        return [_strs(rows, "DNA"), {"k": "floats", "v": [rng.choice([0.5, 1.0, 2.0]) for _ in range(sum(map(len, rows)))]}]
    if kind in ("refseq+intervals", "refseq+stranded_intervals"):
        n = rng.choice([1, 2, 4])
        a = [rng.randrange(0, 20) for _ in range(n)]
        cols = {"chromosome": _strs(["chr1"] * n), "start": {"k": "ints", "v": a}, "stop": {"k": "ints", "v": [x + rng.randrange(1, 9) for x in a]}}
        cls = "Interval"
        if kind.endswith("stranded_intervals"):
            cols["strand"] = _strs([rng.choice("+-") for _ in range(n)])
            cls = "StrandedInterval"
        return [{"k": "str", "s": _dna(rng, 30), "enc": "DNA"}, {"k": "table", "cls": cls, "cols": cols}]
    if kind == "small_n":
        return [py(rng.choice([1, 4, 9]))]
    if kind == "intervals+n":
        return [_intervals(rng), py(rng.choice([1, 5, 20]))]
    if kind == "bedgraph_int":
        t = _bedgraph(rng)
        t["cols"]["value"] = {"k": "ints", "v": [rng.randrange(0, 5) for _ in t["cols"]["start"]["v"]]}
        return [t]
    if kind == "sorted_tables_list":
        return [{"k": "list", "items": [_intervals(rng, sorted_=True, one_chrom=True) for _ in range(rng.choice([1, 2, 3]))]}]
    if kind == "sorted_tables_list+n":
        return [{"k": "list", "items": [_intervals(rng, sorted_=True, one_chrom=True) for _ in range(rng.choice([1, 2, 3]))]}, py(rng.choice([1, 2, 3, 7]))]
    if kind == "chr_bed6+size":
        t = _intervals(rng, one_chrom=True, stranded=True, cls="Bed6")
        n = len(t["cols"]["start"]["v"])
        strand = t["cols"].pop("strand")
        t["cols"]["name"] = _strs([f"n{i}" for i in range(n)])
        t["cols"]["score"] = {"k": "ints", "v": [rng.randrange(100) for _ in range(n)]}
        t["cols"]["strand"] = strand
        return [t, py(100)]
    if kind == "interval_tuples":
        return [py([[rng.choice(CHROMS), rng.randrange(0, 9), rng.randrange(10, 30)] for _ in range(rng.choice([1, 2, 4]))])]
    if kind == "single_interval":
        return [py(rng.choice(CHROMS)), py(rng.randrange(0, 9)), py(rng.randrange(10, 30))]
    if kind == "table_with_start":
        return [rng.choice([_intervals(rng), _intervals(rng, stranded=True), _bedgraph(rng)])]
    if kind == "bed6_table":
        return [gen_args("chr_bed6+size", rng)[0]]
    if kind == "bedgraph1":
        return [_bedgraph(rng)]
    if kind == "seq_table":
        n = rng.choice([1, 2, 4])
        return [{"k": "table", "cls": "SequenceEntry", "cols": {"name": _strs([f"s{i}" for i in range(n)]), "sequence": _strs([_dna(rng, rng.choice([1, 3, 7, 90])) for _ in range(n)])}}]
    if kind == "fastq_table":
        n = rng.choice([1, 2, 4])
        seqs = [_dna(rng, rng.choice([1, 3, 7])) for _ in range(n)]
        return [{"k": "table", "cls": "SequenceEntryWithQuality", "cols": {"name": _strs([f"q{i}" for i in range(n)]), "sequence": _strs(seqs),
                 "quality": {"k": "ragged", "rows": [[rng.randrange(0, 40) for _ in s] for s in seqs]}}}]
    if kind in ("narrowpeak_table", "gff_table", "vcf_table", "sam_table", "bed12_table", "sizes_table"):
        fmt = {"narrowpeak_table": "narrowPeak", "gff_table": "gff", "vcf_table": "vcf", "sam_table": "sam", "bed12_table": "bed", "sizes_table": "sizes"}[kind]
        for _ in range(50):
            sp = file_spec(rng, fmt)
            if fmt == "bed" and sp.get("buffer") != "Bed12Buffer":
                continue
            if fmt == "vcf" and sp.get("buffer"):
                continue
            if fmt == "vcf":
                sp["buffer"] = "VCFWithInfoAsStringBuffer"
            sp.pop("chunk", None)
            sp["eager"] = True
            return [sp]
    if kind == "small_int_arrays":
        return [{"k": "list", "items": [{"k": "ints", "v": [rng.randrange(0, 9) for _ in range(rng.choice([1, 4, 9]))]} for _ in range(rng.choice([1, 2, 3]))]}]
    if kind == "float_arrays":
        return [{"k": "list", "items": [{"k": "floats", "v": [rng.choice([0.0, 1.5, -2.0, 8.25]) for _ in range(rng.choice([1, 4]))]} for _ in range(rng.choice([1, 2, 3]))]}]
    if kind == "path":
        sp = file_spec(rng, fmt=rng.choice([f for f in FORMATS if f != "bam"]))
        sp.pop("chunk", None)
        sp["k"] = "path"
        if sp.get("buffer"):
            sp = file_spec(rng, fmt=rng.choice(["bdg", "narrowPeak", "gff", "sam", "fq", "sizes", "pairs"]))
            sp.pop("chunk", None)
            sp["k"] = "path"
        return [sp]
    if kind in ("fasta_path", "fasta_path+intervals"):
        lines = []
        for c in ["chr1", "chr2"]:
            s = _dna(rng, rng.choice([12, 25, 31]))
            lines.append(">" + c)
            lines += [s[j:j + 10] for j in range(0, len(s), 10)]
        p = {"k": "path", "fmt": "fa", "text": "\n".join(lines) + "\n"}
        if kind == "fasta_path":
            return [p]
        n = rng.choice([1, 2, 3])
        a = [rng.randrange(0, 6) for _ in range(n)]
        return [p, {"k": "table", "cls": "Interval", "cols": {"chromosome": _strs([rng.choice(["chr1", "chr2"]) for _ in range(n)]), "start": {"k": "ints", "v": a},
                                                              "stop": {"k": "ints", "v": [x + rng.randrange(1, 6) for x in a]}}}]
    if kind == "matrix_text":
        return [{"k": "str", "s": "a\tb\n" + "".join(f"{rng.choice(['1.5', '-2', '3e2', '0.25'])}\t{rng.choice(['1', '2.5', '-1e-1'])}\n" for _ in range(rng.choice([1, 2, 3])))}]
    if kind == "matrix2":
        return [{"k": "floats2", "v": [[rng.choice([1.5, -2.0, 0.25]), rng.choice([1.0, 2.5])] for _ in range(rng.choice([1, 2, 3]))]}]
    if kind == "matrix_path":
        return [{"k": "path", "fmt": "tsv", "text": "a\tb\n" + "".join(f"{rng.choice(['1.5', '-2', '3e2'])}\t{rng.choice(['1', '2.5'])}\n" for _ in range(rng.choice([1, 2, 3])))}]
    if kind == "jaspar_path":
        L = rng.choice([2, 3, 4])
        body = ">MA0001.1 test\n" + "".join(f"{a}  [ " + " ".join(str(rng.randrange(1, 20)) for _ in range(L)) + " ]\n" for a in "ACGT")
        return [{"k": "path", "fmt": "jaspar", "text": body}]
    if kind == "sizes_path":
        return [{"k": "path", "fmt": "sizes", "text": "".join(f"{c}\t{SIZES[c]}\n" for c in CHROMS)}]
    if kind in ("genome+bed_path", "genome+bdg_path", "genome+gtf_path"):
        rows = sorted((rng.choice(CHROMS), rng.randrange(0, 20)) for _ in range(rng.choice([1, 2, 4])))
        rows.sort(key=lambda r: (CHROMS.index(r[0]), r[1]))
        if kind == "genome+bed_path":
            text = "".join(f"{c}\t{a}\t{a + rng.randrange(1, 9)}\n" for c, a in rows)
            return [{"k": "genome", "sizes": SIZES}, {"k": "path", "fmt": "bed", "text": text}]
        if kind == "genome+bdg_path":
            t = _bedgraph(rng)["cols"]
            text = "".join(f"{c}\t{a}\t{b}\t{v}\n" for c, a, b, v in zip(t["chromosome"]["rows"], t["start"]["v"], t["stop"]["v"], t["value"]["v"]))
            return [{"k": "genome", "sizes": SIZES}, {"k": "path", "fmt": "bdg", "text": text}]
        lines = []
        for c, a in rows:
            for ft in ("gene", "transcript", "exon"):
                lines.append("\t".join([c, "src", ft, str(a + 1), str(a + 9), ".", rng.choice("+-"), ".", 'gene_id "g%d"; transcript_id "t%d"; exon_id "e%d";' % (a, a, a)]))
        return [{"k": "genome", "sizes": SIZES}, {"k": "path", "fmt": "gtf", "text": "\n".join(lines) + "\n"}]
    if kind == "genome+fasta_path+gintervals":
        text = "".join(f">{c}\n" + _dna(rng, SIZES[c]) + "\n" for c in CHROMS)
        return [{"k": "genome", "sizes": SIZES}, {"k": "path", "fmt": "fa", "text": text}, {"k": "gintervals", "sizes": SIZES, "table": _intervals(rng, sorted_=True)}]
    if kind == "genome+vcf_path":
        rows = sorted((rng.choice(CHROMS), rng.randrange(1, 20)) for _ in range(rng.choice([1, 2, 4])))
        rows.sort(key=lambda r: (CHROMS.index(r[0]), r[1]))
        text = "##fileformat=VCFv4.2\n#CHROM\tPOS\tID\tREF\tALT\tQUAL\tFILTER\tINFO\n" + "".join(f"{c}\t{a}\t.\tA\tC\t.\t.\t.\n" for c, a in rows)
        return [{"k": "genome", "sizes": SIZES}, {"k": "path", "fmt": "vcf", "text": text}]
    if kind == "codon_entries_list":
        return [{"k": "list", "items": [gen_args("codon_entries", rng)[0] for _ in range(rng.choice([1, 2, 3]))]}]
    if kind == "bam_chunks_list":
        return [{"k": "list", "items": [file_spec(rng, fmt="bam") for _ in range(rng.choice([1, 2]))]}]
    if kind == "two_ragged_same_rows":
        rows = [_word(rng) for _ in range(rng.choice([1, 2, 4]))]
        other = [r if rng.random() < 0.6 else _word(rng) for r in rows]
        return [_strs(rows), _strs(other)]
    if kind == "flat_text_seps":
        return [{"k": "str", "s": "".join(_word(rng).replace(",", "").replace(";", "") + rng.choice(",;") for _ in range(rng.choice([1, 2, 4])))}]
    if kind == "ragged_bits":
        return [{"k": "ragged", "rows": [[rng.randrange(2) for _ in range(rng.choice([1, 2, 4]))] for _ in range(rng.choice([1, 2, 4]))]}]
    if kind == "flat_dna_enc1":
        return [{"k": "str", "s": _dna(rng, rng.choice([1, 4, 9, 12])), "enc": "DNA"}]
    if kind == "flat_dna_base1":
        return [{"k": "str", "s": _dna(rng, rng.choice([1, 4, 9, 12]), alphabet="ACGTNacgtn")}]
    if kind == "flat_dna_enc+k":
        return [{"k": "str", "s": _dna(rng, rng.choice([4, 9, 12])), "enc": "DNA"}, py(rng.choice([1, 2, 3]))]
    if kind == "chunk+numfn":
        return [file_spec(rng, fmt=rng.choice(["vcf", "vcf", "bed", "tsv", "gff", "gtf", "narrowPeak", "sam", "pairs"] + FORMATS)), py(rng.choice(NUMFNS))]
    if kind == "chunk+col+fn":
        return [file_spec(rng), py(rng.randrange(6)), py(rng.choice(["none", "none", "slice", "mask", "ints"])), py(rng.choice(TEXTFNS))]
    if kind in ("sizes_dict+names", "sizes_dict_u", "genome_u+names", "genome_u+names+intervals", "genome_u+intervals"):
        extra = {"chrUn_1": 7, "chrEBV": 9, "chr1_alt": 4, "chrM": 16}
        sizes = dict(SIZES, **{k: v for k, v in extra.items() if rng.random() < 0.7})
        pool = list(extra) + ["chrUn_x", "chrX"]
        names = {"k": "py", "v": rng.sample(pool, rng.choice([0, 1, 2, 3]))}
        if kind == "sizes_dict_u":
            return [{"k": "dict", "v": sizes}]
        if kind == "sizes_dict+names":
            return [{"k": "dict", "v": sizes}, names]
        if kind == "genome_u+names":
            return [{"k": "genome", "sizes": sizes}, names]
        if kind == "genome_u+intervals":
            return [{"k": "genome", "sizes": sizes}, _intervals(rng)]
        return [{"k": "genome", "sizes": sizes}, names, _intervals(rng, sorted_=True)]
    if kind == "chunk+sel+field":
        return [file_spec(rng, fmt=rng.choice(["bam", "bam"] + FORMATS)), py(rng.choice(["mask", "ints", "slice"])), py(rng.randrange(12))]
    if kind == "chunk+field":
        return [file_spec(rng), py(rng.randrange(12)), py(rng.random() < 0.5)]
    if kind == "chunk+program":
        ops = ["fields", "first_field", "slice", "head", "mask", "ints", "concat_self", "replace", "write", "data_object", "back",
               "reread", "replace_same", "reread", "todict", "topandas", "repr", "iter", "roundtrip_dict", "slice_setattr", "slice_setattr",
               "write_as"]
        return [file_spec(rng), py([rng.choice(ops) for _ in range(rng.choice([2, 3, 4, 6]))])]
    if kind in ("gintervals_oob", "gintervals_oob+len"):
        n = rng.choice([1, 2, 3, 5])
        rows = []
        for _ in range(n):
            c = rng.choice(CHROMS)
            a = rng.randrange(0, SIZES[c])
            rows.append((c, a, a + rng.choice([1, 5, SIZES[c], 2 * SIZES[c]])))
        rows.sort(key=lambda r: (CHROMS.index(r[0]), r[1], r[2]))
        stranded = kind.endswith("+len")
        cols = {"chromosome": _strs([r[0] for r in rows]), "start": {"k": "ints", "v": [r[1] for r in rows]}, "stop": {"k": "ints", "v": [r[2] for r in rows]}}
        if stranded:
            cols["strand"] = _strs([rng.choice("+-") for _ in rows])
        g = {"k": "gintervals", "sizes": SIZES, "table": {"k": "table", "cls": "StrandedInterval" if stranded else "Interval", "cols": cols}, "stranded": stranded}
        return [g, py(rng.choice([1, 7, 30]))] if stranded else [g]
    if kind == "genome1":
        return [{"k": "genome", "sizes": SIZES}]
    if kind == "gintervals_stranded+len0":
        return [{"k": "gintervals", "sizes": SIZES, "table": _intervals(rng, sorted_=True, stranded=True), "stranded": True}]
    if kind == "genome+dense_dict":
        return [{"k": "genome", "sizes": SIZES}, {"k": "dict", "v": {c: {"k": "ints", "v": [rng.randrange(0, 4) for _ in range(SIZES[c])]} for c in CHROMS}}]
    if kind == "track+glocations":
        n = rng.choice([1, 2, 4])
        cs = [rng.choice(CHROMS) for _ in range(n)]
        return [{"k": "track", "sizes": SIZES, "table": _bedgraph(rng)},
                {"k": "glocations", "sizes": SIZES, "table": {"k": "table", "cls": "LocationEntry", "cols": {"chromosome": _strs(cs), "position": {"k": "ints", "v": [rng.randrange(5, SIZES[c] - 5) for c in cs]}}}}]
    if kind == "genome+glocations":
        n = rng.choice([1, 2, 4])
        cs = [rng.choice(CHROMS) for _ in range(n)]
        return [{"k": "genome", "sizes": SIZES},
                {"k": "glocations", "sizes": SIZES, "table": {"k": "table", "cls": "LocationEntry", "cols": {"chromosome": _strs(cs), "position": {"k": "ints", "v": [rng.randrange(0, SIZES[c]) for c in cs]}}}}]
    if kind in ("genome+bed6_chunk", "genome+bdg_chunk"):
        for _ in range(100):
            sp = file_spec(rng, "bed" if kind == "genome+bed6_chunk" else "bdg")
            if kind == "genome+bed6_chunk" and sp.get("buffer") != "Bed6Buffer":
                continue
            return [{"k": "genome", "sizes": {c: 200 for c in CHROMS}}, sp]
    if kind in ("flatseq+snps", "seqentries+snps", "snps+flatseq"):
        seq = _dna(rng, 20)
        pos = sorted(rng.sample(range(20), rng.choice([1, 2, 4])))
        snps = {"k": "table", "cls": "SNP", "cols": {"chromosome": _strs(["chr1"] * len(pos)), "position": {"k": "ints", "v": pos},
                                                   "ref_seq": _strs([seq[p] for p in pos]), "alt_seq": _strs([rng.choice("ACGT") for _ in pos])}}
        if kind == "flatseq+snps":
            return [{"k": "str", "s": seq, "enc": "DNA"}, snps]
        if kind == "snps+flatseq":
            return [snps, {"k": "str", "s": seq, "enc": "DNA"}]
        return [{"k": "table", "cls": "SequenceEntry", "cols": {"name": _strs(["chr1"]), "sequence": _strs([seq])}}, snps]
    if kind == "two_int_arrays":
        n = rng.choice([1, 3, 5])
        return [{"k": "ints", "v": _ints(rng, n)}, {"k": "ints", "v": _ints(rng, n)}]
    raise KeyError(kind)


# ------------------------------------------------------------------ cases / impl / oracle

def cases(tier, rng):
    big = tier in ("thorough", "widen")
    R = registry()
    per = 250 if big else 20
    for name, (fn, kinds) in R.items():
        for kind in kinds:
            reps = per * (4 if kind in ("chunk", "chunks") else 8 if kind in ("chunk+program", "chunk+col+fn", "chunk+field", "chunk+sel+field", "chunk+numfn") else 1)
            for _ in range(reps):
                a1 = gen_args(kind, rng)
                variant = rng.choice(["plain", "plain", "views", "fresh:slice", "fresh:mask", "fresh:ints", "readonly", "empty", "edge", "edge"])
                if variant == "edge":
                    # arguments just outside the function's precondition (calls that raise must leave their arguments alone too)
                    j = rng.randrange(len(a1))
                    a1 = [edge_spec(a, rng) if (i == j or rng.random() < 0.3) else a for i, a in enumerate(a1)]
                yield {"op": "call", "fn": name, "gen": kind, "args": a1,
                       "args2": [same_shape_spec(x) for x in a1] if rng.random() < 0.6 else gen_args(kind, rng),
                       "variant": variant}
    # ANOTHER SPELLING of the same text (case, '+', leading zeros, blanks, exponent marker E/e/D/d, exponent on a plain number,
    # digit grouping, decimal comma, base prefix, spellings of "missing"): a call that refuses the spelling — or one day accepts
    # it — leaves the caller's text as it is. Dense for the text->number functions (plain arrays, views of a larger base, and the
    # text columns of lazily read chunks), a few for every other callable that takes text
    def texty(a):
        return isinstance(a, dict) and (a.get("k") in ("strs", "str", "file", "path", "gintervals", "glocations", "track") or
                                        (a.get("k") == "table" and any(isinstance(c, dict) and c.get("k") == "strs" for c in a["cols"].values())) or
                                        (a.get("k") == "list" and any(texty(x) for x in a["items"])))
    dense = {"str_to_int", "str_to_float", "str_to_int_with_missing", "str_to_float_with_missing", "numfn(every text column of a chunk)",
             "textfn(chunk column)"}
    for name, (fn, kinds) in R.items():
        for kind in kinds:
            reps = ((250 if big else 40) * (3 if kind.startswith("chunk") else 1)) if name in dense else (8 if big else 1)
            for _ in range(reps):
                a1 = gen_args(kind, rng)
                idx = [i for i, a in enumerate(a1) if texty(a)]
                if not idx:
                    break
                must = rng.choice(idx)
                a2 = [respell_spec(a, rng) if (i == must or (i in idx and rng.random() < 0.3)) else a for i, a in enumerate(a1)]
                if a2 == a1:
                    continue
                c = {"op": "call", "fn": name, "gen": kind, "args": a2, "variant": "edge", "respelt": True}
                if rng.random() < 0.3:
                    c["views"] = True
                yield c
    # routines that are also executed in the Lean heap model
    for _ in range(200 if big else 40):
        yield {"op": "m_str_to_int", "rows": [_int_str(rng) for _ in range(rng.choice([1, 2, 3, 6]))]}
    for _ in range(200 if big else 40):
        n = rng.choice([1, 2, 3, 5, 8])
        starts = sorted(rng.randrange(0, 60) for _ in range(n))
        stops = [s + rng.randrange(1, 30) for s in starts]
        yield {"op": "m_merge", "start": starts, "stop": stops, "d": rng.choice([0, 0, 1, 5])}
    for _ in range(200 if big else 40):
        rows = [_int_str(rng) for _ in range(rng.choice([2, 3, 5, 6]))]
        lo = rng.randrange(0, len(rows) - 1)
        yield {"op": "m_fresh", "rows": rows, "lo": lo, "hi": rng.randrange(lo + 1, len(rows) + 1)}
    for _ in range(100 if big else 20):
        yield {"op": "m_bincount", "a": [rng.randrange(0, 6) for _ in range(rng.choice([1, 3, 6]))],
               "b": [rng.randrange(0, 9) for _ in range(rng.choice([1, 3, 6]))]}


def _special(x):
    s = core.canon(x)
    return any(t in s for t in ('"-', "+", "e", '"."', ",", "|", "/", "\\r", '"gz":true', '"chunk"', '""', "strand"))


def nontrivial(c):
    if c["op"] != "call":
        return True
    return _special(c["args"])


def viewify(a):
    """(view, base): the same value as `a`, but as a basic-slice VIEW of a twice as large object"""
    from bionumpy.encoded_array import EncodedArray, EncodedRaggedArray
    from bionumpy.bnpdataclass import BNPDataClass
    from npstructures import RaggedArray
    if _is_lazy(a) or not isinstance(a, (np.ndarray, EncodedArray, EncodedRaggedArray, RaggedArray, BNPDataClass)):
        return a, None
    try:
        n = len(a)
        if n == 0 or (isinstance(a, (np.ndarray, EncodedArray)) and a.ndim == 0):
            return a, None
        base = np.concatenate([a, a])
        view = base[:n]
        if digest(snap(view)) != digest(snap(a)):
            return a, None
        return view, base
    except Exception:
        return a, None


def fresh_view(a, sel):
    """(view, base): `a` as a FRESH, not yet materialised row selection (slice / boolean mask / integer list) of a larger
    parent. Nothing is computed on the view here: the parent is snapshotted by the caller BEFORE the view exists and the
    expected contents of the view are those of `a` itself (an independent object)."""
    from bionumpy.encoded_array import EncodedArray, EncodedRaggedArray
    from bionumpy.bnpdataclass import BNPDataClass
    from npstructures import RaggedArray
    if _is_lazy(a) or not isinstance(a, (np.ndarray, EncodedArray, EncodedRaggedArray, RaggedArray, BNPDataClass)):
        return None
    try:
        n = len(a)
        if n == 0 or (isinstance(a, (np.ndarray, EncodedArray)) and a.ndim == 0):
            return None
        base = np.concatenate([a[n - 1:], a, a[:1]])
    except Exception:
        return None

    def make():
        if sel == "slice":
            return base[1:1 + n]
        if sel == "mask":
            m = np.zeros(n + 2, dtype=bool)
            m[1:1 + n] = True
            return base[m]
        return base[list(range(1, 1 + n))]
    return make, base


_SWAP = str.maketrans("ACGTacgt1234", "CATGcatg2143")


def same_shape_spec(s):
    """an argument of exactly the same shape with other contents (for the history check: a shared output buffer is only
    overwritten in place by a result of the same shape)"""
    if not isinstance(s, dict):
        return s
    k = s.get("k")
    if k == "strs":
        return dict(s, rows=[r.translate(_SWAP) for r in s["rows"]])
    if k == "str":
        return dict(s, s=s["s"].translate(_SWAP))
    if k in ("ints", "floats", "bools"):
        return dict(s, v=list(reversed(s["v"])))
    if k == "ragged":
        return dict(s, rows=[[x + 1 for x in r] for r in s["rows"]])
    if k == "list":
        return dict(s, items=[same_shape_spec(x) for x in s["items"]])
    if k == "table":
        return dict(s, cols={n: (same_shape_spec(c) if n in ("sequence", "name", "score", "value") else c) for n, c in s["cols"].items()})
    return s


def edge_spec(s, rng):
    """the same argument pushed just OUTSIDE what the functions usually accept (or onto an extreme): a call may raise on it — it
    must still leave every argument as it was"""
    if not isinstance(s, dict):
        return s
    k = s.get("k")
    if k in ("strs", "str") and rng.random() < 0.4:
        # another spelling of the same value (upper-case exponent, explicit '+', leading zeros, blanks, ...): refused or accepted,
        # the caller's text stays as it is
        r = respell_spec(s, rng, p=0.3)
        if r != s:
            return r
    if k == "strs" and s["rows"]:
        rows = list(s["rows"])
        i = rng.randrange(len(rows))
        rows[i] = rng.choice([rows[i] + "x", "", "-", "+", rows[i] + ".", "1e", rows[i][:1] + "\x00" + rows[i][1:], rows[i] + "é", "N" + rows[i], rows[i] * 3])
        return dict(s, rows=rows)
    if k == "str":
        return dict(s, s=rng.choice([s["s"] + "x", "", s["s"] + "\n", "é" + s["s"], s["s"][::-1] + ",,"]))
    if k == "ints":
        v = list(s["v"])
        how = rng.choice(["neg", "big", "extra", "zero", "drop"])
        if how == "extra" or not v:
            v = v + [rng.choice([0, -1, 7])]
        elif how == "drop":
            v = v[:-1]
        else:
            v[rng.randrange(len(v))] = {"neg": -rng.choice([1, 5, 10 ** 6]), "big": rng.choice([10 ** 6, 10 ** 6 + 7]), "zero": 0}[how]
        return dict(s, v=v)
    if k == "floats":
        v = list(s["v"])
        if v:
            v[rng.randrange(len(v))] = rng.choice([float("nan"), float("inf"), -float("inf"), -0.0, 1e308])
        return dict(s, v=v)
    if k == "bools":
        v = list(s["v"])
        return dict(s, v=(v + [True]) if rng.random() < 0.5 else v[:-1])
    if k == "ragged" and s["rows"]:
        rows = [list(r) for r in s["rows"]]
        i = rng.randrange(len(rows))
        rows[i] = rng.choice([[], rows[i] + [-1], rows[i] + [10 ** 6]])
        return dict(s, rows=rows)
    if k == "list":
        return dict(s, items=[edge_spec(x, rng) if rng.random() < 0.5 else x for x in s["items"]])
    if k == "table" and "start" in s["cols"] and "stop" in s["cols"] and s["cols"]["start"]["v"]:
        cols = {n: dict(c) for n, c in s["cols"].items()}
        st, sp = list(cols["start"]["v"]), list(cols["stop"]["v"])
        i = rng.randrange(len(st))
        how = rng.choice(["overhang", "overhang", "swap", "negative", "unsorted", "unknown_chrom", "empty_interval"])
        if how == "overhang":
            sp[i] = sp[i] + rng.choice([1, 5, 1000])      # (values stay small: an extreme like 2**63-1 makes np.bincount itself corrupt the heap)
        elif how == "swap":
            st[i], sp[i] = sp[i], st[i]
        elif how == "negative":
            st[i] = -rng.choice([1, 3])
        elif how == "unsorted":
            st, sp = st[::-1], sp[::-1]
            for n, c in cols.items():
                if n not in ("start", "stop") and "rows" in c:
                    c["rows"] = list(c["rows"])[::-1]
                elif n not in ("start", "stop") and "v" in c:
                    c["v"] = list(c["v"])[::-1]
        elif how == "unknown_chrom" and "chromosome" in cols:
            rows = list(cols["chromosome"]["rows"]); rows[i] = "chrZ"; cols["chromosome"]["rows"] = rows
        else:
            sp[i] = st[i]
        cols["start"]["v"], cols["stop"]["v"] = st, sp
        return dict(s, cols=cols)
    if k == "table":
        cols = dict(s["cols"])
        name = rng.choice(list(cols))
        cols[name] = edge_spec(cols[name], rng)     # also makes columns of different lengths
        return dict(s, cols=cols)
    if k in ("gintervals", "glocations", "track"):
        return dict(s, table=edge_spec(s["table"], rng))
    if k == "genome":
        return dict(s, sizes=dict(s["sizes"], **{rng.choice(list(s["sizes"])): rng.choice([0, 1])}))
    if k == "dict":
        return dict(s, v={kk: (edge_spec(v, rng) if isinstance(v, dict) and "k" in v else rng.choice([v, 0, -1])) for kk, v in s["v"].items()})
    if k == "py":
        v = s["v"]
        if isinstance(v, bool):
            return s
        if isinstance(v, int):
            return dict(s, v=rng.choice([0, -1, v + 1000, 10 ** 6]))
        if isinstance(v, str):
            return dict(s, v=rng.choice(["", v + "x", "é", v * 2] + respellings(v)[:6]))
        if isinstance(v, list) and v:
            return dict(s, v=v + [v[0]] if rng.random() < 0.5 else v[:-1])
        return s
    if k in ("file", "path") and s.get("fmt") != "bam" and s.get("text"):
        if rng.random() < 0.3:
            r = respell_spec(s, rng)
            if r != s:
                return r
        lines = s["text"].split("\n")
        body = [i for i, l in enumerate(lines) if l and not l.startswith(("#", "@", ">", "+"))]
        if body:
            i = rng.choice(body)
            cells = lines[i].split("\t")
            how = rng.choice(["dropcol", "badnum", "blank", "addcol", "highbyte"])
            if how == "dropcol" and len(cells) > 1:
                cells = cells[:-1]
            elif how == "badnum":
                j = rng.randrange(len(cells)); cells[j] = cells[j] + "x"
            elif how == "addcol":
                cells = cells + ["extra"]
            elif how == "highbyte":
                j = rng.randrange(len(cells)); cells[j] = cells[j] + "é"
            lines[i] = "\t".join(cells)
            if how == "blank":
                lines.insert(i, "")
        return dict(s, text="\n".join(lines))
    return s


def empty_spec(s):
    """the same argument with zero rows"""
    if not isinstance(s, dict):
        return s
    k = s.get("k")
    if k == "strs":
        return dict(s, rows=[])
    if k == "str":
        return dict(s, s="")
    if k in ("ints", "floats", "bools"):
        return dict(s, v=[])
    if k == "ragged":
        return dict(s, rows=[])
    if k == "list":
        return dict(s, items=[empty_spec(x) for x in s["items"]])
    if k == "table":
        return dict(s, cols={n: empty_spec(c) for n, c in s["cols"].items()})
    if k in ("gintervals", "glocations", "track"):
        return dict(s, table=empty_spec(s["table"]))
    if k in ("file", "path") and s.get("fmt") != "bam":
        keep = [l for l in s["text"].split("\n") if l.startswith(("##", "#CHROM", "@HD", "@SQ"))]
        return dict(s, text="".join(l + "\n" for l in keep))
    if k in ("file", "path"):
        return dict(s, recs=[])
    return s


def _leaf_arrays(x, depth=0):
    """the NumPy arrays an argument is made of"""
    from bionumpy.encoded_array import EncodedArray
    from bionumpy.bnpdataclass import BNPDataClass
    from npstructures import RaggedArray
    if depth > 6 or _is_lazy(x):
        return
    if isinstance(x, np.ndarray):
        yield x
    elif isinstance(x, RaggedArray):
        d = x.ravel()
        yield from _leaf_arrays(d, depth + 1)
    elif isinstance(x, EncodedArray):
        yield from _leaf_arrays(x.raw(), depth + 1)
    elif isinstance(x, BNPDataClass):
        for f in dataclasses.fields(x):
            yield from _leaf_arrays(getattr(x, f.name), depth + 1)
    elif isinstance(x, (list, tuple)):
        for v in x:
            yield from _leaf_arrays(v, depth + 1)
    elif hasattr(x, "raw") and type(x).__name__ == "StringArray":
        yield from _leaf_arrays(x.raw(), depth + 1)


def observe(fn, specs, views=False, variant=None, specs2=None):
    """build the arguments (and a twin), snapshot, call twice, snapshot; returns the observation"""
    try:
        return _observe(fn, specs, views, variant, specs2)
    finally:
        _cleanup_paths()


def _observe(fn, specs, views, variant, specs2=None):
    import contextlib
    with contextlib.redirect_stdout(open(os.devnull, "w")):
        if variant and variant.startswith("fresh"):
            return _observe_fresh(fn, specs, variant.split(":")[1] if ":" in variant else "slice")
        out = _observe0(fn, specs, views, variant)
        if specs2 is not None and variant in (None, "plain", "edge") and "unbuildable" not in out and "raised" not in out:
            for h in (_history(fn, specs, specs2), _receiver_history(fn, specs, specs2)):
                if h:
                    out["mutated"] = sorted(set(out["mutated"]) | {h})
        return out


def _receiver_history(fn, specs, specs2):
    """state kept in the first argument (the receiver of a method): after fn(recv, rest1) the call fn(recv, rest2) must return what
    fn(fresh_recv, rest2) returns — a pure operation does not depend on what was asked of the object before"""
    if len(specs) < 2 or len(specs) != len(specs2):
        return None
    try:
        recv = build(specs[0])
        fn(recv, *[build(s) for s in specs[1:]])
        second = digest(snap(fn(recv, *[build(s) for s in specs2[1:]]), result=True))
        ref = digest(snap(fn(build(specs[0]), *[build(s) for s in specs2[1:]]), result=True))
    except Exception:
        return None
    return None if second == ref else "result-depends-on-an-earlier-call-on-the-same-object"


def _history(fn, specs, specs2):
    """the result of a call must read the same after a LATER call of the same function on other arguments"""
    try:
        args = [build(s) for s in specs]
        r1 = fn(*args)
        d1 = digest(snap(r1, result=True))
        args2 = [build(s) for s in specs2]
        r2 = fn(*args2)
        d2 = digest(snap(r2, result=True))
    except Exception:
        return None
    if digest(snap(r1, result=True)) != d1:
        return "result-changed-after-a-later-call-of-the-same-function"
    if digest(snap(r2, result=True)) != d2:
        return "result-not-stable"
    return None


def _observe_fresh(fn, specs, sel):
    """arguments passed as fresh, unmaterialised row selections of a parent: nothing touches the selection before the call"""
    try:
        originals = [build(s) for s in specs]
    except Exception as e:
        return {"unbuildable": type(e).__name__}
    expected = [digest(snap(a)) for a in originals]       # independent objects with the contents the selections must keep
    made = [fresh_view(a, sel) for a in originals]
    parent_before = [digest(snap(m[1])) if m else None for m in made]   # parents snapshotted BEFORE the selections exist
    args = [m[0]() if m else a for m, a in zip(made, originals)]
    res, mutated = [], set()
    for rep in range(2):
        try:
            r = fn(*args)
            res.append(("ok", digest(snap(r, result=True))))
        except Unknown:
            raise
        except Changed as e:
            mutated.add(str(e))
            res.append(("changed",))
        except Exception as e:
            # npstructures' row access `int(view.starts)` raises under NumPy 2 for view-shaped ragged arrays, i.e. depending on
            # whether a column is cached: an incompatibility of the installed environment, not a result of the call
            env = isinstance(e, TypeError) and "only 0-dimensional arrays" in str(e)
            res.append(("env",) if env else ("raised", type(e).__name__))
        for i, m in enumerate(made):
            if m and digest(snap(m[1])) != parent_before[i]:
                mutated.add(f"arg{i}:parent-of-selection:call{rep + 1}")
    for i, (a, e) in enumerate(zip(args, expected)):
        try:
            if digest(snap(a)) != e:
                mutated.add(f"arg{i}:selection-contents")
        except Exception:
            mutated.add(f"arg{i}:selection-unreadable")
    out = {"mutated": sorted(mutated), "twice_equal": res[0] == res[1] or ("env",) in res}
    if res[0][0] == "raised":
        out["raised"] = res[0][1]
    return out


def _observe0(fn, specs, views, variant):
    if variant == "empty":
        specs = [empty_spec(s) for s in specs]
    views = views or variant == "views"
    try:
        args = [build(s) for s in specs]
    except Exception as e:      # the arguments could not be constructed: nothing to observe (counted in evidence)
        return {"unbuildable": type(e).__name__}
    bases = []
    if variant == "readonly":
        for a in args:
            for arr in _leaf_arrays(a):
                try:
                    arr.setflags(write=False)
                except ValueError:
                    pass
    if views:
        for i, a in enumerate(args):
            v, b = viewify(a)
            if b is not None:
                args[i] = v
                bases.append((i, b))
    base_before = [digest(snap(b)) for _, b in bases]
    has_lazy = any(_is_lazy(a) or (isinstance(a, list) and any(_is_lazy(v) for v in a)) for a in args)
    before = [digest(snap(a)) for a in args]
    res = []
    mutated = set()
    for rep in range(2):
        try:
            r = fn(*args)
            res.append(("ok", digest(snap(r, result=True))))
        except Unknown:
            raise
        except Changed as e:
            mutated.add(str(e))
            res.append(("changed",))
        except Exception as e:
            # npstructures' row access `int(view.starts)` raises under NumPy 2 for view-shaped ragged arrays, i.e. depending on
            # whether a column is cached: an incompatibility of the installed environment, not a result of the call
            env = isinstance(e, TypeError) and "only 0-dimensional arrays" in str(e)
            res.append(("env",) if env else ("raised", type(e).__name__))
        after = [digest(snap(a)) for a in args]
        for i, (b, a) in enumerate(zip(before, after)):
            if a != b:
                mutated.add(f"arg{i}:call{rep + 1}")
        for (i, base), b in zip(bases, base_before):
            if digest(snap(base)) != b:
                mutated.add(f"arg{i}:base-of-view:call{rep + 1}")
    if has_lazy:
        twins = [build(s) for s in specs]
        for i, (a, t) in enumerate(zip(args, twins)):
            if digest(snap(a, lazy_fields=True)) != digest(snap(t, lazy_fields=True)):
                mutated.add(f"arg{i}:fields-differ-from-untouched-twin")
    out = {"mutated": sorted(mutated), "twice_equal": res[0] == res[1] or ("env",) in res}
    if res[0][0] == "raised":
        out["raised"] = res[0][1]
    return out


def _in_child(thunk, limit=60):
    """run `thunk` in a forked child and return what it returns (JSON-able). Inputs outside a function's precondition can
    take NumPy / npstructures down with the interpreter (np.bincount of 2**63-1 corrupts the heap); a dead pool worker would
    hang the whole check, a dead child is just an outcome."""
    import json as _json
    import select
    r, w = os.pipe()
    pid = os.fork()
    if pid == 0:
        code = 0
        try:
            os.close(r)
            out = _json.dumps(thunk()).encode()
            os.write(w, len(out).to_bytes(8, "little") + out)
        except BaseException:
            code = 1
        finally:
            os._exit(code)
    os.close(w)
    data = b""
    try:
        while True:
            ready, _, _ = select.select([r], [], [], limit)
            if not ready:
                os.kill(pid, 9)
                break
            chunk = os.read(r, 1 << 16)
            if not chunk:
                break
            data += chunk
    finally:
        os.close(r)
        os.waitpid(pid, 0)
    if len(data) >= 8 and len(data) - 8 == int.from_bytes(data[:8], "little"):
        return _json.loads(data[8:].decode())
    return {"unbuildable": "interpreter-crash-or-timeout"}


def impl(c):
    op = c["op"]
    if op == "call":
        fn = registry()[c["fn"]][0]
        try:
            if c.get("variant") == "edge":
                def thunk():
                    try:
                        return observe(fn, c["args"], views=bool(c.get("views")), variant="edge", specs2=c.get("args2"))
                    except Unknown as e:
                        return {"err": "harness:unsnapshotable:" + str(e)}
                return _in_child(thunk)
            return observe(fn, c["args"], views=bool(c.get("views")), variant=c.get("variant"), specs2=c.get("args2"))
        except Unknown as e:
            return {"err": "harness:unsnapshotable:" + str(e)}
    bnp = B()
    from bionumpy.io import strops
    import bionumpy.arithmetics as ar
    if op == "m_str_to_int":
        specs = [_strs(c["rows"])]
        val = []
        o = observe(lambda t: val.append([int(v) for v in strops.str_to_int(t)]) or val[-1], specs)
        return dict(mutated=o["mutated"], twice_equal=o["twice_equal"], value=val[0] if val else None)
    if op == "m_fresh":
        # str_to_int on a FRESH row selection of a text column; the parent is snapshotted before the selection exists and
        # the selection is read only after both calls
        base = build(_strs(c["rows"]))
        parent_before = digest(snap(build(_strs(c["rows"]))))
        sel = base[c["lo"]:c["hi"]]
        mutated, vals = [], []
        for _ in range(2):
            vals.append([int(v) for v in strops.str_to_int(sel)])
        if digest(snap(base)) != parent_before:
            mutated.append("arg0:parent-of-selection")
        if digest(snap(sel)) != digest(snap(build(_strs(c["rows"][c["lo"]:c["hi"]])))):
            mutated.append("arg0:selection-contents")
        return dict(mutated=mutated, twice_equal=vals[0] == vals[1], value=vals[0])
    if op == "m_merge":
        n = len(c["start"])
        specs = [{"k": "table", "cls": "Interval", "cols": {"chromosome": _strs(["chr1"] * n), "start": {"k": "ints", "v": c["start"]},
                                                            "stop": {"k": "ints", "v": c["stop"]}}}]
        val = []

        def f(t):
            m = ar.merge_intervals(t, distance=c["d"])
            val.append([[int(v) for v in m.start], [int(v) for v in m.stop]])
            return m
        o = observe(f, specs)
        return dict(mutated=o["mutated"], twice_equal=o["twice_equal"], value=val[0] if val else None)
    if op == "m_bincount":
        from bionumpy.streams import BnpStream
        specs = [{"k": "ints", "v": c["a"]}, {"k": "ints", "v": c["b"]}]
        val = []

        def f(a, b):
            r = bnp.bincount(BnpStream(iter([a, b])))
            val.append([int(v) for v in r])
            return r
        o = observe(f, specs)
        return dict(mutated=o["mutated"], twice_equal=o["twice_equal"], value=val[0] if val else None)


def live_cases(tier, rng):
    R = registry()
    names = [n for n in R if not n.startswith(("bnp.open(path)", "chunk.program"))]
    for _ in range(3000 if tier in ("thorough", "widen") else 600):
        name = rng.choice(names)
        kind = rng.choice(R[name][1])
        yield {"op": "call", "fn": name, "gen": kind, "args": gen_args(kind, rng), "variant": "plain"}


def impl_live(c):
    """history probe: the result of a call must read the same after a LATER, unrelated call (no shared output buffers)"""
    import contextlib
    fn = registry()[c["fn"]][0]
    try:
        with contextlib.redirect_stdout(open(os.devnull, "w")):
            args = [build(s) for s in c["args"]]
            r = fn(*args)
    finally:
        _cleanup_paths()

    def canon_fn(r, keep=args):
        return {"mutated": [], "twice_equal": True, "result": digest(snap(r, result=True))}
    return r, canon_fn


def _merge_ref(starts, stops, d):
    out = []
    for s, e in zip(starts, stops):
        if out and s <= out[-1][1] + d:
            out[-1][1] = max(out[-1][1], e)
        else:
            out.append([s, e])
    return [[a for a, _ in out], [b for _, b in out]]


def oracle(c):
    op = c["op"]
    if op == "call":
        return {"mutated": [], "twice_equal": True}
    if op == "m_str_to_int":
        return {"mutated": [], "twice_equal": True, "value": [int(r) for r in c["rows"]]}
    if op == "m_fresh":
        return {"mutated": [], "twice_equal": True, "value": [int(r) for r in c["rows"][c["lo"]:c["hi"]]]}
    if op == "m_merge":
        return {"mutated": [], "twice_equal": True, "value": _merge_ref(c["start"], c["stop"], c["d"])}
    if op == "m_bincount":
        n = max(c["a"] + c["b"]) + 1
        return {"mutated": [], "twice_equal": True, "value": [c["a"].count(i) + c["b"].count(i) for i in range(n)]}


def agree(c, got, exp):
    if not isinstance(got, dict) or "err" in got:
        return False
    if "unbuildable" in got:
        # arguments that cannot be constructed observe nothing: tolerated only for the zero-row variant and for the known
        # reader limitation (a gff/gtf file with interior comment lines read with a chunk size below one line); anything
        # else means a whole argument family silently tests nothing and is reported
        chunked_gff = any(isinstance(a, dict) and a.get("fmt") in ("gff", "gtf") and a.get("chunk") for a in c.get("args", []))
        return c.get("variant") in ("empty", "edge") or (got["unbuildable"] == "RuntimeError" and chunked_gff)
    if got.get("mutated") != [] or got.get("twice_equal") is not True:
        return False
    if "value" in exp:
        return got.get("value") == exp["value"]
    return True


def model_request(c):
    if c["op"] == "m_str_to_int":
        return {"op": c["op"], "rows": [list(r.encode()) for r in c["rows"]]}
    if c["op"] == "m_fresh":
        return {"op": c["op"], "rows": [list(r.encode()) for r in c["rows"]], "lo": c["lo"], "hi": c["hi"]}
    return c


def finding_key(c, got, exp):
    name = c.get("fn", c["op"])
    if isinstance(got, dict) and "err" in got:
        return f"{name}:{got['err']}"
    if isinstance(got, dict) and "unbuildable" in got:
        return f"{name}:arguments-could-not-be-built:{got['unbuildable']}"
    if isinstance(got, dict) and got.get("mutated"):
        if all(str(m).startswith("result-depends") for m in got["mutated"]):
            return f"{name}:result-depends-on-earlier-call"
        if all(str(m).startswith("result-") for m in got["mutated"]):
            return f"{name}:result-changed-after-a-later-call"
        return f"{name}:mutates-argument"
    if isinstance(got, dict) and got.get("twice_equal") is False:
        return f"{name}:second-call-differs"
    return f"{name}:wrong-value"


# ------------------------------------------------------------------ Gen/C20.lean: the modelled write sites, probed on the running code

PROBES = [
    ("str_to_int", "str_to_int", [_strs(["-12", "+7", "30"])]),
    ("str_to_float", "str_to_float", [_strs(["-1.5", "2.5e-3", "10"])]),
    ("str_to_float_plain", "str_to_float", [_strs(["-1.5", "2.25", "10"])]),
    ("str_to_float_with_missing", "str_to_float_with_missing", [_strs(["-1.5", ".", "3.25"])]),
    ("list_column", "chunk.fields", [{"k": "file", "fmt": "bed", "gz": False, "buffer": "Bed12Buffer",
                                      "text": "chr1\t1\t9\tn\t0\t+\t1\t9\t0,0,0\t2\t1,2,\t0,3,"}]),
    ("list_column_gz_chunks", "chunk.fields", [{"k": "file", "fmt": "bed", "gz": True, "buffer": "Bed12Buffer", "chunk": 16, "which": 0,
                                                "text": "chr1\t1\t9\tn\t0\t+\t1\t9\t0,0,0\t2\t1,2\t0,3\nchr1\t2\t9\tn\t0\t+\t1\t9\t0,0,0\t1\t4\t0\n"}]),
    ("single_list_column_no_final_newline", "chunk.fields", [{"k": "file", "fmt": "tsv", "gz": False, "buffer": "custom", "cols": ["ints"],
                                                              "text": "10,20,30\n7\n1,2\n400,5"}]),
    ("single_float_list_column_gz_chunks", "chunk.fields", [{"k": "file", "fmt": "tsv", "gz": True, "buffer": "custom", "cols": ["floats"], "chunk": 8,
                                                             "which": 0, "text": "1.5,2e-3\n-7\n0.25,3\n4\n"}]),
    ("GenotypeRowEncoding.encode", "GenotypeRowEncoding.encode", [_strs(["0/1\t1/1\n", "0|0\t./.\n"])]),
    ("PhasedGenotypeRowEncoding.encode", "PhasedGenotypeRowEncoding.encode", [_strs(["0|1\t1|1\n", "0|0\t1|0\n"])]),
    ("genotype_column", "chunk.fields", [{"k": "file", "fmt": "vcf", "gz": False, "buffer": "VCFMatrixBuffer",
                                          "text": "##fileformat=VCFv4.2\n#CHROM\tPOS\tID\tREF\tALT\tQUAL\tFILTER\tINFO\tFORMAT\tS0\tS1\nchr1\t3\t.\tA\tC\t.\t.\t.\tGT\t0|1\t1/1\n"}]),
    ("merge_intervals", "merge_intervals", [{"k": "table", "cls": "Interval", "cols": {"chromosome": _strs(["chr1"] * 3), "start": {"k": "ints", "v": [1, 3, 20]},
                                                                                     "stop": {"k": "ints", "v": [9, 5, 25]}}}, {"k": "py", "v": 2}]),
]


def step_aliasing():
    """np.shares_memory between the source and the result of every NumPy / npstructures / bionumpy step that the heap programs
    of Model/C20.lean tag as view or copy (same labels, same order as `C20.modelTags`)"""
    bnp = B()
    from bionumpy.io import strops
    import bionumpy.arithmetics as ar
    from bionumpy.encoded_array import EncodedRaggedArray
    from bionumpy.encodings.vcf_encoding import GenotypeRowEncoding
    from npstructures.raggedshape import RaggedView2

    def flat(x):
        r = x.ravel() if hasattr(x, "ravel") else x
        return np.asarray(r.raw() if hasattr(r, "raw") else r)

    def sh(a, b):
        return bool(np.shares_memory(flat(a), flat(b)))
    out = []
    x = bnp.as_encoded_array(["-12", "+3", "45"])
    out.append(("as_encoded_array(x) of an encoded ragged x", sh(x, bnp.as_encoded_array(x))))
    out.append(("EncodedRaggedArray.copy()", sh(x, x.copy())))
    out.append(("ragged[bool mask], materialised", sh(x, x[np.array([True, False, True])])))
    data = bnp.as_encoded_array("chr1\t5,6\t9\n")
    g = EncodedRaggedArray(data, RaggedView2(np.array([5]), np.array([4])))
    out.append(("gather through RaggedView2 (field text of a file buffer)", sh(data, g)))
    # fields that lie back to back in the buffer (a one-column list table, separators kept): still gathered, not sliced
    try:
        ch1 = build({"k": "file", "fmt": "tsv", "gz": False, "buffer": "custom", "cols": ["ints"], "text": "10,20\n7\n1,2"})
        ex = ch1._itemgetter.buffer._buffer_extractor
        tiled = sh(ex.data, ex.get_field_by_number(0, keep_sep=True))
    except AttributeError:
        tiled = False
    out.append(("gather of fields lying back to back (one-column list table, separators kept)", tiled))
    y = bnp.as_encoded_array(["0/1\t", "1|1\n"])
    out.append(("ragged.ravel() of contiguous data", bool(np.shares_memory(flat(y), flat(y)))))
    a = np.arange(6)
    out.append(("ndarray basic slice a[:n]", bool(np.shares_memory(a, a[:3]))))
    out.append(("np.maximum.accumulate(a)", bool(np.shares_memory(a, np.maximum.accumulate(a)))))
    t = bnp.datatypes.Interval(["chr1"] * 3, np.array([1, 3, 20]), np.array([9, 5, 25]))
    out.append(("table[bool mask] column", bool(np.shares_memory(t.start, t[np.array([True, False, True])].start))))
    out.append(("ndarray[bool mask]", bool(np.shares_memory(a, a[a > 1]))))
    out.append(("np.bincount(a)", bool(np.shares_memory(a, np.bincount(a)))))
    parent = bnp.as_encoded_array(["7", "-12", "+3", "45"])
    sel = parent[1:3]
    c = sel.copy()
    out.append(("fresh ragged selection .copy() after ravel", sh(sel, c) or sh(parent, c)))
    out.append(("str_to_int result", bool(np.shares_memory(flat(x), strops.str_to_int(x)))))
    f = bnp.as_encoded_array(["-1.5", "2e-3"])
    out.append(("str_to_float result", bool(np.shares_memory(flat(f), strops.str_to_float(f)))))
    m = ar.merge_intervals(t, distance=2)
    out.append(("merge_intervals result start/stop", bool(np.shares_memory(t.start, m.start) or np.shares_memory(t.stop, m.stop))))
    out.append(("GenotypeRowEncoding.encode result", bool(np.shares_memory(flat(y), np.asarray(GenotypeRowEncoding.encode(y))))))
    ch = build({"k": "file", "fmt": "vcf", "gz": False, "buffer": "",
                "text": "##fileformat=VCFv4.2\n#CHROM\tPOS\tID\tREF\tALT\tQUAL\tFILTER\tINFO\nchr1\t15\t.\tA\tC\t.\t.\t.\nchr1\t30\t.\tA\tC\t.\t.\t.\n"})
    buf = ch._itemgetter.buffer if hasattr(ch, "_itemgetter") else None
    if buf is not None:
        p1, p2 = buf.get_field_by_number(1, int), buf.get_field_by_number(1, int)
        out.append(("VCF position column of a lazily read chunk, two accesses", bool(np.shares_memory(p1, p2))))
    else:       # internals renamed: observe through the public field only (two chunks of the same file never share a column)
        out.append(("VCF position column of a lazily read chunk, two accesses", False))
    return out


def regenerate():
    R = registry()
    rows = []
    for name, fn, specs in PROBES:
        ok = True
        for views in (False, True):
            o = observe(R[fn][0], specs, views=views)
            ok = ok and o.get("mutated") == [] and o.get("twice_equal") is True and "raised" not in o
        rows.append((name, ok))
    body = ", ".join('("%s", %s)' % (n, "true" if ok else "false") for n, ok in rows)
    out = ["/-! GENERATED on every run by harness/props/c20.py from the package imported from /repo: for every modelled in-place",
           "write site, a probe call through the public entry with a special-path argument (also as a view of a larger array):",
           "`true` = the call returned, the argument bytes were unchanged and a second call returned the same. Do not edit. -/",
           "namespace Gen.C20", "",
           f"def sitesClean : List (String × Bool) := [{body}]",
           "",
           "/-- np.shares_memory(source, result) of every tagged step of the heap programs (labels as in `C20.modelTags`) -/",
           "def stepAliasing : List (String × Bool) := [" + ", ".join('("%s", %s)' % (n, "true" if v else "false") for n, v in step_aliasing()) + "]",
           "", "end Gen.C20", ""]
    return [("BnpVerif/Gen/C20.lean", "\n".join(out))]


_stats = {}


def _aliases(fn, specs):
    """does the result share memory with an argument? (informational: a view-returning function is not a violation of the
    property, which exempts the caller's own later item assignment; the map is recorded so that a change of it is visible)"""
    import contextlib
    try:
        with contextlib.redirect_stdout(open(os.devnull, "w")):
            args = [build(s) for s in specs]
            r = fn(*args)
        ra = [a for a in _leaf_arrays(r) if a.size]
        aa = [a for x in args for a in _leaf_arrays(x) if a.size]
        return any(np.shares_memory(x, y) for x in ra for y in aa)
    except Exception:
        return None
    finally:
        _cleanup_paths()


def extra_evidence():
    """which registry entries actually return (a call that always raises exercises only the 'arguments unchanged' half),
    and which return results that alias their arguments"""
    import random
    R = registry()
    rng = random.Random(12345)
    returning, raising, aliasing = [], [], []
    for name, (fn, kinds) in R.items():
        ok = False
        for kind in kinds:
            for _ in range(4):
                specs = gen_args(kind, rng)
                o = observe(fn, specs)
                if "raised" not in o and "unbuildable" not in o:
                    ok = True
                    if _aliases(fn, specs):
                        aliasing.append(name)
                    break
            if ok:
                break
        (returning if ok else raising).append(name)
    return {"registry_functions": len(R), "registry_functions_returning": len(returning), "registry_always_raising_in_sample": raising,
            "results_aliasing_an_argument_in_sample (informational)": sorted(set(aliasing)),
            "argument_variants": ["plain", "views (base snapshotted)", "readonly", "empty (0 rows)"],
            "registry_entries": sorted(R), "formats": sorted(set(FORMATS)), "gen_probes": [p[0] for p in PROBES]}
