"""C14 — reverse complement, stranded extraction and translation are biologically exact."""
import itertools
import numpy as np
from .. import core
from ..core import SKIP

ID = "C14"
RULE = ("exhaustive: every symbol of every DNA encoding (ASCII: the ten letters ACGTNacgtn; ACGT/ACGTN/ACTG/ACTGN: every code) "
        "as a one-symbol array; every string <= L over the ten letters in ASCII/ACGT/ACGTN (L = 3 quick, 4 thorough) as flat "
        "array; ragged lists with empty rows (exhaustive for <= 2 rows of length <= 2, random beyond), via list/str/"
        "EncodedRaggedArray/SequenceEntry; every (start, stop, strand) interval on short sequences plus random interval sets "
        "through get_strand_specific_sequences and GenomicSequence.extract_intervals(stranded=True); all 64 codons (upper "
        "and lower case), all codon pairs (thorough), random concatenations in ragged lists with empty rows. "
        "Non-trivial = contains lower case or N, or a '-' strand, or >= 2 codons")
EXHAUSTIVE = {"quick": False, "thorough": False}
MODEL_OPS = {"rc", "strand", "translate"}
PARALLEL = 0
ASSUMPTIONS = [
    "NumPy fancy indexing lookup[codes] is element-wise (modelled as omap over the tabulated table)",
    "npstructures: ravel/re-wrap of a ragged array keeps row lengths, [..., ::-1] reverses every row, "
    "ragged slicing seq[starts:stops] returns seq[start_i:stop_i] per row, np.where with a column mask selects whole rows",
    "text -> codes for alphabet encodings is C06's verified encode (upper-casing); lower-case input in ACGT/ACGTN encodings "
    "therefore comes back upper-case (the encoded array holds no case information)",
    "domain: interval sets are non-empty with 0 <= start <= stop <= len and strand in {+,-}; translation input is text "
    "(str/list/SequenceEntry) over ACGTacgt; codons containing N are outside the standard genetic code and skipped",
]
TRUSTED_EXTRA = ["Biopython 1.88 (Bio.Seq reverse_complement/translate) as a second oracle: the pure-Python oracle must agree with it on every case (else machinery error)"]

MANIFEST = {
    "text": "Lean 4 theorems for all ragged inputs: reverse complement = per-row reverse of the per-symbol complement (decoded text "
            "level, any encoding whose tabulated table passes the whole-table obligation), involutive, length preserving; stranded "
            "extraction = forward slice for '+', its reverse complement for '-' (both entry points); translation of every row with "
            "3 | length = standard genetic code per codon (written by amino-acid families). The complement tables of ASCII/ACGT/"
            "ACGTN/ACTG/ACTGN and the 64-codon table are re-extracted behaviourally from /repo on every run into Gen/C14.lean and "
            "re-checked by the kernel (decide +kernel). Correspondence: implementation vs Lean model vs Lean spec vs Python oracle "
            "vs Biopython.",
    "note": "Element-wise table application, ragged re-wrap/reversal/slicing and np.where row selection are npstructures/NumPy "
            "externals modelled as list functions and exercised by the correspondence. Translation of already alphabet-encoded "
            "input raises EncodingException (loud, accepted); flat (non-list) input to translate_dna_to_protein and empty "
            "interval sets raise and are outside the quantified domain.",
    "technique": "Lean 4 proof over tables regenerated from source (decide +kernel) + lifting lemmas; differential correspondence with the implementation; Biopython as second oracle",
    "design": "§6 C14",
}

# --------------------------------------------------------------------------- static knowledge (independent of the package)
DNA10 = [ord(c) for c in "ACGTNacgtn"]
_STATIC = {"ASCII": None, "ACGT": "ACGT", "ACGTN": "ACGTN", "ACTG": "ACTG", "ACTGN": "ACTGN"}
ENC_NAMES = list(_STATIC)
PROP_ENCS = ["ASCII", "ACGT", "ACGTN"]


def _encs():
    from bionumpy.encodings import alphabet_encoding as ae
    from bionumpy.encodings import BaseEncoding
    return {"ASCII": BaseEncoding, "ACGT": ae.ACGTEncoding, "ACGTN": ae.ACGTnEncoding,
            "ACTG": ae.ACTGEncoding, "ACTGN": ae.ACTGnEncoding}


def _bnp():
    import bionumpy as bnp
    from bionumpy.encoded_array import EncodedArray, EncodedRaggedArray, as_encoded_array
    from bionumpy.encodings.exceptions import EncodingError
    from bionumpy.encoded_array import EncodingException
    return bnp, EncodedArray, EncodedRaggedArray, as_encoded_array, (EncodingError, EncodingException)


def _text(x):
    return "".join(chr(c) for c in x)


def _up(b):
    return b - 32 if 97 <= b <= 122 else b


# --------------------------------------------------------------------------- tabulation -> Gen/C14.lean

def tabulate():
    from bionumpy.sequence import get_reverse_complement, translate_dna_to_protein
    bnp, EncodedArray, EncodedRaggedArray, as_encoded_array, Err = _bnp()
    tabs = {}
    for name, E in _encs().items():
        n = 128 if name == "ASCII" else len(E.get_alphabet())
        dec, comp = [], []
        for c in range(n):
            x = EncodedArray(np.array([c], dtype=np.uint8), E)
            dec.append(int(c) if name == "ASCII" else int(E.decode(x).raw()[0]))
            try:
                r = get_reverse_complement(x)
                comp.append(int(np.asarray(r.raw()).ravel()[0]) if (len(r) == 1 and r.encoding == E) else None)
            except Exception:
                comp.append(None)
        tabs[name] = (dec, comp)
    codons = ["".join(c) for c in itertools.product("TCAG", repeat=3)]
    codon = []
    for cd in codons:  # one call per codon: the table is behaviour on single codons
        try:
            r = translate_dna_to_protein([cd])
            v = [int(x) for x in r.ravel().raw()]
            codon.append(v[0] if len(v) == 1 else 0)
        except Exception:
            codon.append(0)
    return tabs, codon


def regenerate():
    tabs, codon = tabulate()
    out = ["import BnpVerif.Model.C14",
           "/-! GENERATED on every run by harness/props/c14.py from the package imported from /repo: behavioural",
           "tabulation of `get_reverse_complement` on every one-symbol array of every DNA encoding (decode table and",
           "complement table; `none` = raised / wrong shape) and of `translate_dna_to_protein` on all 64 codons in TCAG",
           "order (0 = raised). Do not edit. -/",
           "namespace Gen.C14", "open _root_.C14", ""]
    for name, (dec, comp) in tabs.items():
        cs = ", ".join("none" if x is None else f"some {x}" for x in comp)
        out.append(f"def {name} : Tab := {{\n  dec := {dec},\n  comp := [{cs}] }}\n")
    out.append("def all : List (String × Tab) := [" + ", ".join(f'("{n}", {n})' for n in tabs) + "]\n")
    out.append(f"def codon : List Nat := {codon}\n")
    out.append("end Gen.C14\n")
    return [("BnpVerif/Gen/C14.lean", "\n".join(out))]


# --------------------------------------------------------------------------- oracle (pure Python, written from the biology)

_PAIRS = [("A", "T"), ("C", "G")]
_COMP = {}
for _a, _b in _PAIRS:
    for _x, _y in ((_a, _b), (_b, _a)):
        _COMP[ord(_x)] = ord(_y)
        _COMP[ord(_x.lower())] = ord(_y.lower())
_COMP[ord("N")] = ord("N")
_COMP[ord("n")] = ord("n")


def _revcomp(s):
    return [_COMP[b] for b in reversed(s)]


# the standard genetic code by first-two-letter boxes: box -> amino acid for third letter in T,C,A,G
_BOXES = {
    "TT": "FFLL", "TC": "SSSS", "TA": "YY**", "TG": "CC*W",
    "CT": "LLLL", "CC": "PPPP", "CA": "HHQQ", "CG": "RRRR",
    "AT": "IIIM", "AC": "TTTT", "AA": "NNKK", "AG": "SSRR",
    "GT": "VVVV", "GC": "AAAA", "GA": "DDEE", "GG": "GGGG",
}


def _aa(codon):
    t = _text(_up(b) for b in codon)
    return ord(_BOXES[t[:2]]["TCAG".index(t[2])])


def _translate(s):
    return [_aa(s[i:i + 3]) for i in range(0, len(s), 3)]


_BIO_CHECKED = set()


def _bio_check(kind, s, mine):
    """second oracle: Biopython must agree with the pure-Python oracle (machinery error otherwise)"""
    key = (kind, tuple(s))
    if key in _BIO_CHECKED or not s:
        return
    _BIO_CHECKED.add(key)
    if len(_BIO_CHECKED) > 200000:
        _BIO_CHECKED.clear()
    from Bio.Seq import Seq
    if kind == "rc":
        theirs = str(Seq(_text(s)).reverse_complement())
    else:
        theirs = str(Seq(_text(s)).translate())
    if theirs != _text(mine):
        raise core.Machinery(f"Python oracle and Biopython disagree on {kind} {_text(s)!r}: {_text(mine)!r} vs {theirs!r}")


def _enc_view(enc, s):
    """text as the encoded array holds it: alphabet encodings upper-case (C06); None if not encodable"""
    if enc == "ASCII":
        return list(s) if all(b in DNA10 for b in s) else None
    A = [ord(c) for c in _STATIC[enc]]
    t = [_up(b) for b in s]
    return t if all(b in A for b in t) else None


def oracle(c):
    op = c["op"]
    if op == "rc":
        views = [_enc_view(c["enc"], r) for r in c["rows"]]
        if any(v is None for v in views):
            return SKIP
        out = []
        for v in views:
            r = _revcomp(v)
            _bio_check("rc", v, r)
            out.append(r)
        return {"rows": out, "enc_same": True}
    if op == "strand":
        views = [_enc_view(c["enc"], s) for s in c["seqs"]]
        if any(v is None for v in views) or not c["ivs"]:
            return SKIP
        out = []
        for ch, a, b, st in c["ivs"]:
            if not (0 <= a <= b <= len(views[ch])) or st not in (43, 45):
                return SKIP
            sub = views[ch][a:b]
            out.append(sub if st == 43 else _revcomp(sub))
        return {"rows": out, "enc_same": True}
    if op in ("translate", "translate_enc"):
        rows = c["rows"]
        if any(len(r) % 3 for r in rows) or any(_up(b) not in (65, 67, 71, 84) for r in rows for b in r):
            return SKIP
        out = []
        for r in rows:
            t = _translate(r)
            _bio_check("tr", [_up(b) for b in r], t)
            out.append(t)
        if op == "translate_enc":   # already alphabet-encoded input: the code refuses loudly (EncodingException)
            return {"rows_or_encoding_error": out}
        return {"rows": out}
    raise ValueError(op)


def agree(c, got, exp):
    if "rows_or_encoding_error" in exp:
        if isinstance(got, dict) and got.get("err") == "encoding":
            return True
        return isinstance(got, dict) and got.get("rows") == exp["rows_or_encoding_error"]
    return core.canon(got) == core.canon(exp)


# --------------------------------------------------------------------------- implementation

def _rows_out(r, E):
    """canonical text rows (ASCII bytes) of an Encoded(Ragged)Array result, and its encoding"""
    bnp, EncodedArray, EncodedRaggedArray, as_encoded_array, Err = _bnp()
    from bionumpy.encodings import BaseEncoding

    def txt(flat):
        raw = flat.raw() if flat.encoding == BaseEncoding else flat.encoding.decode(flat).raw()
        return [int(x) for x in np.asarray(raw).ravel()]
    if isinstance(r, EncodedRaggedArray):
        lens = [int(x) for x in r.lengths]
        flat = r.ravel()
        t = txt(flat)
        rows, i = [], 0
        for n in lens:
            rows.append(t[i:i + n])
            i += n
        if i != len(t):
            raise ValueError("ragged lengths do not cover the data")
        return rows, flat.encoding
    if isinstance(r, EncodedArray):
        return [txt(r)], r.encoding
    raise TypeError(type(r).__name__)


def _make_input(c, E):
    bnp, EncodedArray, EncodedRaggedArray, as_encoded_array, Err = _bnp()
    rows = c["rows"]
    shape = c.get("shape", "ragged")
    if shape == "flat":
        return as_encoded_array(_text(rows[0]), E)
    if shape == "str":      # plain python objects, ASCII only (get_reverse_complement calls as_encoded_array itself)
        return [_text(r) for r in rows]
    if shape == "str1":
        return _text(rows[0])
    return as_encoded_array([_text(r) for r in rows], E)


def impl(c):
    bnp, EncodedArray, EncodedRaggedArray, as_encoded_array, Err = _bnp()
    from bionumpy.sequence import get_reverse_complement, translate_dna_to_protein
    op = c["op"]
    try:
        if op == "rc":
            E = _encs()[c["enc"]]
            shape = c.get("shape", "ragged")
            if shape == "entry":
                from bionumpy.datatypes import SequenceEntry
                seqs = as_encoded_array([_text(r) for r in c["rows"]], E)
                e = SequenceEntry([f"s{i}" for i in range(len(c["rows"]))], seqs)
                r = get_reverse_complement(e)
                if [x.to_string() for x in r.name] != [f"s{i}" for i in range(len(c["rows"]))]:
                    return {"err": "other:names-changed"}
                r = r.sequence
            else:
                r = get_reverse_complement(_make_input(c, E))
            rows, enc = _rows_out(r, E)
            return {"rows": rows, "enc_same": bool(enc == E)}
        if op == "strand":
            E = _encs()[c["enc"]]
            from bionumpy.datatypes import Bed6
            names = [f"c{i}" for i in range(len(c["seqs"]))]
            ivs = c["ivs"]
            bed = Bed6([names[i[0]] for i in ivs], [i[1] for i in ivs], [i[2] for i in ivs], ["x"] * len(ivs),
                       [0] * len(ivs), [chr(i[3]) for i in ivs])
            if c["via"] == "dna":
                from bionumpy.sequence.dna import get_strand_specific_sequences
                r = get_strand_specific_sequences(as_encoded_array(_text(c["seqs"][0]), E), bed)
            else:
                from bionumpy.genomic_data.genomic_sequence import GenomicSequence
                gs = GenomicSequence.from_dict({n: _text(s) for n, s in zip(names, c["seqs"])})
                r = gs.extract_intervals(bed, stranded=True)
            rows, enc = _rows_out(r, E)
            return {"rows": rows, "enc_same": bool(enc == E)}
        if op in ("translate", "translate_enc"):
            via = c.get("via", "list")
            texts = [_text(r) for r in c["rows"]]
            if via == "entry":
                from bionumpy.datatypes import SequenceEntry
                r = translate_dna_to_protein(SequenceEntry([f"s{i}" for i in range(len(texts))], texts)).sequence
            elif via.startswith("enc:"):
                r = translate_dna_to_protein(as_encoded_array(texts, _encs()[via[4:]]))
            elif via == "ragged":
                r = translate_dna_to_protein(as_encoded_array(texts))
            else:
                r = translate_dna_to_protein(texts)
            rows, enc = _rows_out(r, None)
            return {"rows": rows}
    except Err:
        return {"err": "encoding"}
    except Exception as e:
        return {"err": "other:" + type(e).__name__}


# --------------------------------------------------------------------------- Lean driver request

def _codes(enc, s):
    if enc == "ASCII":
        return list(s)
    A = [ord(ch) for ch in _STATIC[enc]]
    return [A.index(_up(b)) for b in s]


def model_request(c):
    op = c["op"]
    if op == "rc":
        return {"op": "rc", "enc": c["enc"], "codes": [_codes(c["enc"], r) for r in c["rows"]],
                "flat": c.get("shape", "ragged") in ("flat", "str1")}
    if op == "strand":
        return {"op": "strand", "enc": c["enc"], "via": c["via"], "codes": [_codes(c["enc"], s) for s in c["seqs"]],
                "ivs": c["ivs"]}
    if op == "translate":
        return {"op": "translate", "rows": c["rows"]}
    return None   # translate_enc: implementation vs oracle only


# --------------------------------------------------------------------------- cases

def _alpha(enc, lower=True):
    if enc == "ASCII":
        return DNA10
    A = [ord(ch) for ch in _STATIC[enc]]
    return A + ([a + 32 for a in A] if lower else [])


def cases(tier, rng):
    big = tier in ("thorough", "widen")
    # 1. every symbol of every encoding as a one-symbol array (flat and one-row ragged)
    for enc in ENC_NAMES:
        for b in _alpha(enc):
            yield {"op": "rc", "enc": enc, "rows": [[b]], "shape": "flat"}
            yield {"op": "rc", "enc": enc, "rows": [[b]], "shape": "ragged"}
    # 2. every string <= L over the letters, flat
    L = 4 if big else 3
    for enc in PROP_ENCS:
        A = _alpha(enc)
        for l in range(0, L + 1):
            for s in itertools.product(A, repeat=l):
                if l == L and not big and rng.random() < 0.5:
                    continue
                yield {"op": "rc", "enc": enc, "rows": [list(s)], "shape": "flat"}
    for enc in ("ACTG", "ACTGN"):
        for l in range(0, 3):
            for s in itertools.product(_alpha(enc, lower=False), repeat=l):
                yield {"op": "rc", "enc": enc, "rows": [list(s)], "shape": "flat"}
    # 3. ragged: exhaustive tiny, random beyond; all entry shapes
    for enc in PROP_ENCS:
        A = _alpha(enc)
        small = [list(s) for l in range(0, 3) for s in itertools.product(A[:5] if not big else A, repeat=l)]
        for r1 in small:
            for r2 in (small if big else rng.sample(small, 6)):
                yield {"op": "rc", "enc": enc, "rows": [r1, r2], "shape": "ragged"}
        for _ in range(1500 if big else 150):
            rows = [[rng.choice(A) for _ in range(rng.choice([0, 0, 1, 2, 3, 5, 9]))] for _ in range(rng.choice([1, 2, 3, 4, 6]))]
            shape = rng.choice(["ragged", "entry"] + (["str"] if enc == "ASCII" else []))
            yield {"op": "rc", "enc": enc, "rows": rows, "shape": shape}
        if enc == "ASCII":
            for _ in range(300 if big else 40):
                yield {"op": "rc", "enc": enc, "rows": [[rng.choice(A) for _ in range(rng.choice([1, 2, 3, 7]))]], "shape": "str1"}
    # 4. stranded extraction: every interval x strand on short sequences, then random sets
    for enc in PROP_ENCS:
        A = _alpha(enc)
        seqs = [[rng.choice(A) for _ in range(n)] for n in ([1, 2, 4, 5] if not big else [1, 2, 3, 4, 5, 6, 7])]
        seqs.append([b for b in A][:6])
        for s in seqs:
            n = len(s)
            allivs = [[0, a, b, st] for a in range(n + 1) for b in range(a, n + 1) for st in (43, 45)]
            for iv in allivs:
                yield {"op": "strand", "enc": enc, "via": "dna", "seqs": [s], "ivs": [iv]}
            yield {"op": "strand", "enc": enc, "via": "dna", "seqs": [s], "ivs": allivs}
            if enc == "ACGTN":
                yield {"op": "strand", "enc": enc, "via": "genomic", "seqs": [s], "ivs": allivs}
                for iv in (allivs if big else rng.sample(allivs, min(6, len(allivs)))):
                    yield {"op": "strand", "enc": enc, "via": "genomic", "seqs": [s], "ivs": [iv]}
        for _ in range(800 if big else 80):
            via = "genomic" if (enc == "ACGTN" and rng.random() < 0.5) else "dna"
            nseq = rng.choice([1, 2, 3]) if via == "genomic" else 1
            ss = [[rng.choice(A) for _ in range(rng.choice([1, 3, 6, 12]))] for _ in range(nseq)]
            ivs = []
            for _ in range(rng.choice([1, 2, 3, 5])):
                ch = rng.randrange(nseq)
                a = rng.randrange(len(ss[ch]) + 1)
                b = rng.randrange(a, len(ss[ch]) + 1)
                ivs.append([ch, a, b, rng.choice([43, 45])])
            yield {"op": "strand", "enc": enc, "via": via, "seqs": ss, "ivs": ivs}
    # 5. translation: all 64 codons, upper and lower and mixed case; pairs; concatenations; ragged with empty rows
    up = [ord(ch) for ch in "TCAG"]
    codons = [list(cd) for cd in itertools.product(up, repeat=3)]
    for cd in codons:
        yield {"op": "translate", "rows": [cd], "via": "list"}
        yield {"op": "translate", "rows": [[b + 32 for b in cd]], "via": "list"}
        yield {"op": "translate", "rows": [[b + 32 * rng.randrange(2) for b in cd]], "via": rng.choice(["list", "entry", "ragged"])}
        yield {"op": "translate_enc", "rows": [cd], "via": "enc:" + rng.choice(["ACGT", "ACGTN"])}
    yield {"op": "translate", "rows": [[b for cd in codons for b in cd]], "via": "list"}
    yield {"op": "translate", "rows": codons, "via": "list"}
    pairs = [(a, b) for a in codons for b in codons]
    for a, b in (pairs if big else rng.sample(pairs, 300)):
        yield {"op": "translate", "rows": [a + b], "via": "list"}
    for _ in range(3000 if big else 300):
        rows = []
        for _ in range(rng.choice([1, 2, 3, 5])):
            r = [b for _ in range(rng.choice([0, 0, 1, 2, 3, 6])) for b in rng.choice(codons)]
            if rng.random() < 0.3:
                r = [b + 32 * rng.randrange(2) for b in r]
            rows.append(r)
        if not any(rows) and rng.random() < 0.8:
            rows.append(list(rng.choice(codons)))
        yield {"op": "translate", "rows": rows, "via": rng.choice(["list", "list", "entry", "ragged"])}


def nontrivial(c):
    op = c["op"]
    if op == "rc":
        flat = [b for r in c["rows"] for b in r]
        return any(b >= 97 or b in (78,) for b in flat) or len(c["rows"]) >= 2
    if op == "strand":
        return any(iv[3] == 45 and iv[2] > iv[1] for iv in c["ivs"])
    return sum(len(r) for r in c["rows"]) >= 6 or any(b >= 97 for r in c["rows"] for b in r)


def _has_nul(got):
    return isinstance(got, dict) and any(b == 0 for r in got.get("rows", []) for b in r)


def finding_key(c, got, exp):
    """names the failing input class"""
    op = c["op"]
    if op == "rc":
        flat = [b for r in c["rows"] for b in r]
        if c["enc"] == "ASCII" and any(b >= 97 for b in flat) and _has_nul(got):
            return "revcomp:ascii-lower-case"
        return f"revcomp:{c['enc']}"
    if op == "strand":
        flat = [b for s in c["seqs"] for b in s]
        if isinstance(got, dict) and str(got.get("err", "")).startswith("other:") and \
                len(c["ivs"]) >= sum(iv[2] - iv[1] for iv in c["ivs"]):
            return "strand:raises-when-intervals>=extracted-letters"
        if c["enc"] == "ASCII" and any(b >= 97 for b in flat) and _has_nul(got):
            return "strand:ascii-lower-case"
        return f"strand:{c['via']}:{c['enc']}"
    return "translate:" + c.get("via", "list").split(":")[0]
