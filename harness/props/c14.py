"""C14 — reverse complement, stranded extraction and translation are biologically exact."""
import itertools
import numpy as np
from .. import core
from ..core import SKIP

ID = "C14"
RULE = ("exhaustive: every symbol of every DNA encoding (ASCII: the ten letters ACGTNacgtn; ACGT/ACGTN/ACTG/ACTGN: every code) "
        "as a one-symbol array; every string <= L over the ten letters in ASCII/ACGT/ACGTN (L = 3 quick, 4 thorough) as flat "
        "array; ragged lists with empty rows (exhaustive for <= 2 rows of length <= 2, random beyond), via list/str/"
        "EncodedRaggedArray/SequenceEntry; every (start, stop, strand) interval on short sequences plus random interval sets "
        "through get_strand_specific_sequences and GenomicSequence.extract_intervals(stranded=True); all 64 codons (upper "
        "and lower case), all codon pairs (thorough), random concatenations in ragged lists with empty rows. "
        "Non-trivial = contains lower case or N, or a '-' strand, or >= 2 codons. Also: get_sequences / extract_intervals("
        "stranded=False) / genomic_sequence[intervals] (stranded iff the interval object is) / the indexed-FASTA backend with "
        "wrapped lines / chromosome access; transcript sequences (genes.py) incl. an empty table; encodings that are not DNA "
        "(must be refused); fresh views of ragged inputs and of the interval table; >= 17 intervals/rows; call sequences whose "
        "results are read after the last call; pipelines over TABLES of sequences: carrier kinds (lazy file-backed FASTQ / FASTQ "
        "chunks / SAM tables, eagerly read FASTA, SequenceEntry(+quality) made in memory or from tuples, bare array) x "
        "compositions rc.rc, translate.rc, ... with replace / same-column replace / row selection / split-and-concatenate in "
        "between, every stage read after the last step; genomic_sequence[intervals] with DERIVED interval objects (clip, "
        "index list/array/mask/slice, sorted, replace, concatenate; windows around stranded locations and interval midpoints; "
        "read from a BED file) judged on the intervals the derived object must denote; "
        "equal-but-not-identical inputs (unpickled, deep / shallow copy, freshly constructed encoding object equal to the "
        "predefined one) for rc / strand / translate; an indexed FASTA opened by a relative name, the working directory changed "
        "(to one holding a same-named file with other letters) before the first extraction")
EXHAUSTIVE = {"quick": False, "thorough": False}
MODEL_OPS = {"rc", "strand", "translate", "transcripts", "pipe", "strand_gi"}
CASE_TIMEOUT_S = 60
PARALLEL = 0
ASSUMPTIONS = [
    "NumPy fancy indexing lookup[codes] is element-wise (modelled as omap over the tabulated table)",
    "npstructures: ravel/re-wrap of a ragged array keeps row lengths, [..., ::-1] reverses every row, "
    "ragged slicing seq[starts:stops] returns seq[start_i:stop_i] per row, np.where with a column mask selects whole rows",
    "text -> codes for alphabet encodings is C06's verified encode (upper-casing); lower-case input in ACGT/ACGTN encodings "
    "therefore comes back upper-case (the encoded array holds no case information)",
    "domain: interval sets are non-empty with 0 <= start <= stop <= len and strand in {+,-}; translation input is text "
    "(str/list/SequenceEntry) over ACGTacgt; codons containing N are outside the standard genetic code and skipped",
]
TRUSTED_EXTRA = ["Biopython 1.88 (Bio.Seq reverse_complement/translate) as a second oracle: the pure-Python oracle must agree with it on every case (else machinery error)"]

MANIFEST = {
    "text": "Lean 4 theorems for all ragged inputs: reverse complement = per-row reverse of the per-symbol complement (decoded text "
            "level, any encoding whose tabulated table passes the whole-table obligation), involutive, length preserving; stranded "
            "extraction = forward slice for '+', its reverse complement for '-' (both entry points, modelled along the code path: "
            "ragged view by interval bounds / one Python slice per interval, where_rows = np.repeat row mask + flat where + re-wrap, "
            "proved equal to row selection); transcript sequences (genes.py: exon slices joined per run of transcript ids, "
            "reverse-complemented as a whole for '-'); each entry point on ANY strand byte (strand_dna_def, "
            "extract_stranded_def; they differ on '.'); completeness (revcompRagged_isSome_iff, translate_encoding_error_iff, "
            "translate_assertion_iff); tables of sequences (Table/runPipe: table_get_replace, pipeStep_spec, runPipe_spec: every stage of "
            "every pipeline in the domain holds the columns the property-level specStages gives; pipeStep_refuses: wrong-length "
            "replace / row index past the end are refused exactly where the spec has no answer) and derived interval objects "
            "(per-derivation is_stranded flags tabulated from the running code into Gen.C14.giFlags, gen_flags_keep, "
            "derived_keeps_kind, flag_dropped_unsound, clip_in_bounds, getitem_derived: clause 4 for any "
            "clip/selection/replace/concatenate/window derivation of a stranded object); the spec pinned by list laws (specRevComp_append/_flatten/_getElem?, chunks3_flatten, "
            "specTranslate_append, stop_codons_iff); translation of every row with "
            "3 | length = standard genetic code per codon (written by amino-acid families). The complement tables of ASCII/ACGT/"
            "ACGTN/ACTG/ACTGN and the 64-codon table are re-extracted behaviourally from /repo on every run into Gen/C14.lean and "
            "re-checked by the kernel (decide +kernel). Correspondence: implementation vs Lean model vs Lean spec vs Python oracle "
            "vs Biopython.",
    "note": "Element-wise table application, ragged re-wrap/reversal/slicing and np.where row selection are npstructures/NumPy "
            "externals modelled as list functions and exercised by the correspondence. Translation of already alphabet-encoded "
            "input raises EncodingException (loud, accepted); flat (non-list) input to translate_dna_to_protein and empty "
            "interval sets raise and are outside the quantified domain.",
    "technique": "Lean 4 proof over tables regenerated from source (decide +kernel) + lifting lemmas; differential correspondence with the implementation; Biopython as second oracle",
    "design": "§6 C14",
}

# --------------------------------------------------------------------------- static knowledge (independent of the package)
DNA10 = [ord(c) for c in "ACGTNacgtn"]
_STATIC = {"ASCII": None, "ACGT": "ACGT", "ACGTN": "ACGTN", "ACTG": "ACTG", "ACTGN": "ACTGN"}
ENC_NAMES = list(_STATIC)
PROP_ENCS = ["ASCII", "ACGT", "ACGTN"]


def _encs():
    from bionumpy.encodings import alphabet_encoding as ae
    from bionumpy.encodings import BaseEncoding
    return {"ASCII": BaseEncoding, "ACGT": ae.ACGTEncoding, "ACGTN": ae.ACGTnEncoding,
            "ACTG": ae.ACTGEncoding, "ACTGN": ae.ACTGnEncoding}


def _bnp():
    import bionumpy as bnp
    from bionumpy.encoded_array import EncodedArray, EncodedRaggedArray, as_encoded_array
    from bionumpy.encodings.exceptions import EncodingError
    from bionumpy.encoded_array import EncodingException
    return bnp, EncodedArray, EncodedRaggedArray, as_encoded_array, (EncodingError, EncodingException)


def _text(x):
    return "".join(chr(c) for c in x)


def _up(b):
    return b - 32 if 97 <= b <= 122 else b


# --------------------------------------------------------------------------- tabulation -> Gen/C14.lean

def tabulate():
    from bionumpy.sequence import get_reverse_complement, translate_dna_to_protein
    bnp, EncodedArray, EncodedRaggedArray, as_encoded_array, Err = _bnp()
    tabs = {}
    for name, E in _encs().items():
        n = 128 if name == "ASCII" else len(E.get_alphabet())
        dec, comp = [], []
        for c in range(n):
            x = EncodedArray(np.array([c], dtype=np.uint8), E)
            dec.append(int(c) if name == "ASCII" else int(E.decode(x).raw()[0]))
            try:
                r = get_reverse_complement(x)
                comp.append(int(np.asarray(r.raw()).ravel()[0]) if (len(r) == 1 and r.encoding == E) else None)
            except Exception:
                comp.append(None)
        tabs[name] = (dec, comp)
    codons = ["".join(c) for c in itertools.product("TCAG", repeat=3)]
    codon = []
    for cd in codons:  # one call per codon: the table is behaviour on single codons
        try:
            r = translate_dna_to_protein([cd])
            v = [int(x) for x in r.ravel().raw()]
            codon.append(v[0] if len(v) == 1 else 0)
        except Exception:
            codon.append(0)
    return tabs, codon


def tabulate_flags():
    """which `is_stranded` each derivation of an interval object hands on: (flag of the result for a stranded object, for an
    unstranded one), observed on the running package; a derivation that raises is recorded as (False, False)"""
    import bionumpy as bnp
    from bionumpy.datatypes import Bed6
    from bionumpy.genomic_data.genomic_intervals import GenomicLocation
    genome = bnp.Genome.from_dict({"c0": 10, "c1": 8})

    def gi(stranded):
        return genome.get_intervals(Bed6(["c0", "c1", "c1"], [1, 2, 5], [4, 6, 12], ["x"] * 3, [0] * 3, ["+", "-", "-"]), stranded=stranded)

    def loc(stranded):
        return GenomicLocation.from_fields(genome.get_genome_context(), ["c0", "c1"], [3, 6], ["+", "-"] if stranded else None)
    derivs = {
        "clip": lambda st: gi(st).clip(),
        "idx": lambda st: gi(st)[[2, 0]],
        "replace": lambda st: bnp.replace(gi(st), start=gi(st).start),
        "concat": lambda st: np.concatenate([gi(st)[:1], gi(st)[1:]]),
        "windows": lambda st: loc(st).get_windows(flank=2),
    }
    out = {}
    for name, f in derivs.items():
        res = []
        for st in (True, False):
            try:
                res.append(bool(f(st).is_stranded()))
            except Exception:
                res.append(False)
        out[name] = tuple(res)
    return out


def regenerate():
    tabs, codon = tabulate()
    flags = tabulate_flags()
    out = ["import BnpVerif.Model.C14",
           "/-! GENERATED on every run by harness/props/c14.py from the package imported from /repo: behavioural",
           "tabulation of `get_reverse_complement` on every one-symbol array of every DNA encoding (decode table and",
           "complement table; `none` = raised / wrong shape) and of `translate_dna_to_protein` on all 64 codons in TCAG",
           "order (0 = raised). Do not edit. -/",
           "namespace Gen.C14", "open _root_.C14", ""]
    for name, (dec, comp) in tabs.items():
        cs = ", ".join("none" if x is None else f"some {x}" for x in comp)
        out.append(f"def {name} : Tab := {{\n  dec := {dec},\n  comp := [{cs}] }}\n")
    out.append("def all : List (String × Tab) := [" + ", ".join(f'("{n}", {n})' for n in tabs) + "]\n")
    out.append(f"def codon : List Nat := {codon}\n")
    fl = ", ".join(f"{k} := ⟨{str(v[0]).lower()}, {str(v[1]).lower()}⟩" for k, v in flags.items())
    out.append("/-- `is_stranded()` of a derived interval object for a stranded / an unstranded original, per derivation -/")
    out.append(f"def giFlags : GFlags := {{ {fl} }}\n")
    out.append("end Gen.C14\n")
    return [("BnpVerif/Gen/C14.lean", "\n".join(out))]


# --------------------------------------------------------------------------- oracle (pure Python, written from the biology)

_PAIRS = [("A", "T"), ("C", "G")]
_COMP = {}
for _a, _b in _PAIRS:
    for _x, _y in ((_a, _b), (_b, _a)):
        _COMP[ord(_x)] = ord(_y)
        _COMP[ord(_x.lower())] = ord(_y.lower())
_COMP[ord("N")] = ord("N")
_COMP[ord("n")] = ord("n")


def _revcomp(s):
    return [_COMP[b] for b in reversed(s)]


# the standard genetic code by first-two-letter boxes: box -> amino acid for third letter in T,C,A,G
_BOXES = {
    "TT": "FFLL", "TC": "SSSS", "TA": "YY**", "TG": "CC*W",
    "CT": "LLLL", "CC": "PPPP", "CA": "HHQQ", "CG": "RRRR",
    "AT": "IIIM", "AC": "TTTT", "AA": "NNKK", "AG": "SSRR",
    "GT": "VVVV", "GC": "AAAA", "GA": "DDEE", "GG": "GGGG",
}


def _aa(codon):
    t = _text(_up(b) for b in codon)
    return ord(_BOXES[t[:2]]["TCAG".index(t[2])])


def _translate(s):
    return [_aa(s[i:i + 3]) for i in range(0, len(s), 3)]


_BIO_CHECKED = set()


def _bio_check(kind, s, mine):
    """second oracle: Biopython must agree with the pure-Python oracle (machinery error otherwise)"""
    key = (kind, tuple(s))
    if key in _BIO_CHECKED or not s:
        return
    _BIO_CHECKED.add(key)
    if len(_BIO_CHECKED) > 200000:
        _BIO_CHECKED.clear()
    from Bio.Seq import Seq
    if kind == "rc":
        theirs = str(Seq(_text(s)).reverse_complement())
    else:
        theirs = str(Seq(_text(s)).translate())
    if theirs != _text(mine):
        raise core.Machinery(f"Python oracle and Biopython disagree on {kind} {_text(s)!r}: {_text(mine)!r} vs {theirs!r}")


def _enc_view(enc, s):
    """text as the encoded array holds it: alphabet encodings upper-case (C06); None if not encodable"""
    if enc == "ASCII":
        return list(s) if all(b in DNA10 for b in s) else None
    A = [ord(c) for c in _STATIC[enc]]
    t = [_up(b) for b in s]
    return t if all(b in A for b in t) else None


def oracle(c):
    op = c["op"]
    if op in ("seq", "fresh"):
        res = [oracle(sub) for sub in c["calls"]]
        return SKIP if any(isinstance(r, core.Skip) for r in res) else {"results": res}
    if op == "translate_custom":
        return {"any": True}      # what a user table returns is not the property's business; what follows it is
    if op == "pipe":
        return _pipe_expect(c)
    if op == "rc":
        views = [_enc_view(c["enc"], r) for r in c["rows"]]
        if any(v is None for v in views):
            return SKIP
        out = []
        for v in views:
            r = _revcomp(v)
            _bio_check("rc", v, r)
            out.append(r)
        return {"rows": out, "enc_same": True}
    if op == "chrom":
        v = _enc_view("ACGTN", c["seqs"][c["k"]])
        return SKIP if v is None else {"rows": [v]}
    if op == "rc_unsupported":
        return {"err_any": True}      # not a DNA encoding: must be refused, never answered
    if op == "strand":
        views = [_enc_view(c["enc"], s) for s in c["seqs"]]
        if "gi" in c and c["gi"].get("outside") and all(v is not None for v in views):
            return {"outside": True}              # a selection of an interval that does not exist (model: IndexError)
        if any(v is None for v in views) or not c["ivs"]:
            return SKIP
        out = []
        for ch, a, b, st in c["ivs"]:
            if not (0 <= a <= b <= len(views[ch])) or st not in (43, 45):
                return SKIP
            sub = views[ch][a:b]
            out.append(sub if (st == 43 or c["via"] in ("plain", "unstranded")) else _revcomp(sub))
        return {"rows": out, "enc_same": True}
    if op in ("translate", "translate_enc"):
        rows = c["rows"]
        if any(len(r) % 3 for r in rows) or any(_up(b) not in (65, 67, 71, 84) for r in rows for b in r):
            return SKIP
        out = []
        for r in rows:
            t = _translate(r)
            _bio_check("tr", [_up(b) for b in r], t)
            out.append(t)
        if op == "translate_enc":   # already alphabet-encoded input: the code refuses loudly (EncodingException)
            return {"rows_or_encoding_error": out}
        return {"rows": out}
    if op == "transcripts":
        if c["via"] == "gtf" and any(e[2] == e[3] for e in c["exons"]):
            return SKIP            # a GTF line cannot express an empty exon
        return _transcripts_expect(c["seq"], c["exons"])
    raise ValueError(op)


def _pipe_expect(c):
    """a pipeline over a table of sequences: every stage's sequence column is the function of the PREVIOUS stage's column"""
    rows = [list(r) for r in c["rows"]]
    if any(b not in DNA10 for r in rows for b in r):
        return SKIP
    names = list(range(len(rows)))
    stages = [{"names": names, "rows": rows}]
    protein = False
    for st in c["steps"]:
        k = st[0]
        if protein:
            return SKIP              # nothing in the property applies to amino acids
        if k == "rc":
            new = []
            for r in rows:
                x = _revcomp(r)
                _bio_check("rc", r, x)
                new.append(x)
            rows = new
        elif k == "translate":
            if any(len(r) % 3 for r in rows) or any(_up(b) not in (65, 67, 71, 84) for r in rows for b in r):
                return SKIP
            new = []
            for r in rows:
                x = _translate(r)
                _bio_check("tr", [_up(b) for b in r], x)
                new.append(x)
            rows = new
            protein = True
        elif k == "replace":
            if any(b not in DNA10 for r in st[1] for b in r):
                return SKIP
            if len(st[1]) != len(rows):
                # a column of another length: not a table any more. The property does not say what happens; the Lean model
                # does (the code refuses, AssertionError) and the correspondence compares it. A bare array is just replaced.
                return SKIP if c["carrier"] == "ragged" else {"outside": True}
            rows = [list(r) for r in st[1]]
        elif k in ("same", "concat"):
            pass
        elif k == "idx":
            if any(i < 0 for i in st[1]):
                return SKIP
            if any(i >= len(rows) for i in st[1]):
                return {"outside": True}          # a row that does not exist (model: IndexError)
            rows = [rows[i] for i in st[1]]
            names = [names[i] for i in st[1]]
        else:
            raise ValueError(k)
        stages.append({"names": names, "rows": rows})
    if c["carrier"] == "ragged":
        stages = [{"rows": st["rows"]} for st in stages]
    return {"stages": stages}


def _transcripts_expect(seq, ex, per_transcript=False):
    seq = _enc_view("ACGTN", seq)
    if seq is None:
        return SKIP
    if not ex:
        return {"names": [], "rows": []}
    groups = []
    for t, st, a, b in ex:
        if not (0 <= a <= b <= len(seq)) or st not in (43, 45):
            return SKIP
        if per_transcript:
            g = next((g for g in groups if g[0] == t), None)
            if g is not None:
                if g[1] != st:
                    return SKIP
                g[2].extend(seq[a:b])
                continue
            groups.append([t, st, list(seq[a:b]), b])
            continue
        if groups and groups[-1][0] == t:
            if groups[-1][1] != st or a < groups[-1][3]:
                return SKIP        # one strand per transcript, exons in ascending order
            groups[-1][2].extend(seq[a:b])
            groups[-1][3] = b
        else:
            groups.append([t, st, list(seq[a:b]), b])
    return {"names": [f"t{g[0]}" for g in groups], "rows": [g[2] if g[1] == 43 else _revcomp(g[2]) for g in groups]}


def agree_spec(c, s, exp):
    if isinstance(exp, dict) and exp.get("outside"):
        return s == {"err": "outside-domain"}     # the Lean spec has no answer there either
    return core.canon(s) == core.canon(exp)


def agree(c, got, exp):
    if isinstance(exp, dict) and (exp.get("any") or exp.get("outside")):
        return True
    if c["op"] == "transcripts" and c["via"] == "duck" and core.canon(got) != core.canon(exp):
        # exon lines of one transcript that are not adjacent: one entry per run of adjacent lines (what the code does) or one
        # entry per transcript with all its exons in file order are both exact answers
        alt = _transcripts_expect(c["seq"], c["exons"], per_transcript=True)
        return isinstance(alt, dict) and core.canon(got) == core.canon(alt)
    if isinstance(exp, dict) and exp.get("err_any"):
        return isinstance(got, dict) and "err" in got
    if c["op"] in ("seq", "fresh"):
        g = got.get("results") if isinstance(got, dict) else None
        return isinstance(g, list) and len(g) == len(exp["results"]) and \
            all(agree(sub, a, b) for sub, a, b in zip(c["calls"], g, exp["results"]))
    if c["op"] == "transcripts" and c["via"] == "gtf" and isinstance(got, dict) and "bounds" in got:
        # judged against the bounds the package itself parsed from the file
        if len(got["bounds"]) != len(c["exons"]):
            return False
        ex2 = [[e[0], e[1], b[0], b[1]] for e, b in zip(c["exons"], got["bounds"])]
        for alt in (False, True):
            e2 = _transcripts_expect(c["seq"], ex2, per_transcript=alt)
            if isinstance(e2, dict) and got.get("names") == e2["names"] and got.get("rows") == e2["rows"]:
                return True
        return False
    if "rows_or_encoding_error" in exp:
        if isinstance(got, dict) and got.get("err") == "encoding":
            return True
        return isinstance(got, dict) and got.get("rows") == exp["rows_or_encoding_error"]
    return core.canon(got) == core.canon(exp)


# --------------------------------------------------------------------------- implementation

def _rows_out(r, E):
    """canonical text rows (ASCII bytes) of an Encoded(Ragged)Array result, and its encoding"""
    bnp, EncodedArray, EncodedRaggedArray, as_encoded_array, Err = _bnp()
    from bionumpy.encodings import BaseEncoding

    def txt(flat):
        raw = flat.raw() if flat.encoding == BaseEncoding else flat.encoding.decode(flat).raw()
        return [int(x) for x in np.asarray(raw).ravel()]
    if isinstance(r, EncodedRaggedArray):
        lens = [int(x) for x in r.lengths]
        flat = r.ravel()
        t = txt(flat)
        rows, i = [], 0
        for n in lens:
            rows.append(t[i:i + n])
            i += n
        if i != len(t):
            raise ValueError("ragged lengths do not cover the data")
        return rows, flat.encoding
    if isinstance(r, EncodedArray):
        return [txt(r)], r.encoding
    raise TypeError(type(r).__name__)


def _make_input(c, E):
    bnp, EncodedArray, EncodedRaggedArray, as_encoded_array, Err = _bnp()
    rows = c["rows"]
    shape = c.get("shape", "ragged")
    if shape == "flat":
        return as_encoded_array(_text(rows[0]), E)
    if shape == "str":      # plain python objects, ASCII only (get_reverse_complement calls as_encoded_array itself)
        return [_text(r) for r in rows]
    if shape == "str1":
        return _text(rows[0])
    return as_encoded_array([_text(r) for r in rows], E)


def _clone(x, how, E=None):
    """an EQUAL but not identical input: what a worker process receives (pickle), a deep / shallow copy, or the same codes
    wrapped with a freshly constructed encoding object equal to the predefined one"""
    import copy
    import pickle
    bnp, EncodedArray, EncodedRaggedArray, as_encoded_array, Err = _bnp()
    if how == "pickle":
        return pickle.loads(pickle.dumps(x))
    if how == "deepcopy":
        return copy.deepcopy(x)
    if how == "copy":
        return copy.copy(x)
    if how == "fresh":
        from bionumpy.encodings import BaseEncoding, AlphabetEncoding

        def fresh_enc(enc):
            return type(BaseEncoding)() if enc == BaseEncoding else AlphabetEncoding("".join(enc.get_alphabet()))

        def rewrap(a):
            if isinstance(a, EncodedRaggedArray):
                flat = a.ravel()
                return EncodedRaggedArray(EncodedArray(np.array(flat.raw()), fresh_enc(flat.encoding)), np.array(a.lengths))
            return EncodedArray(np.array(a.raw()), fresh_enc(a.encoding))
        if hasattr(x, "sequence"):
            return bnp.replace(x, sequence=rewrap(x.sequence))
        return rewrap(x)
    raise ValueError(how)


def _apply_view(base, v):
    """a FRESH, not yet materialised view of `base` selecting exactly the case's rows"""
    k = v["kind"]
    if k == "idx":
        return base[list(v["idx"])]
    if k == "idxarr":
        return base[np.array(v["idx"], dtype=int)]
    if k == "slice":
        return base[v["a"]:v["b"]]
    if k == "step":
        return base[v["a"]::2]
    if k == "mask":
        return base[np.array(v["mask"], dtype=bool)]
    if k == "rev":
        return base[::-1]
    raise ValueError(k)


def _select(base_rows, v):
    k = v["kind"]
    if k in ("idx", "idxarr"):
        return [base_rows[i] for i in v["idx"]]
    if k == "slice":
        return base_rows[v["a"]:v["b"]]
    if k == "step":
        return base_rows[v["a"]::2]
    if k == "mask":
        return [r for r, m in zip(base_rows, v["mask"]) if m]
    if k == "rev":
        return base_rows[::-1]
    raise ValueError(k)


def _view_of(rng, items, decoy):
    """(base list, view spec) such that view(base) == items; `decoy()` makes an unrelated extra item"""
    kind = rng.choice(["idx", "idxarr", "slice", "mask", "rev", "step"])
    items = list(items)
    if kind in ("idx", "idxarr"):
        base = items + [decoy() for _ in range(rng.choice([0, 1, 2]))]
        order = list(range(len(base)))
        rng.shuffle(order)
        v = {"kind": kind, "idx": [order.index(i) for i in range(len(items))]}
        base = [base[i] for i in order]
    elif kind == "slice":
        pre = [decoy() for _ in range(rng.choice([0, 1, 2]))]
        base = pre + items + [decoy() for _ in range(rng.choice([0, 1, 2]))]
        v = {"kind": "slice", "a": len(pre), "b": len(pre) + len(items)}
    elif kind == "step":
        pre = [decoy() for _ in range(rng.choice([0, 1]))]
        base = list(pre)
        for it in items:
            base += [it, decoy()]
        v = {"kind": "step", "a": len(pre)}
    elif kind == "mask":
        base, mask = [], []
        for it in items:
            for _ in range(rng.choice([0, 0, 1, 2])):
                base.append(decoy()); mask.append(False)
            base.append(it); mask.append(True)
        v = {"kind": "mask", "mask": mask}
    else:
        base = items[::-1]
        v = {"kind": "rev"}
    assert _select(base, v) == items
    return base, v


def _call(c):
    """run the real function; return (live result, canon_fn) -- canon_fn re-reads the live object"""
    bnp, EncodedArray, EncodedRaggedArray, as_encoded_array, Err = _bnp()
    from bionumpy.sequence import get_reverse_complement, translate_dna_to_protein
    op = c["op"]
    if op == "rc":
        E = _encs()[c["enc"]]
        shape = c.get("shape", "ragged")
        n = len(c["rows"])
        if "view" in c:
            base = as_encoded_array([_text(r) for r in c["view"]["base"]], E)
            r = get_reverse_complement(_apply_view(base, c["view"]))
        elif shape == "entry":
            from bionumpy.datatypes import SequenceEntry
            seqs = as_encoded_array([_text(r) for r in c["rows"]], E)
            e = SequenceEntry([f"s{i}" for i in range(n)], seqs)
            if "clone" in c:
                e = _clone(e, c["clone"])
            r = get_reverse_complement(e)

            def canon_entry(o):
                if [x.to_string() for x in o.name] != [f"s{i}" for i in range(n)]:
                    return {"err": "other:names-changed"}
                rows, enc = _rows_out(o.sequence, E)
                return {"rows": rows, "enc_same": bool(enc == E)}
            return r, canon_entry
        else:
            x = _make_input(c, E)
            if "clone" in c:
                x = _clone(x, c["clone"])
            r = get_reverse_complement(x)

        def canon_rc(o):
            rows, enc = _rows_out(o, E)
            return {"rows": rows, "enc_same": bool(enc == E)}
        return r, canon_rc
    if op == "pipe":
        return _pipe_run(c)
    if op == "rc_unsupported":
        from bionumpy.encodings import alphabet_encoding as ae
        import bionumpy as bnp
        E = {"ACUG": ae.ACUGEncoding, "AMINO": ae.AminoAcidEncoding, "DIGIT": ae.DigitEncoding,
             "QUALITY": bnp.encodings.QualityEncoding if hasattr(bnp.encodings, "QualityEncoding") else ae.DigitEncoding}[c["enc"]]
        x = as_encoded_array(c["text"], E) if c["enc"] != "QUALITY" else EncodedArray(np.array([1, 2, 3], dtype=np.uint8), E)
        r = get_reverse_complement(x)
        return r, (lambda o: {"returned": True})
    if op == "chrom":
        from bionumpy.genomic_data.genomic_sequence import GenomicSequence
        names = [f"c{i}" for i in range(len(c["seqs"]))]
        if c.get("backend") == "fasta":
            gs, _ = _fasta_genome(names, c["seqs"], c.get("width", 60))
        else:
            gs = GenomicSequence.from_dict({n: _text(s) for n, s in zip(names, c["seqs"])})
        r = gs[names[c["k"]]]
        return r, (lambda o: {"rows": _rows_out(o, None)[0]})
    if op == "strand":
        E = _encs()[c["enc"]]
        from bionumpy.datatypes import Bed6
        names = c.get("names") or [f"c{i}" for i in range(len(c["seqs"]))]
        ivs = c["view"]["base"] if "view" in c else c["ivs"]
        bed = Bed6([names[i[0]] for i in ivs], [i[1] for i in ivs], [i[2] for i in ivs], ["x"] * len(ivs),
                   [0] * len(ivs), [chr(i[3]) for i in ivs])
        if "view" in c:
            bed = _apply_view(bed, c["view"])      # the interval table itself is a fresh selection of a larger one
        via = c["via"]
        if via == "dna":
            from bionumpy.sequence.dna import get_strand_specific_sequences
            x = as_encoded_array(_text(c["seqs"][0]), E)
            if "clone" in c:
                x = _clone(x, c["clone"])
            r = get_strand_specific_sequences(x, bed)
        elif via == "plain":
            from bionumpy.sequence.dna import get_sequences
            r = get_sequences(as_encoded_array(_text(c["seqs"][0]), E), bed)
        else:
            from bionumpy.genomic_data.genomic_sequence import GenomicSequence
            backend = c.get("backend", "dict")
            other = None
            if "alive" in c:       # a second object of the same kind, with other sequences under the same names, made first ...
                other = GenomicSequence.from_dict({n: _text(s) for n, s in zip(names, c["alive"])}) if backend != "fasta" \
                    else _fasta_genome(names, c["alive"], c.get("width", 60))[0]
            if backend == "fasta" and "relative" in c:
                import os
                cwd0 = os.getcwd()
                try:
                    gs, genome = _fasta_genome(names, c["seqs"], c.get("width", 60), relative=c["relative"])
                    if c.get("entry") == "getitem":
                        r = gs[genome.get_intervals(bed, stranded=(via == "genomic"))]
                    else:
                        r = gs.extract_intervals(bed, stranded=(via == "genomic"))
                    r = r.copy() if hasattr(r, "copy") else r
                finally:
                    os.chdir(cwd0)

                def canon_rel(o):
                    rows, enc = _rows_out(o, E)
                    return {"rows": rows, "enc_same": bool(enc == E)}
                return r, canon_rel
            if backend == "fasta":
                gs, genome = _fasta_genome(names, c["seqs"], c.get("width", 60))
            else:
                gs = GenomicSequence.from_dict({n: _text(s) for n, s in zip(names, c["seqs"])})
                genome = None
            if other is not None:  # ... and used in between
                try:
                    other.extract_intervals(bed, stranded=True)
                except Exception:
                    pass
            if c.get("entry") == "getitem":
                # genomic_sequence[intervals]: stranded iff the interval object says so
                import bionumpy as bnp
                if genome is None or "ctx" in c:
                    # the genome context may list the chromosomes in ANOTHER order than the sequence container (chrom.sizes
                    # vs. file order) and may know more chromosomes than there are sequences
                    order = c.get("ctx", list(range(len(names))))
                    sizes = {names[i]: len(c["seqs"][i]) for i in order}
                    for extra in c.get("ctx_extra", []):
                        sizes[extra] = 7
                    if c.get("ctx_extra_first"):
                        sizes = dict(list(sizes.items())[::-1])
                    genome = bnp.Genome.from_dict(sizes)
                if "gi" in c:
                    # the interval object is not fresh: it was DERIVED (clipped, selected, sorted, replaced, concatenated, made
                    # as windows around locations, read from a BED file); c["ivs"] are the intervals it must then denote
                    r = gs[_derived_intervals(c, genome, names, via == "genomic")]
                else:
                    r = gs[genome.get_intervals(bed, stranded=(via == "genomic"))]
            else:
                r = gs.extract_intervals(bed, stranded=(via == "genomic"))

        def canon_strand(o):
            rows, enc = _rows_out(o, E)
            return {"rows": rows, "enc_same": bool(enc == E)}
        return r, canon_strand
    if op in ("translate", "translate_enc"):
        via = c.get("via", "list")
        texts = [_text(r) for r in c["rows"]]
        if "view" in c:
            base = as_encoded_array([_text(r) for r in c["view"]["base"]])
            r = translate_dna_to_protein(_apply_view(base, c["view"]))
        elif via == "entry":
            from bionumpy.datatypes import SequenceEntry
            r = translate_dna_to_protein(SequenceEntry([f"s{i}" for i in range(len(texts))], texts))
            return r, (lambda o: {"rows": _rows_out(o.sequence, None)[0]})
        elif via.startswith("enc:"):
            r = translate_dna_to_protein(as_encoded_array(texts, _encs()[via[4:]]))
        elif via == "ragged":
            x = as_encoded_array(texts)
            if "clone" in c:
                x = _clone(x, c["clone"])
            r = translate_dna_to_protein(x)
        else:
            r = translate_dna_to_protein(texts)
        return r, (lambda o: {"rows": _rows_out(o, None)[0]})
    if op == "translate_custom":
        from bionumpy.sequence.translate import Translate, DNAToProtein
        from bionumpy.encodings import BaseEncoding
        aa = c["amino_acids"]
        kind = c.get("kind", "amino_only")
        if kind == "amino_only":        # a user table that only overrides the amino-acid string
            T = type("UserTable", (DNAToProtein,), {"amino_acids": aa})
            table = T()
        elif kind == "subclass":        # a user table that overrides the lookup as well
            T = type("UserTable2", (DNAToProtein,), {"amino_acids": aa,
                     "_lookup": EncodedArray(np.array([ord(x) for x in aa], dtype=np.uint8), BaseEncoding)})
            table = T()
        else:                           # an instance with its own lookup
            table = DNAToProtein()
            table.amino_acids = aa
            table._lookup = EncodedArray(np.array([ord(x) for x in aa], dtype=np.uint8), BaseEncoding)
        r = Translate(table=table).windowed([_text(r_) for r_ in c["rows"]])
        return r, (lambda o: {"ignored": True})
    if op == "transcripts":
        from bionumpy.sequence.genes import get_transcript_sequences
        ref = _text(c["seq"])
        if c["via"] == "gtf":
            entries = _gtf_entries(c["exons"])
        else:
            entries = _DuckEntries([_DuckExon(f"t{t}", chr(st), a, b) for t, st, a, b in c["exons"]])
        r = get_transcript_sequences(entries, ref)

        def canon_tr(o):
            names = [x.to_string() if hasattr(x, "to_string") else str(x) for x in o.name]
            rows, enc = _rows_out(o.sequence, None)
            out = {"names": names, "rows": rows}
            if c["via"] == "gtf":
                # the exon bounds as the package parsed them (whether GTF coordinates are shifted is C02's question)
                out["bounds"] = [[int(a), int(b)] for a, b in zip(np.asarray(entries.start), np.asarray(entries.stop))]
            return out
        return r, canon_tr
    raise ValueError(op)


LAZY_CARRIERS = ("fastq", "fastq_chunks", "sam")
PIPE_CARRIERS = ("fastq", "fastq_chunks", "sam", "fasta", "entry", "entryq", "tuples", "ragged")
_PIPE_N = [0]


def _pipe_start(c):
    """the parts (one table, or the chunks of one file) the pipeline starts from"""
    import os
    import bionumpy as bnp
    from bionumpy.encoded_array import as_encoded_array
    from bionumpy.datatypes import SequenceEntry, SequenceEntryWithQuality
    carrier = c["carrier"]
    texts = [_text(r) for r in c["rows"]]
    names = [f"s{i}" for i in range(len(texts))]
    _PIPE_N[0] += 1
    stem = os.path.join(_tmpdir(), f"p{os.getpid()}_{_PIPE_N[0]}")
    if carrier in ("fastq", "fastq_chunks"):
        path = stem + ".fq"
        with open(path, "w") as fh:
            for n, t in zip(names, texts):
                fh.write(f"@{n}\n{t}\n+\n{'I' * len(t)}\n")
        if carrier == "fastq":
            return [bnp.open(path).read()]
        return list(bnp.open(path).read_chunks(min_chunk_size=c.get("chunk", 40)))
    if carrier == "sam":
        path = stem + ".sam"
        with open(path, "w") as fh:
            fh.write("@HD\tVN:1.6\n@SQ\tSN:chr1\tLN:100000\n")
            for i, (n, t) in enumerate(zip(names, texts)):
                fh.write(f"{n}\t0\tchr1\t{i + 1}\t60\t{len(t)}M\t*\t0\t0\t{t}\t{'I' * len(t)}\n")
        return [bnp.open(path).read()]
    if carrier == "fasta":
        path = stem + ".fa"
        w = c.get("width", 60)
        with open(path, "w") as fh:
            for n, t in zip(names, texts):
                fh.write(f">{n}\n")
                for i in range(0, len(t), w):
                    fh.write(t[i:i + w] + "\n")
        return [bnp.open(path).read()]
    if carrier == "entry":
        return [SequenceEntry(names, texts)]
    if carrier == "entryq":
        return [SequenceEntryWithQuality(names, texts, ["I" * len(t) for t in texts])]
    if carrier == "tuples":
        return [SequenceEntry.from_entry_tuples(list(zip(names, texts)))]
    if carrier == "ragged":
        return [as_encoded_array(texts)]
    raise ValueError(carrier)


def _pipe_step(part, st, table):
    import bionumpy as bnp
    from bionumpy.encoded_array import as_encoded_array
    from bionumpy.sequence import get_reverse_complement, translate_dna_to_protein
    k = st[0]
    if k == "rc":
        return get_reverse_complement(part)
    if k == "translate":
        return translate_dna_to_protein(part)
    if k == "replace":
        new = as_encoded_array([_text(r) for r in st[1]])
        return bnp.replace(part, sequence=new) if table else new
    if k == "same":
        return bnp.replace(part, sequence=part.sequence) if table else part
    if k == "idx":
        return part[list(st[1])]
    if k == "concat":
        return np.concatenate([part[:st[1]], part[st[1]:]])
    raise ValueError(k)


def _pipe_run(c):
    """every stage object is kept and read only after the last step (a derived table must carry ITS OWN sequence column: not
    the one of the table it was derived from, not an earlier replacement)"""
    table = c["carrier"] != "ragged"
    stages = [_pipe_start(c)]
    for st in c["steps"]:
        stages.append([_pipe_step(part, st, table) for part in stages[-1]])

    def canon_pipe(stages_):
        out = []
        for parts in stages_:
            rows, names = [], []
            for part in parts:
                rows += _rows_out(part.sequence if table else part, None)[0]
                if table:
                    names += [int(x.to_string()[1:]) for x in part.name]
            out.append({"names": names, "rows": rows} if table else {"rows": rows})
        return {"stages": out}
    return stages, canon_pipe


_BED_N = [0]


def _derived_intervals(c, genome, names, stranded):
    """build the GenomicIntervals of the case along c["gi"] = {origin, steps}"""
    import os
    import bionumpy as bnp
    from bionumpy.datatypes import Bed6
    g = c["gi"]
    origin = g["origin"]
    if origin in ("ivs", "bedfile"):
        ivs0 = g["ivs0"]
        bed = Bed6([names[i[0]] for i in ivs0], [i[1] for i in ivs0], [i[2] for i in ivs0], ["x"] * len(ivs0),
                   [0] * len(ivs0), [chr(i[3]) for i in ivs0])
        if origin == "bedfile":
            _BED_N[0] += 1
            path = os.path.join(_tmpdir(), f"iv{os.getpid()}_{_BED_N[0]}.bed")
            with open(path, "w") as fh:
                for i in ivs0:
                    fh.write(f"{names[i[0]]}\t{i[1]}\t{i[2]}\tx\t0\t{chr(i[3])}\n")
            gi = genome.read_intervals(path, stranded=stranded)
        else:
            gi = genome.get_intervals(bed, stranded=stranded)
    else:
        from bionumpy.genomic_data.genomic_intervals import GenomicLocation
        if origin == "loc":
            locs = g["locs"]
            loc = GenomicLocation.from_fields(genome.get_genome_context(), [names[x[0]] for x in locs], [x[1] for x in locs],
                                              [chr(x[2]) for x in locs] if stranded else None)
        else:            # "center": the midpoints of intervals
            ivs0 = g["ivs0"]
            bed = Bed6([names[i[0]] for i in ivs0], [i[1] for i in ivs0], [i[2] for i in ivs0], ["x"] * len(ivs0),
                       [0] * len(ivs0), [chr(i[3]) for i in ivs0])
            loc = genome.get_intervals(bed, stranded=stranded).get_location("center")
        for st in g.get("loc_steps", []):
            if st[0] == "idx":
                loc = loc[list(st[1])]
            elif st[0] == "sorted":
                loc = loc.sorted()
        gi = loc.get_windows(flank=g["flank"])
    for st in g["steps"]:
        k = st[0]
        if k == "clip":
            gi = gi.clip()
        elif k == "idx":
            gi = gi[list(st[1])]
        elif k == "idxarr":
            gi = gi[np.array(st[1], dtype=int)]
        elif k == "mask":
            gi = gi[np.array(st[1], dtype=bool)]
        elif k == "slice":
            gi = gi[st[1]:st[2]]
        elif k == "sorted":
            gi = gi.sorted()
        elif k == "replace":
            gi = bnp.replace(gi, start=gi.start) if st[1] == "start" else bnp.replace(gi, stop=gi.stop)
        elif k == "concat":
            gi = np.concatenate([gi[:st[1]], gi[st[1]:]])
        else:
            raise ValueError(k)
    return gi


def _err(e):
    bnp, EncodedArray, EncodedRaggedArray, as_encoded_array, Err = _bnp()
    return {"err": "encoding"} if isinstance(e, Err) else {"err": "other:" + type(e).__name__}


def _fresh(c):
    """run a call sequence in a NEW interpreter (what the first use in a process initialises; class-level state)"""
    import json, os, subprocess, sys
    code = ("import sys, json; sys.path.insert(0, %r); from harness import core; core.import_bionumpy(); "
            "from harness.props import c14 as m; print('RESULT' + json.dumps(m.impl(json.loads(sys.argv[1])), default=core._np_default))"
            % str(core.VERIF))
    p = subprocess.run([sys.executable, "-c", code, json.dumps({"op": "seq", "calls": c["calls"]})], capture_output=True,
                       text=True, timeout=120, env=dict(os.environ))
    for line in p.stdout.splitlines():
        if line.startswith("RESULT"):
            return json.loads(line[6:])
    return {"err": "other:fresh-process-failed"}


def mutate_live(obj, c):
    """the caller overwrites a result it was given; the same call must not notice"""
    try:
        target = obj.sequence if hasattr(obj, "sequence") else obj
        flat = target.ravel()
        data = flat.raw() if hasattr(flat, "raw") else np.asarray(flat)
        if data.size:
            data[...] = data[::-1].copy() if data.size > 1 and (data != data[::-1]).any() else (data + 1) % 4
            return True
    except Exception:
        pass
    return False


def impl(c):
    if c["op"] == "fresh":
        return _fresh(c)
    if c["op"] == "seq":
        # several calls in one process; every result is read only AFTER the last call (a result that aliases a shared /
        # cached output buffer is silently overwritten by the later call)
        live = []
        for sub in c["calls"]:
            try:
                live.append(_call(sub))
            except Exception as e:
                live.append(_err(e))
        out = []
        for x in live:
            if isinstance(x, dict):
                out.append(x)
            else:
                try:
                    out.append(x[1](x[0]))
                except Exception as e:
                    out.append(_err(e))
        return {"results": out}
    try:
        obj, canon_fn = _call(c)
        return canon_fn(obj)
    except Exception as e:
        return _err(e)


def impl_live(c):
    import copy
    obj, canon_fn = _call(c)
    # reading a ragged result materialises it in place; read a shallow clone so the live object keeps aliasing what it aliases
    return obj, (lambda o: canon_fn(copy.copy(o)))


class _DuckExon:
    """a plain-Python stand-in for one GTF exon row (what genes.py reads: transcript_id, strand, start, stop)"""
    def __init__(self, tid, strand, start, stop):
        self.transcript_id, self.strand, self.start, self.stop = tid, strand, start, stop


class _DuckExons:
    def __init__(self, es):
        self._es = es
        self.start = np.array([e.start for e in es], dtype=int)
        self.stop = np.array([e.stop for e in es], dtype=int)

    def __iter__(self):
        return iter(self._es)


class _DuckEntries:
    def __init__(self, es):
        self._es = es

    def __len__(self):
        return len(self._es)

    def get_exons(self):
        return _DuckExons(self._es)


_TMP = None


def _tmpdir():
    global _TMP
    import atexit, shutil, tempfile
    if _TMP is None:
        _TMP = tempfile.mkdtemp(prefix="c14_")
        atexit.register(shutil.rmtree, _TMP, True)
    return _TMP


_FA_N = [0]


def _write_fasta(path, names, seqs, width):
    with open(path, "w") as fh:
        for n, s in zip(names, seqs):
            t = _text(s)
            fh.write(f">{n}\n")
            for i in range(0, len(t), width):
                fh.write(t[i:i + width] + "\n")


def _fasta_genome(names, seqs, width, relative=None):
    """GenomicSequence over an indexed FASTA file (second backend), and its Genome.
    relative = other sequences (same names and lengths): the file is opened by a RELATIVE name from inside its directory and
    the process then moves to another directory that holds a file of the same name with the other sequences (per-sample
    directories); the caller restores the working directory after the extraction"""
    import os
    import bionumpy as bnp
    _FA_N[0] += 1
    if relative is not None:
        da = os.path.join(_tmpdir(), f"rel{os.getpid()}_{_FA_N[0]}_a")
        db = os.path.join(_tmpdir(), f"rel{os.getpid()}_{_FA_N[0]}_b")
        os.makedirs(da)
        os.makedirs(db)
        _write_fasta(os.path.join(da, "consensus.fa"), names, seqs, width)
        _write_fasta(os.path.join(db, "consensus.fa"), names, relative, width)
        os.chdir(da)
        genome = bnp.Genome.from_file("consensus.fa")
        gs = genome.read_sequence()
        os.chdir(db)
        return gs, genome
    path = os.path.join(_tmpdir(), f"g{os.getpid()}_{_FA_N[0]}.fa")
    _write_fasta(path, names, seqs, width)
    genome = bnp.Genome.from_file(path)
    gs = genome.read_sequence()
    return gs, genome


def _gtf_entries(exons):
    """real GTFEntry objects read back from a GTF file (1-based closed coordinates)"""
    import os
    import bionumpy as bnp
    path = os.path.join(_tmpdir(), f"t{os.getpid()}.gtf")
    with open(path, "w") as fh:
        for i, (t, st, a, b) in enumerate(exons):
            fh.write(f'chr1\tsrc\texon\t{a + 1}\t{b}\t.\t{chr(st)}\t.\tgene_id "g{t}"; transcript_id "t{t}"; exon_id "e{i}";\n')
    return bnp.open(path).read()


# --------------------------------------------------------------------------- Lean driver request

def _codes(enc, s):
    if enc == "ASCII":
        return list(s)
    A = [ord(ch) for ch in _STATIC[enc]]
    return [A.index(_up(b)) for b in s]


def model_request(c):
    op = c["op"]
    if op == "pipe":
        steps = []
        for st in c["steps"]:
            d = {"k": st[0]}
            if st[0] == "replace":
                d["rows"] = st[1]
            elif st[0] == "idx":
                d["p"] = st[1]
            elif st[0] == "concat":
                d["n"] = st[1]
            steps.append(d)
        return {"op": "pipe", "rows": c["rows"], "named": c["carrier"] != "ragged", "steps": steps}
    if op == "strand" and "gi" in c:
        return _gi_request(c)
    if op in ("seq", "fresh", "translate_custom"):
        return None      # the Lean model is pure: a sequence of calls is the list of the single calls (compared there)
    if op == "rc":
        return {"op": "rc", "enc": c["enc"], "codes": [_codes(c["enc"], r) for r in c["rows"]],
                "flat": c.get("shape", "ragged") in ("flat", "str1") and "view" not in c}
    if op == "strand":
        return {"op": "strand", "enc": c["enc"], "via": c["via"], "codes": [_codes(c["enc"], s) for s in c["seqs"]],
                "ivs": c["ivs"]}
    if op in ("rc_unsupported", "chrom"):
        return None
    if op == "translate":
        return {"op": "translate", "rows": c["rows"]}
    if op == "transcripts" and c["via"] == "duck" and c["exons"]:
        return {"op": "transcripts", "codes": _codes("ACGTN", c["seq"]), "exons": c["exons"]}
    return None   # translate_enc, transcripts read back from a GTF file: implementation vs oracle only


def _gi_request(c):
    """the derivation as the Lean model runs it (`GI.step`, `windows`): selections of every spelling are index lists (`sorted`
    = the stable permutation the generator computed), replacing a column by itself is `same`; locations are sent after their
    own selection / sorting, interval midpoints as locations"""
    g = c["gi"]
    steps = []
    cnt = None
    for st in g["steps"]:
        k = st[0]
        if k == "clip":
            steps.append({"k": "clip"})
        elif k in ("idx", "idxarr"):
            steps.append({"k": "idx", "p": st[1]})
        elif k == "mask":
            steps.append({"k": "idx", "p": [i for i, m in enumerate(st[1]) if m]})
        elif k == "slice":
            steps.append({"k": "idx", "p": list(range(st[1], st[2]))})
        elif k == "sorted":
            steps.append({"k": "idx", "p": st[1]})
        elif k == "replace":
            steps.append({"k": "same"})
        else:
            steps.append({"k": "concat", "n": st[1]})
    req = {"op": "strand_gi", "enc": c["enc"], "codes": [_codes(c["enc"], s) for s in c["seqs"]],
           "stranded": c["via"] == "genomic", "steps": steps}
    if g["origin"] in ("loc", "center"):
        locs = g["locs"] if g["origin"] == "loc" else [[ch, (a + b) // 2, st] for ch, a, b, st in g["ivs0"]]
        rank = {ch: i for i, ch in enumerate(c.get("ctx", list(range(len(c["seqs"])))))}
        for st in g.get("loc_steps", []):
            if st[0] == "idx":
                locs = [locs[i] for i in st[1]]
            else:
                locs = sorted(locs, key=lambda x: (rank[x[0]], x[1]))
        req.update(origin="loc", locs=locs, flank=g["flank"])
    else:
        req.update(origin="ivs", ivs=g["ivs0"])
    return req


# --------------------------------------------------------------------------- cases

def _alpha(enc, lower=True):
    if enc == "ASCII":
        return DNA10
    A = [ord(ch) for ch in _STATIC[enc]]
    return A + ([a + 32 for a in A] if lower else [])


def _small_calls(rng, n):
    """small single calls for call sequences and core's history probe"""
    out = []
    up = [ord(ch) for ch in "TCAG"]
    while len(out) < n:
        kind = rng.choice(["rc", "rc", "translate", "translate", "strand", "transcripts"])
        if kind == "rc":
            enc = rng.choice(PROP_ENCS + ["ACTG", "ACTGN"])
            A = _alpha(enc)
            rows = [[rng.choice(A) for _ in range(rng.choice([0, 1, 2, 3, 5, 8]))] for _ in range(rng.choice([1, 1, 2, 3]))]
            shape = rng.choice(["ragged", "ragged", "entry", "flat"] + (["str"] if enc == "ASCII" else []))
            if enc in ("ACTG", "ACTGN"):
                rows = [[b for b in r if b < 97] for r in rows]
            if shape == "flat":
                rows = rows[:1]
            out.append({"op": "rc", "enc": enc, "rows": rows, "shape": shape})
        elif kind == "translate":
            rows = [[b + 32 * (rng.random() < 0.2) for _ in range(rng.choice([0, 1, 2, 3, 5])) for b in (rng.choice(up), rng.choice(up), rng.choice(up))]
                    for _ in range(rng.choice([1, 1, 2, 3]))]
            if not any(rows):
                rows[0] = [84, 71, 65]
            out.append({"op": "translate", "rows": rows, "via": rng.choice(["list", "entry", "ragged"])})
        elif kind == "strand":
            enc = rng.choice(PROP_ENCS)
            A = _alpha(enc)
            s = [rng.choice(A) for _ in range(rng.choice([3, 6, 10]))]
            ivs = []
            for _ in range(rng.choice([1, 2, 3])):
                a = rng.randrange(len(s) + 1)
                ivs.append([0, a, rng.randrange(a, len(s) + 1), rng.choice([43, 45])])
            via = "genomic" if (enc == "ACGTN" and rng.random() < 0.5) else "dna"
            out.append({"op": "strand", "enc": enc, "via": via, "seqs": [s], "ivs": ivs})
        else:
            A = _alpha("ACGTN")
            s = [rng.choice(A) for _ in range(rng.choice([3, 6, 10]))]
            exons, pos = [], 0
            for t in range(rng.choice([1, 2])):
                st = rng.choice([43, 45])
                a = rng.randrange(len(s) + 1)
                exons.append([t, st, a, rng.randrange(a, len(s) + 1)])
            out.append({"op": "transcripts", "seq": s, "exons": exons, "via": "duck"})
    return out


def _size(c):
    return sum(len(r) for r in c.get("rows", [])) + sum(iv[2] - iv[1] for iv in c.get("ivs", [])) + \
        sum(e[3] - e[2] for e in c.get("exons", []))


_MITO = "FFLLSSSSYY**CCWWLLLLPPPPHHQQRRRRIIMMTTTTNNKKSS**VVVVAAAADDEEGGGG"      # NCBI table 2, TCAG order
_YEAST = "FFLLSSSSYY**CCWWTTTTPPPPHHQQRRRRIIMMTTTTNNKKSSRRVVVVAAAADDEEGGGG"     # NCBI table 3


def _custom_table_sequences(rng, n):
    """a user codon table (public extension point Translate(table=...)) used before / between standard translations"""
    up = [84, 67, 65, 71]
    codons = [list(cd) for cd in itertools.product(up, repeat=3)]
    for _ in range(n):
        aa = rng.choice([_MITO, _YEAST, "".join(rng.choice("ACDEFGHIKLMNPQRSTVWY*") for _ in range(64))])
        kind = rng.choice(["amino_only", "amino_only", "subclass", "instance"])
        custom = {"op": "translate_custom", "amino_acids": aa, "kind": kind,
                  "rows": [[b for cd in rng.sample(codons, 3) for b in cd], list(rng.choice(codons))]}
        std_all = {"op": "translate", "rows": [[b for cd in codons for b in cd]], "via": "list"}
        std_some = {"op": "translate", "rows": [list(cd) for cd in rng.sample(codons, 5)] + [[84, 71, 65, 65, 84, 65, 65, 71, 65, 65, 71, 71]],
                    "via": rng.choice(["list", "entry", "ragged"])}
        order = rng.choice([[custom, std_all, std_some], [std_some, custom, std_all], [custom, std_some, custom, std_all]])
        yield order


def _sequences(rng, n_seq):
    """explicit call sequences: same function and same encoding with the LATER input no larger than the earlier one
    (an output buffer shared between calls is overwritten in place), A-B-A, and mixed sequences"""
    pool = _small_calls(rng, 4 * n_seq)
    by = {}
    for c in pool:
        by.setdefault((c["op"], c.get("enc"), c.get("via"), c.get("shape")), []).append(c)
    groups = [g for g in by.values() if len(g) >= 2]
    for _ in range(n_seq):
        r = rng.random()
        if r < 0.6:
            g = rng.choice(groups)
            calls = sorted(rng.sample(g, min(len(g), rng.choice([2, 2, 3]))), key=_size, reverse=True)
        elif r < 0.8:
            g = rng.choice(groups)
            a = rng.choice(g)
            calls = [a, rng.choice(g), dict(a)]
        else:
            calls = rng.sample(pool, 3)
        yield {"op": "seq", "calls": calls}


def _pipes(rng, n):
    """pipelines over tables of sequences: the carrier kinds (file-backed lazy tables: FASTQ, FASTQ chunks, SAM; eagerly read
    FASTA; tables made in memory; a bare array) x compositions of the property's functions with the table operations that sit
    between them in user code (replace a column, select rows, concatenate)"""
    up = [84, 67, 65, 71]
    for _ in range(n):
        carrier = rng.choice(PIPE_CARRIERS + LAZY_CARRIERS)
        coding = rng.random() < 0.5
        no_empty = carrier in ("sam", "fasta")

        def row():
            if coding:
                k = rng.choice([1, 2, 3, 5] if no_empty else [0, 1, 2, 3, 5])
                return [b + 32 * (rng.random() < 0.15) for _ in range(k) for b in (rng.choice(up), rng.choice(up), rng.choice(up))]
            return [rng.choice(DNA10) for _ in range(rng.choice([1, 2, 3, 5, 9] if no_empty else [0, 1, 2, 3, 5, 9]))]
        rows = [row() for _ in range(rng.choice([1, 2, 3, 4, 6]))]
        if not any(rows):
            rows[0] = [84, 71, 65]
        count = len(rows)
        if carrier == "fastq_chunks":
            kinds = rng.choice([["rc"], ["rc", "rc"], ["rc", "rc", "rc"], ["same", "rc"], ["rc", "same", "rc"]] +
                               ([["rc", "translate"], ["translate"], ["rc", "rc", "translate"]] if coding else []))
        else:
            fixed = [["rc"], ["rc", "rc"], ["rc", "rc", "rc"], ["replace", "rc"], ["rc", "replace"], ["rc", "replace", "rc"],
                     ["same", "rc"], ["rc", "same", "rc"], ["idx", "rc", "rc"], ["rc", "idx", "rc"], ["rc", "concat", "rc"],
                     ["replace", "replace"], ["rc", "rc", "replace"], ["replace", "idx", "rc"]]
            if coding:
                fixed += [["rc", "translate"], ["translate"], ["rc", "rc", "translate"], ["replace", "translate"],
                          ["rc", "replace", "translate"], ["same", "translate"], ["rc", "idx", "translate"], ["rc", "concat", "translate"]]
            if rng.random() < 0.7:
                kinds = rng.choice(fixed)
            else:
                kinds = [rng.choice(["rc", "rc", "replace", "same", "idx", "concat"]) for _ in range(rng.choice([2, 3, 4]))]
                if coding and rng.random() < 0.5:
                    kinds.append("translate")
        steps = []
        for k in kinds:
            if k == "replace":
                steps.append(["replace", [row() for _ in range(count)]])
            elif k == "idx":
                idx = [rng.randrange(count) for _ in range(rng.choice([count, count, max(1, count - 1), count + 1]))]
                count = len(idx)
                steps.append(["idx", idx])
            elif k == "concat":
                steps.append(["concat", rng.randrange(count + 1)])
            else:
                steps.append([k])
        c = {"op": "pipe", "carrier": carrier, "rows": rows, "steps": steps}
        if carrier == "fastq_chunks":
            c["chunk"] = rng.choice([1, 40, 100])
        if carrier == "fasta":
            c["width"] = rng.choice([3, 60])
        yield c


def _outside(rng, n):
    """table operations outside their domain (a replaced column of another length, a row index past the end): judged by the
    Lean model only (AssertionError / IndexError), so that the model's refusals are seen by the correspondence"""
    for base in _pipes(rng, 4 * n):
        if base["carrier"] in ("ragged", "fastq_chunks") or n <= 0:
            continue
        steps = list(base["steps"])
        cut = rng.randrange(len(steps) + 1)
        count = len(base["rows"])
        for st in steps[:cut]:
            if st[0] == "idx":
                count = len(st[1])
        if rng.random() < 0.5:
            k = rng.choice([count + 1, count + 2, max(0, count - 1)] if count > 1 else [count + 1, 0])
            bad = ["replace", [[rng.choice(DNA10) for _ in range(3)] for _ in range(k)]]
        else:
            bad = ["idx", [rng.randrange(count) for _ in range(rng.choice([0, 1, 2]))] + [count + rng.choice([0, 1, 5])]]
        tail = [st for st in steps[cut:] if st[0] in ("rc", "same")][:1]
        yield dict(base, steps=steps[:cut] + [bad] + tail)
        n -= 1


def _derived(rng, n):
    """genomic_sequence[intervals] where the interval object is DERIVED: clipped to the genome, a selection, sorted, with a
    replaced column, concatenated, windows around (stranded) locations / interval midpoints, read from a BED file.
    c["ivs"] = what the derived object must denote (computed here from the definitions of the derivations)"""
    A = _alpha("ACGTN")
    for _ in range(n):
        nseq = rng.choice([1, 2, 3])
        ss = [[rng.choice(A) for _ in range(rng.choice([4, 6, 9, 12]))] for _ in range(nseq)]
        order = list(range(nseq))
        backend = rng.choice(["dict", "dict", "fasta"])
        if backend == "dict" and rng.random() < 0.4:
            rng.shuffle(order)
        rank = {ch: i for i, ch in enumerate(order)}
        origin = rng.choice(["ivs", "ivs", "ivs", "bedfile", "loc", "loc", "center"])
        via = rng.choice(["genomic", "genomic", "genomic", "unstranded"])
        m = rng.choice([1, 2, 3, 4, 6])
        g = {"origin": origin}
        strands = [rng.choice([43, 45]) for _ in range(m)]
        if origin in ("loc", "center"):
            f = rng.choice([0, 1, 2, 3])
            if origin == "loc":
                locs = []
                for st in strands:
                    ch = rng.randrange(nseq)
                    locs.append([ch, rng.randrange(len(ss[ch])), st])
                g["locs"] = locs
            else:
                ivs0 = []
                for st in strands:
                    ch = rng.randrange(nseq)
                    a = rng.randrange(len(ss[ch]))
                    ivs0.append([ch, a, rng.randrange(a + 1, len(ss[ch]) + 1), st])
                g["ivs0"] = ivs0
                locs = [[ch, (a + b) // 2, st] for ch, a, b, st in ivs0]
            lsteps = []
            if rng.random() < 0.4:
                if rng.random() < 0.5:
                    idx = [rng.randrange(len(locs)) for _ in range(rng.choice([len(locs), max(1, len(locs) - 1)]))]
                    locs = [locs[i] for i in idx]
                    lsteps.append(["idx", idx])
                else:
                    locs = sorted(locs, key=lambda x: (rank[x[0]], x[1]))
                    lsteps.append(["sorted"])
            g["loc_steps"] = lsteps
            g["flank"] = f
            ivs = [[ch, max(0, p - f), min(len(ss[ch]), p + f + 1), st] for ch, p, st in locs]
            must_clip = False
        else:
            ivs = []
            must_clip = rng.random() < 0.5
            for st in strands:
                ch = rng.randrange(nseq)
                L = len(ss[ch])
                a = rng.randrange(L + 1)
                b = rng.randrange(a, L + 1)
                if must_clip and rng.random() < 0.6:
                    b = L + rng.choice([1, 2, 5])
                ivs.append([ch, a, b, st])
            g["ivs0"] = [list(iv) for iv in ivs]
        steps = []
        kinds = [rng.choice(["clip", "idx", "idxarr", "mask", "slice", "sorted", "replace", "concat"]) for _ in range(rng.choice([0, 1, 1, 2, 3]))]
        if must_clip:
            kinds = ["clip"] + kinds
        if origin in ("ivs",) and not kinds:
            kinds = ["clip"]
        for k in kinds:
            cnt = len(ivs)
            if k == "clip":
                ivs = [[ch, max(0, a), min(len(ss[ch]), b), st] for ch, a, b, st in ivs]
                steps.append(["clip"])
            elif k in ("idx", "idxarr"):
                idx = [rng.randrange(cnt) for _ in range(rng.choice([cnt, cnt, max(1, cnt - 1), cnt + 1]))]
                ivs = [ivs[i] for i in idx]
                steps.append([k, idx])
            elif k == "mask":
                mask = [rng.random() < 0.7 for _ in range(cnt)]
                if not any(mask):
                    mask[rng.randrange(cnt)] = True
                ivs = [iv for iv, mk in zip(ivs, mask) if mk]
                steps.append(["mask", mask])
            elif k == "slice":
                a = rng.randrange(cnt)
                b = rng.randrange(a + 1, cnt + 1)
                ivs = ivs[a:b]
                steps.append(["slice", a, b])
            elif k == "sorted":
                perm = sorted(range(cnt), key=lambda i: (rank[ivs[i][0]], ivs[i][1], ivs[i][2]))
                ivs = [ivs[i] for i in perm]
                steps.append(["sorted", perm])
            elif k == "replace":
                steps.append(["replace", rng.choice(["start", "stop"])])
            else:
                steps.append(["concat", rng.randrange(cnt + 1)])
        if rng.random() < 0.03:
            steps.append(["idx", [len(ivs) + rng.choice([0, 1, 4])]])      # an interval that does not exist
            g["outside"] = True
        g["steps"] = steps
        c = {"op": "strand", "enc": "ACGTN", "via": via, "seqs": ss, "ivs": ivs, "entry": "getitem", "gi": g}
        if backend == "fasta":
            c.update(backend="fasta", width=rng.choice([3, 60]))
        elif order != list(range(nseq)):
            c["ctx"] = order
        yield c


def live_cases(tier, rng):
    return _small_calls(rng, 1500 if tier in ("thorough", "widen") else 600)


def cases(tier, rng):
    big = tier in ("thorough", "widen")
    # 0. call sequences (history) -- results are read after the last call
    yield from _sequences(rng, 2000 if big else 300)
    for calls in _custom_table_sequences(rng, 40 if big else 8):
        yield {"op": "seq", "calls": calls}
    # 0'. the same in a NEW interpreter: whatever the FIRST use in a process initialises (lazily built class-level tables,
    #     caches) must not leak into the standard functions; also two alphabets of the same size one after the other
    for calls in _custom_table_sequences(rng, 6 if big else 3):
        rc = [{"op": "rc", "enc": e, "rows": [[rng.choice(_alpha(e)) for _ in range(5)], []], "shape": "ragged"} for e in ("ACTG", "ACGT", "ACTGN", "ACGTN")]
        rng.shuffle(rc)
        yield {"op": "fresh", "calls": calls + rc}
    # 0a. pipelines over tables of sequences (carrier kinds x compositions), and derived interval objects as index
    yield from _pipes(rng, 3000 if big else 400)
    yield from _derived(rng, 3000 if big else 400)
    yield from _outside(rng, 300 if big else 40)
    # 0a'. equal-but-not-identical inputs: unpickled (a worker's argument), deep / shallow copies, a freshly made encoding object
    for c in _small_calls(rng, 4000 if big else 700):
        hows = ["deepcopy", "copy", "fresh"]
        if c["op"] == "rc" and c.get("shape") in ("ragged", "entry", "flat"):
            if c["shape"] == "ragged":
                hows.append("pickle")        # flat arrays and tables cannot be pickled at all (not this property's business)
            yield dict(c, clone=rng.choice(hows))
        elif c["op"] == "translate" and c.get("via") == "ragged":
            yield dict(c, clone=rng.choice(hows + ["pickle"]))
        elif c["op"] == "strand" and c["via"] == "dna":
            yield dict(c, clone=rng.choice(hows))
    for enc in ENC_NAMES:
        for b in _alpha(enc):
            for how in ("pickle", "deepcopy", "fresh"):
                yield {"op": "rc", "enc": enc, "rows": [[b], []], "shape": "ragged", "clone": how}
    # 0b. fresh, not yet materialised views as inputs: ragged sequence arrays and interval tables
    for c in _small_calls(rng, 4000 if big else 600):
        if c["op"] == "rc" and c.get("shape") in ("ragged", "entry", "str"):
            E = c["enc"]
            A = _alpha(E)
            base, v = _view_of(rng, [list(r) for r in c["rows"]], lambda: [rng.choice(A) for _ in range(rng.choice([0, 1, 2, 4]))])
            yield {"op": "rc", "enc": E, "rows": c["rows"], "shape": "ragged", "view": dict(v, base=base)}
        elif c["op"] == "translate":
            up_ = [84, 67, 65, 71]
            base, v = _view_of(rng, [list(r) for r in c["rows"]],
                               lambda: [rng.choice(up_) for _ in range(3 * rng.choice([0, 1, 2]))])
            yield {"op": "translate", "rows": c["rows"], "via": "ragged", "view": dict(v, base=base)}
        elif c["op"] == "strand":
            n = len(c["seqs"][0])

            def decoy_iv():
                a = rng.randrange(n + 1)
                return [0, a, rng.randrange(a, n + 1), rng.choice([43, 45])]
            base, v = _view_of(rng, [list(iv) for iv in c["ivs"]], decoy_iv)
            yield dict(c, view=dict(v, base=base))
    # 0c. many intervals / rows (>= 17) in one call
    for enc in PROP_ENCS:
        A = _alpha(enc)
        for _ in range(40 if big else 6):
            s = [rng.choice(A) for _ in range(rng.choice([6, 12, 30]))]
            n = len(s)
            ivs = []
            for _ in range(rng.choice([17, 18, 20, 33, 64])):
                a = rng.randrange(n + 1)
                ivs.append([0, a, min(n, a + rng.choice([0, 1, 2, 3, 5])), rng.choice([43, 45])])
            yield {"op": "strand", "enc": enc, "via": "dna", "seqs": [s], "ivs": ivs}
            if enc == "ACGTN":
                yield {"op": "strand", "enc": enc, "via": "genomic", "seqs": [s], "ivs": ivs}
            rows = [[rng.choice(A) for _ in range(rng.choice([0, 1, 2, 3, 5]))] for _ in range(rng.choice([17, 20, 40]))]
            yield {"op": "rc", "enc": enc, "rows": rows, "shape": rng.choice(["ragged", "entry"])}
    up0 = [84, 67, 65, 71]
    for _ in range(20 if big else 4):
        rows = [[rng.choice(up0) for _ in range(3 * rng.choice([0, 1, 2, 3]))] for _ in range(rng.choice([17, 20, 40]))]
        yield {"op": "translate", "rows": rows, "via": rng.choice(["list", "entry", "ragged"])}
    A5 = _alpha("ACGTN")
    for _ in range(20 if big else 4):
        s = [rng.choice(A5) for _ in range(30)]
        exons = []
        for t in range(rng.choice([17, 20, 30])):
            a = rng.randrange(len(s) + 1)
            exons.append([t, rng.choice([43, 45]), a, min(len(s), a + rng.choice([0, 1, 2, 4]))])
        yield {"op": "transcripts", "seq": s, "exons": exons, "via": "duck"}
    # 1. every symbol of every encoding as a one-symbol array (flat and one-row ragged)
    for enc in ENC_NAMES:
        for b in _alpha(enc):
            yield {"op": "rc", "enc": enc, "rows": [[b]], "shape": "flat"}
            yield {"op": "rc", "enc": enc, "rows": [[b]], "shape": "ragged"}
    # 2. every string <= L over the letters, flat
    L = 4 if big else 3
    for enc in PROP_ENCS:
        A = _alpha(enc)
        for l in range(0, L + 1):
            for s in itertools.product(A, repeat=l):
                if l == L and not big and rng.random() < 0.5:
                    continue
                yield {"op": "rc", "enc": enc, "rows": [list(s)], "shape": "flat"}
    for enc in ("ACTG", "ACTGN"):
        for l in range(0, 3):
            for s in itertools.product(_alpha(enc, lower=False), repeat=l):
                yield {"op": "rc", "enc": enc, "rows": [list(s)], "shape": "flat"}
    # 3. ragged: exhaustive tiny, random beyond; all entry shapes
    for enc in PROP_ENCS:
        A = _alpha(enc)
        small = [list(s) for l in range(0, 3) for s in itertools.product(A[:5] if not big else A, repeat=l)]
        for r1 in small:
            for r2 in (small if big else rng.sample(small, 6)):
                yield {"op": "rc", "enc": enc, "rows": [r1, r2], "shape": "ragged"}
        for _ in range(1500 if big else 150):
            rows = [[rng.choice(A) for _ in range(rng.choice([0, 0, 1, 2, 3, 5, 9]))] for _ in range(rng.choice([1, 2, 3, 4, 6]))]
            shape = rng.choice(["ragged", "entry"] + (["str"] if enc == "ASCII" else []))
            yield {"op": "rc", "enc": enc, "rows": rows, "shape": shape}
        if enc == "ASCII":
            for _ in range(300 if big else 40):
                yield {"op": "rc", "enc": enc, "rows": [[rng.choice(A) for _ in range(rng.choice([1, 2, 3, 7]))]], "shape": "str1"}
    # 4. stranded extraction: every interval x strand on short sequences, then random sets
    for enc in PROP_ENCS:
        A = _alpha(enc)
        seqs = [[rng.choice(A) for _ in range(n)] for n in ([1, 2, 4, 5] if not big else [1, 2, 3, 4, 5, 6, 7])]
        seqs.append([b for b in A][:6])
        for s in seqs:
            n = len(s)
            allivs = [[0, a, b, st] for a in range(n + 1) for b in range(a, n + 1) for st in (43, 45)]
            for iv in allivs:
                yield {"op": "strand", "enc": enc, "via": "dna", "seqs": [s], "ivs": [iv]}
            yield {"op": "strand", "enc": enc, "via": "dna", "seqs": [s], "ivs": allivs}
            if enc == "ACGTN":
                yield {"op": "strand", "enc": enc, "via": "genomic", "seqs": [s], "ivs": allivs}
                for iv in (allivs if big else rng.sample(allivs, min(6, len(allivs)))):
                    yield {"op": "strand", "enc": enc, "via": "genomic", "seqs": [s], "ivs": [iv]}
        for _ in range(800 if big else 80):
            via = "genomic" if (enc == "ACGTN" and rng.random() < 0.5) else "dna"
            nseq = rng.choice([1, 2, 3]) if via == "genomic" else 1
            ss = [[rng.choice(A) for _ in range(rng.choice([1, 3, 6, 12]))] for _ in range(nseq)]
            ivs = []
            for _ in range(rng.choice([1, 2, 3, 5])):
                ch = rng.randrange(nseq)
                a = rng.randrange(len(ss[ch]) + 1)
                b = rng.randrange(a, len(ss[ch]) + 1)
                ivs.append([ch, a, b, rng.choice([43, 45])])
            yield {"op": "strand", "enc": enc, "via": via, "seqs": ss, "ivs": ivs}
    # 4b. narrow shapes: an empty interval (start == stop) in first / middle position; interval sets and ragged
    #     inputs with UNEQUAL row lengths whose total equals n_rows * len(rows[0]) (looks like a matrix by size)
    for enc in PROP_ENCS:
        A = _alpha(enc)
        for _ in range(60 if big else 12):
            s = [rng.choice(A) for _ in range(rng.choice([4, 6, 9]))]
            n = len(s)
            for lens in ([2, 1, 3], [1, 0, 2], [3, 0, 6], [2, 4, 0], [1, 1, 0, 2], [0, 0, 3, 1, 1][: rng.choice([3, 5])]):
                if max(lens) > n:
                    continue
                ivs = []
                for l in lens:
                    a = rng.randrange(n - l + 1)
                    ivs.append([0, a, a + l, rng.choice([43, 45])])
                yield {"op": "strand", "enc": enc, "via": "dna", "seqs": [s], "ivs": ivs}
                if enc == "ACGTN":
                    yield {"op": "strand", "enc": enc, "via": "genomic", "seqs": [s], "ivs": ivs}
                rows = [[rng.choice(A) for _ in range(l)] for l in lens]
                yield {"op": "rc", "enc": enc, "rows": rows, "shape": rng.choice(["ragged", "entry"])}
    # 4b2. the other entry points: get_sequences (unstranded), extract_intervals(stranded=False), genomic_sequence[intervals]
    #      (stranded iff the interval object is), and the indexed-FASTA backend (wrapped lines)
    for enc in PROP_ENCS:
        A = _alpha(enc)
        for _ in range(120 if big else 20):
            nseq = rng.choice([1, 2, 3]) if enc == "ACGTN" else 1
            ss = [[rng.choice(A) for _ in range(rng.choice([1, 3, 6, 12, 20]))] for _ in range(nseq)]
            ivs = []
            for _ in range(rng.choice([1, 2, 3, 5])):
                ch = rng.randrange(nseq)
                a = rng.randrange(len(ss[ch]) + 1)
                ivs.append([ch, a, rng.randrange(a, len(ss[ch]) + 1), rng.choice([43, 45])])
            if nseq == 1:
                yield {"op": "strand", "enc": enc, "via": "plain", "seqs": ss, "ivs": ivs}
            if enc == "ACGTN":
                yield {"op": "strand", "enc": enc, "via": "unstranded", "seqs": ss, "ivs": ivs}
                yield {"op": "strand", "enc": enc, "via": rng.choice(["genomic", "unstranded"]), "seqs": ss, "ivs": ivs, "entry": "getitem"}
                other = [[rng.choice(A) for _ in range(len(x))] for x in ss]      # same names and lengths, other letters
                yield {"op": "strand", "enc": enc, "via": "genomic", "seqs": ss, "ivs": ivs, "alive": other,
                       **({"backend": "fasta", "width": rng.choice([3, 60])} if rng.random() < 0.3 else {})}
                if rng.random() < 0.5:
                    yield {"op": "strand", "enc": enc, "via": rng.choice(["genomic", "genomic", "unstranded"]), "seqs": ss, "ivs": ivs,
                           "backend": "fasta", "width": rng.choice([1, 3, 4, 7, 60]),
                           **({"entry": "getitem"} if rng.random() < 0.5 else {})}
    # 4b2''. the indexed FASTA was opened by a relative name and the process changed directory before the first extraction
    #        (the new directory holds a file of the same name, same contigs, other letters)
    A5r = _alpha("ACGTN")
    for _ in range(60 if big else 12):
        nseq = rng.choice([1, 2, 3])
        ss = [[rng.choice(A5r) for _ in range(rng.choice([3, 6, 12, 20]))] for _ in range(nseq)]
        other = [[rng.choice(A5r) for _ in range(len(x))] for x in ss]
        ivs = []
        for _ in range(rng.choice([1, 2, 3, 5])):
            ch = rng.randrange(nseq)
            a = rng.randrange(len(ss[ch]) + 1)
            ivs.append([ch, a, rng.randrange(a, len(ss[ch]) + 1), rng.choice([43, 45])])
        yield {"op": "strand", "enc": "ACGTN", "via": rng.choice(["genomic", "genomic", "unstranded"]), "seqs": ss, "ivs": ivs,
               "backend": "fasta", "width": rng.choice([3, 7, 60]), "relative": other,
               **({"entry": "getitem"} if rng.random() < 0.5 else {})}
    # 4b2'. the genome context orders / names the chromosomes differently from the sequence container
    A5c = _alpha("ACGTN")
    pool = ["chr1", "chr10", "chr2", "chrX", "chr11", "chrM", "1", "10", "2"]
    for _ in range(150 if big else 30):
        nseq = rng.choice([2, 3, 4])
        names = rng.sample(pool, nseq)
        L = rng.choice([4, 6, 9])
        ss = [[rng.choice(A5c) for _ in range(L + rng.choice([0, 0, 1, 3]))] for _ in range(nseq)]      # similar lengths: a wrong
        ivs = []                                                                                        # chromosome still fits
        for _ in range(rng.choice([1, 2, 4, 6])):
            ch = rng.randrange(nseq)
            a = rng.randrange(L)
            ivs.append([ch, a, rng.randrange(a, L + 1), rng.choice([43, 45])])
        order = list(range(nseq))
        kind = rng.choice(["perm", "sorted", "natural", "reversed"])
        if kind == "perm":
            rng.shuffle(order)
        elif kind == "sorted":
            order.sort(key=lambda i: names[i])
        elif kind == "natural":
            order.sort(key=lambda i: (len(names[i]), names[i]))
        else:
            order.reverse()
        backend = rng.choice(["dict", "dict", "fasta"])
        c = {"op": "strand", "enc": "ACGTN", "via": rng.choice(["genomic", "genomic", "unstranded"]), "seqs": ss, "ivs": ivs,
             "entry": "getitem", "names": names, "ctx": order}
        if backend == "fasta":
            c.update(backend="fasta", width=rng.choice([3, 60]))
        elif rng.random() < 0.4:
            c.update(ctx_extra=[rng.choice(["chrUn", "chr0", "scaffold9"])], ctx_extra_first=rng.random() < 0.5)
        yield c
    A5_ = _alpha("ACGTN")
    for _ in range(30 if big else 6):
        ss = [[rng.choice(A5_) for _ in range(rng.choice([1, 4, 9]))] for _ in range(rng.choice([1, 2]))]
        yield {"op": "chrom", "seqs": ss, "k": rng.randrange(len(ss)),
               **({"backend": "fasta", "width": rng.choice([2, 3, 60])} if rng.random() < 0.5 else {})}
    # 4b3. encodings that are not DNA are refused
    for enc, text in (("ACUG", "ACGU"), ("ACUG", "U"), ("AMINO", "ACD"), ("AMINO", "W"), ("DIGIT", "123"), ("QUALITY", "")):
        yield {"op": "rc_unsupported", "enc": enc, "text": text}
    yield {"op": "transcripts", "seq": [65, 67, 71], "exons": [], "via": "duck"}
    # 4c. transcript sequences (sequence/genes.py): exons grouped by transcript, '-' transcripts reverse-complemented
    A = _alpha("ACGTN")
    for _ in range(600 if big else 80):
        s = [rng.choice(A) for _ in range(rng.choice([1, 2, 5, 9, 14]))]
        n = len(s)
        exons, t = [], 0
        for _ in range(rng.choice([1, 1, 2, 3, 4])):
            st = rng.choice([43, 45])
            pos = 0
            for _ in range(rng.choice([1, 1, 2, 3])):
                if pos > n:
                    break
                a = rng.randrange(pos, n + 1)
                b = min(n, a + rng.choice([0, 1, 1, 2, 3, 5]))
                exons.append([t, st, a, b])
                pos = b
            t += 1
        yield {"op": "transcripts", "seq": s, "exons": exons, "via": "duck"}
    # exon lines of two or three transcripts interleaved (coordinate-sorted annotation with overlapping transcripts)
    for _ in range(300 if big else 40):
        s = [rng.choice(A) for _ in range(rng.choice([6, 10, 16, 25]))]
        n = len(s)
        ntr = rng.choice([2, 2, 3])
        strands = [rng.choice([43, 45]) for _ in range(ntr)]
        pos = [0] * ntr
        exons = []
        order = [rng.randrange(ntr) for _ in range(rng.choice([3, 4, 5, 6]))]
        for t in order:
            if pos[t] > n:
                continue
            a = rng.randrange(pos[t], n + 1)
            b = min(n, a + rng.choice([1, 1, 2, 3, 4]))
            exons.append([t, strands[t], a, b])
            pos[t] = b
        if len({e[0] for e in exons}) >= 2:
            yield {"op": "transcripts", "seq": s, "exons": exons, "via": "duck"}
    yield {"op": "transcripts", "seq": [ord(ch) for ch in "ACGTNACGTNACGTTGCA"], "via": "gtf",
           "exons": [[0, 43, 1, 4], [1, 45, 3, 8], [0, 43, 9, 12], [1, 45, 12, 16]]}
    for exons in ([[0, 43, 0, 3], [0, 43, 4, 6], [1, 45, 1, 4]], [[0, 45, 0, 1]]):
        yield {"op": "transcripts", "seq": [ord(ch) for ch in "ACGTNACGTN"], "exons": exons, "via": "gtf"}
    # 5. translation: all 64 codons, upper and lower and mixed case; pairs; concatenations; ragged with empty rows
    up = [ord(ch) for ch in "TCAG"]
    codons = [list(cd) for cd in itertools.product(up, repeat=3)]
    for cd in codons:
        yield {"op": "translate", "rows": [cd], "via": "list"}
        yield {"op": "translate", "rows": [[b + 32 for b in cd]], "via": "list"}
        yield {"op": "translate", "rows": [[b + 32 * rng.randrange(2) for b in cd]], "via": rng.choice(["list", "entry", "ragged"])}
        yield {"op": "translate_enc", "rows": [cd], "via": "enc:" + rng.choice(["ACGT", "ACGTN"])}
    # in-frame stop codons (TAA / TAG / TGA), upper and lower case, first / middle / last codon, empty rows around
    stops = [[84, 65, 65], [84, 65, 71], [84, 71, 65]]
    for stp in stops:
        for low in (False, True):
            sc = [b + 32 for b in stp] if low else stp
            for pos in (0, 1, 2):
                row = []
                for i in range(3):
                    row += sc if i == pos else rng.choice(codons)
                yield {"op": "translate", "rows": [row], "via": "list"}
                yield {"op": "translate", "rows": [[], row, list(rng.choice(codons)), []], "via": rng.choice(["list", "entry", "ragged"])}
            yield {"op": "translate", "rows": [sc + sc, sc], "via": "list"}
    # unequal rows whose total equals n_rows * len(rows[0])
    for lens in ([3, 0, 6], [6, 9, 3], [3, 6, 0], [6, 0, 12, 6]):
        yield {"op": "translate", "rows": [[b for _ in range(l // 3) for b in rng.choice(codons)] for l in lens], "via": rng.choice(["list", "entry", "ragged"])}
    yield {"op": "translate", "rows": [[b for cd in codons for b in cd]], "via": "list"}
    yield {"op": "translate", "rows": codons, "via": "list"}
    pairs = [(a, b) for a in codons for b in codons]
    for a, b in (pairs if big else rng.sample(pairs, 300)):
        yield {"op": "translate", "rows": [a + b], "via": "list"}
    for _ in range(3000 if big else 300):
        rows = []
        for _ in range(rng.choice([1, 2, 3, 5])):
            r = [b for _ in range(rng.choice([0, 0, 1, 2, 3, 6])) for b in rng.choice(codons)]
            if rng.random() < 0.3:
                r = [b + 32 * rng.randrange(2) for b in r]
            rows.append(r)
        if not any(rows) and rng.random() < 0.8:
            rows.append(list(rng.choice(codons)))
        yield {"op": "translate", "rows": rows, "via": rng.choice(["list", "list", "entry", "ragged"])}


def nontrivial(c):
    op = c["op"]
    if op in ("seq", "fresh", "translate_custom", "rc_unsupported", "chrom"):
        return True
    if op == "pipe":
        return len(c["steps"]) >= 2 or c["carrier"] in LAZY_CARRIERS
    if op == "rc":
        flat = [b for r in c["rows"] for b in r]
        return any(b >= 97 or b in (78,) for b in flat) or len(c["rows"]) >= 2
    if op == "strand":
        return any(iv[3] == 45 and iv[2] > iv[1] for iv in c["ivs"])
    if op == "transcripts":
        return any(e[1] == 45 for e in c["exons"]) or len(c["exons"]) >= 2
    return sum(len(r) for r in c["rows"]) >= 6 or any(b >= 97 for r in c["rows"] for b in r)


def _has_nul(got):
    return isinstance(got, dict) and any(b == 0 for r in got.get("rows", []) for b in r)


def finding_key(c, got, exp):
    """names the failing input class"""
    op = c["op"]
    if op in ("seq", "fresh"):
        g = got.get("results") if isinstance(got, dict) else None
        if isinstance(g, list) and len(g) == len(c["calls"]):
            for sub, a, b in zip(c["calls"], g, exp["results"]):
                if not agree(sub, a, b):
                    if agree(sub, impl(sub), b):
                        if any(x["op"] == "translate_custom" for x in c["calls"]):
                            return "history:translate:wrong-after-a-user-codon-table-was-used"
                        return f"history:{sub['op']}:result-changed-after-a-later-call" + (":fresh-process" if op == "fresh" else "")
                    return finding_key(sub, a, b)
        return "history:sequence"
    if "view" in c:
        plain = {k: v for k, v in c.items() if k != "view"}
        if agree(plain, impl(plain), exp):
            return f"view:{op}:wrong-on-fresh-{c['view']['kind']}-view"
    if "relative" in c:
        plain = {k: v for k, v in c.items() if k != "relative"}
        if agree(plain, impl(plain), exp):
            return "strand:indexed-fasta:relative-path-then-chdir-before-first-extraction"
    if "clone" in c:
        plain = {k: v for k, v in c.items() if k != "clone"}
        if agree(plain, impl(plain), exp):
            return f"clone:{op}:wrong-on-an-equal-copy-of-the-input:{c['clone']}"
    if op == "pipe":
        kind = "lazy-table" if c["carrier"] in LAZY_CARRIERS else "array" if c["carrier"] == "ragged" else "table"
        return f"pipe:{kind}:" + "-".join(st[0] for st in c["steps"])
    if op == "strand" and "gi" in c:
        g = c["gi"]
        plain = {k: v for k, v in c.items() if k != "gi"}
        if agree(plain, impl(plain), exp):
            return f"strand:getitem:derived-intervals:{g['origin']}:" + "-".join(st[0] for st in g["steps"])
    if op == "rc_unsupported":
        return "revcomp:answers-for-a-non-DNA-encoding"
    if op == "chrom":
        return "genomic-sequence:chromosome-text"
    if op == "rc":
        flat = [b for r in c["rows"] for b in r]
        if c["enc"] == "ASCII" and any(b >= 97 for b in flat) and _has_nul(got):
            return "revcomp:ascii-lower-case"
        return f"revcomp:{c['enc']}"
    if op == "strand":
        flat = [b for s in c["seqs"] for b in s]
        if isinstance(got, dict) and str(got.get("err", "")).startswith("other:") and \
                len(c["ivs"]) >= sum(iv[2] - iv[1] for iv in c["ivs"]):
            return "strand:raises-when-intervals>=extracted-letters"
        if c["enc"] == "ASCII" and any(b >= 97 for b in flat) and _has_nul(got):
            return "strand:ascii-lower-case"
        return f"strand:{c['via']}:{c['enc']}"
    if op == "transcripts":
        err = str(got.get("err", "")) if isinstance(got, dict) else ""
        if c["via"] == "gtf" and err == "other:TypeError":
            return "transcripts:gtf-entry-iteration-TypeError"
        n_tr = len(exp["rows"]) if isinstance(exp, dict) else 0
        if err.startswith("other:") and n_tr >= sum(e[3] - e[2] for e in c["exons"]):
            return "transcripts:raises-when-transcripts>=extracted-letters"
        return "transcripts:" + c["via"]
    return "translate:" + c.get("via", "list").split(":")[0]
