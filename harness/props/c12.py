"""C12 — per-chromosome streaming never silently drops or misattributes entries."""
import itertools
import os

import numpy as np

from .. import core
from ..core import SKIP

ID = "C12"
RULE = ("every genome of <= 3 (thorough: 4) contigs, plus one ignored and one unknown name, x every sequence of distinct contig "
        "groups (all subsets in all orders, so orders that disagree with the genome, unknown and ignored names included) x "
        "chunkings of the entries (quick: unchunked, one entry per chunk, one random cut set; thorough: every cut set for <= 5 "
        "entries) x each consumer: list(iter_chromosomes), zip of two iter_chromosomes, Genome.get_intervals(stream) evaluated "
        "through get_mask().get_data() / compute(), Genome.get_track(stream), MultiStream attribute alone and zipped with a "
        "second stream and the lengths, forbes, jaccard, left_join. Key columns both as identifiers (Interval) and as `str`-typed "
        "ragged columns of a user dataclass (tests/test_multistream.py style), with contig sets where one name is a proper prefix "
        "of the next (chr1/chr10, c/ch/chr, chr1/chr1_alt) and the switch between them inside a chunk as well as on a chunk "
        "border (every chunk a fresh table). Documented keywords: grouping on a column other than `chromosome` (group_field=, "
        "set_grouping_attribute, the groupby column) for tables with TWO contig columns whose `chromosome` column is itself "
        "compatible with the genome. EMPTY chunks (a filtered chunk) at every position of the chunk stream — before "
        "the data, between contigs, strictly inside a contig's run including the last contig's, at the end — for every consumer. "
        "Multi-step cases: other genome objects derived from / built next to the genome BEFORE the evaluation "
        "(with_ignored_added, more objects over the same dict, sort_names) with the added/unknown name at every position incl. "
        "last, evaluated through the ORIGINAL, through the derived object, through a SECOND derivation with another ignore "
        "list and through a FRESH object built afterwards from the caller's same dict (which must stay unchanged); several genomes over the same sizes with different "
        "label tables (sort_names, permuted orders, filter on/off) evaluated back to back inside ONE case on the in-memory path "
        "(mask_data + iter_chromosomes, get_intervals(table).as_stream()). Names with '_' both ignored (default filter) and included "
        "(filter disabled). Round 7: DRESSED names - genome and data names replaced consistently by identifiers of 5..300 "
        "characters, the unknown name by a near copy of a genome name (two characters exchanged at every distance / around "
        "every power of two, one character replaced, truncated, extended), in-memory and streamed routes; tables whose contig "
        "column was already ENCODED BY ANOTHER genome object (other order, fewer, more, same contigs; ignored contig at every "
        "position): refusal or exact attribution (op mem_pre). Round 8: stranded=True on the streamed entry points (tables "
        "with a strand column, bed6 files); batches of small cases of every consumer run in a child interpreter with -O / "
        "-OO / PYTHONOPTIMIZE=1 (op opt: a demanded error must not be an assert). Non-trivial = data order differs from genome order, or an unknown / ignored / absent contig")
EXHAUSTIVE = {"quick": False, "thorough": False}
MODEL_OPS = {"mem_pair", "iter", "iter_zip", "genome_mask", "genome_compute", "track", "ms", "ms_zip", "jaccard", "forbes", "left_join"}
PARALLEL = 16
ASSUMPTIONS = [
    "Python generators run to the next yield per pull; zip pulls its arguments left to right and stops at the first exhausted one "
    "without pulling the ones to its right (modelled explicitly as pull-step state machines and zipAll)",
    "the computation graph (ComputationNode._get_buffer) evaluates its stream arguments left to right and ends at the first "
    "StopIteration: modelled as the same zip consumer; StreamNode pulls item 0 at construction",
    "precondition of the property: the entries of one contig are contiguous in the data (group names are distinct)",
    "groupby over chunks + join_groupbys = runs of equal contig over the concatenated entries (model: chunkGroups/joinGroups; "
    "chunking independence is exercised by the correspondence on every cut set)",
]
TRUSTED_EXTRA = ["C12: forbes/jaccard values are recomputed in the harness from the Lean model's per-contig rows (float formula "
                 "evaluated once in Python on exact small integers)"]

MANIFEST = {
    "text": "Lean 4 theorems about explicit pull-step models of iter_chromosomes, SynchedStream, left_join and of the consumers "
            "(pull-all loop; zip with its left-to-right pull order and stop-at-shortest): for every genome order, ignored set and "
            "sequence of groups (no assumption on the data names since repair f720bbc), pull-all evaluation of each of the three "
            "generators EQUALS the specification "
            "(completes iff every non-ignored name is in the order and the names come in a compatible order; then output i is the "
            "group named order[i] or empty; otherwise an error) — sync_complete, synched_complete, left_join_complete; with the "
            "one-item look-ahead of the repair the same holds for ANY consumer that obtains all |order| items of iter_chromosomes / "
            "SynchedStream whether or not it ever pulls again (…_any_consumer), and for the modelled zip consumer itself: if zip over "
            "any list of iterators completes with one row per contig then every iter_chromosomes / SynchedStream column, in any "
            "operand position, is its stream's specification (zip_columns_complete: streamable, forbes, jaccard, the computation "
            "graph); every chunking of the entries — empty chunks anywhere — gives the same group sequence (groups_chunking, "
            "sync_chunking_independent); 'compatible order' is List.Sublist (compatible_iff_sublist); the ragged change-point detection marks "
            "a boundary exactly when two adjacent names differ, prefix pairs included (ragged_change_iff, with the witness for the "
            "rule without the length comparison). The shipped rules are refuted in "
            "Lean with witnesses: a mis-ordered stream that is not the first argument of zip (or a single data stream behind the "
            "chromosome-name stream of the computation graph) completes silently, and included names containing '_' are skipped. "
            "Obligations regenerated from the running code every run: chromosome_order covers every included name, both "
            "generators look one item ahead. Correspondence: implementation vs Lean model vs Lean spec vs Python oracle over all "
            "group orders x chunkings x consumers.",
    "note": "The computation graph is modelled only as a zip-like consumer of the stream nodes (left-to-right argument evaluation, "
            "end at the first StopIteration).",
    "technique": "Lean 4 proof over pull-step state machines (induction on the genome order) + generated obligations + differential "
                 "correspondence with the implementation",
    "design": "§6 C12",
}

_TMP = None


def _tmpdir():
    global _TMP
    if _TMP is None:
        import atexit, shutil, tempfile
        _TMP = tempfile.mkdtemp(prefix="c12-")
        pid = os.getpid()

        def _rm(d=_TMP, pid=pid):
            if os.getpid() == pid:
                shutil.rmtree(d, ignore_errors=True)
        atexit.register(_rm)
    return _TMP


CONTIG_SIZE = 16          # every contig is long enough for ids 0..15
GENOMES = {
    3: ["chr1", "chr2", "chr3"],
    4: ["chr1", "chr2", "chr3", "chr4"],
}
IGN = "chr1_alt"          # in the genome; ignored when the default filter is on, included when it is off
UNK = "chrUn"             # not in the genome at all


# ------------------------------------------------------------------ behavioural tabulation -> Gen/C12.lean

def _probe_flags():
    """observe, on the running code, (a) whether chromosome_order covers included names with '_',
    (b) whether iter_chromosomes / SynchedStream have advanced past item k+1 before handing out item k"""
    import bionumpy as bnp
    from bionumpy.datatypes import Interval
    from bionumpy.genomic_data.genome_context import GenomeContext
    from bionumpy.streams import NpDataclassStream
    from bionumpy.streams.multistream import SynchedStream
    ctx = GenomeContext.from_dict({"a": 5, "a_b": 5, "c": 5}, None)
    order = list(ctx.chromosome_order())
    skips = "a_b" not in order
    pulled = []

    def chunks():
        for n in ("a", "c"):
            pulled.append(n)
            yield Interval([n], [0], [1])
    ctx2 = GenomeContext.from_dict({"a": 5, "c": 5})
    it = iter(ctx2.iter_chromosomes(NpDataclassStream(chunks(), Interval), Interval))
    pulled.clear()
    try:
        next(it); next(it)
        n_before = len(pulled)
        # a generator without look-ahead has not yet asked the source for anything after "c" when it hands out "c"
        stream = NpDataclassStream(iter([Interval(["c"], [0], [1]), Interval(["a"], [0], [1])]), Interval)
        it2 = iter(ctx2.iter_chromosomes(stream, Interval))
        try:
            next(it2); next(it2)
            iter_look = False
        except Exception:
            iter_look = True
    except Exception:
        iter_look = False
    stream = NpDataclassStream(iter([Interval(["c"], [0], [1]), Interval(["a"], [0], [1])]), Interval)
    it3 = iter(SynchedStream(stream, ["a", "c"]))
    try:
        next(it3); next(it3)
        sync_look = False
    except Exception:
        sync_look = True
    return skips, iter_look, sync_look


def regenerate():
    skips, iter_look, sync_look = _probe_flags()
    b = lambda x: "true" if x else "false"
    text = "\n".join([
        "/-! GENERATED on every run by harness/props/c12.py from the package imported from /repo (behavioural probes of",
        "`GenomeContext.chromosome_order`, `iter_chromosomes` and `SynchedStream.__iter__`). Do not edit. -/",
        "namespace Gen.C12",
        "/-- `chromosome_order()` leaves out included names that contain '_' -/",
        f"def orderSkipsUnderscore : Bool := {b(skips)}",
        "/-- `iter_chromosomes` raises on a mis-ordered trailing group before handing out the last item -/",
        f"def iterLookahead : Bool := {b(iter_look)}",
        "/-- `SynchedStream.__iter__` raises on a mis-ordered trailing group before handing out the last item -/",
        f"def syncLookahead : Bool := {b(sync_look)}",
        "end Gen.C12", ""])
    return [("BnpVerif/Gen/C12.lean", text)]


# ------------------------------------------------------------------ case helpers

def _sizes(c):
    return {n: CONTIG_SIZE + i for i, n in enumerate(c["names"])}


def _asizes(c):
    """the sizes dict handed to the package (dressed names)"""
    return {_nm(c, n): v for n, v in _sizes(c).items()}


def _ign_names(c):
    ig = [n for n in c["names"] if c.get("filt", True) and "_" in n]
    dv = c.get("derive")
    if dv and dv.get("use") == "derived":
        ig += [n for n in dv["added"] if n not in ig]      # with_ignored_added: the added names are ignored too
    if dv and dv.get("use") == "second":
        ig += [n for n in dv["added2"] if n not in ig]     # a SECOND derivation ignores its own list only
    return ig


def _incl_names(c):
    ig = _ign_names(c)
    return [n for n in c["names"] if n not in ig]


def tw_of(dr):
    return (dr.get("twin") or {}).get("of", UNK)


def _dress_map(c):
    """`dress`: the case's names are replaced, consistently in the genome AND in the data, by long look-alikes:
    every name n (genome names, the ignored name, names only in the data) becomes n + '|' + fill; the UNKNOWN name
    becomes a near copy of the dressed genome contig `of`: two characters `d` apart exchanged (`swap`), one character
    replaced (`subst`), the last characters dropped (`trunc`) or one appended (`ext`). Canonical names are used in the
    case, the model request and the oracle; only the package sees the dressed ones. '_' occurs in a dressed name iff it
    occurs in the canonical one (the default filter looks for it)."""
    dr = c.get("dress")
    if not dr:
        return None
    fill = dr["fill"]
    canon = list(c["names"]) + [n for s in c["streams"] for n, _ in s["groups"]] + [IGN, UNK, tw_of(dr)]
    m = {n: n + "|" + fill for n in canon}
    tw = dr.get("twin")
    if tw:
        base = m[tw["of"]]
        kind, i = tw["kind"], tw["i"] % len(base)
        if kind == "swap":
            j = (i + tw["d"]) % len(base)
            ch = list(base)
            ch[i], ch[j] = ch[j], ch[i]
            t = "".join(ch)
        elif kind == "subst":
            t = base[:i] + ("x" if base[i] != "x" else "y") + base[i + 1:]
        elif kind == "trunc":
            t = base[:max(1, len(base) - 1 - i % 3)]
        else:
            t = base + "0"
        if "_" in t or t in [m[n] for n in canon if n != UNK]:
            return None                                 # not a usable look-alike: the case falls back to plain names
        m[UNK] = t
    return m


def _nm(c, n):
    m = _dress_map(c)
    return m.get(n, n) if m else n


def _undress(c, names):
    m = _dress_map(c)
    if not m:
        return list(names)
    inv = {v: k for k, v in m.items()}
    return [inv.get(n, n) for n in names]


def _entries(stream):
    return [(n, i) for n, ids in stream["groups"] for i in ids]


def _chunks(stream):
    """the chunk lists of a stream; `empty_at` inserts empty chunks at the given positions of the chunk list"""
    e = _entries(stream)
    bounds = [0] + list(stream.get("cuts", [])) + [len(e)]
    out = [e[a:b] for a, b in zip(bounds[:-1], bounds[1:]) if b > a]
    for pos in sorted(stream.get("empty_at", []), reverse=True):
        out.insert(min(pos, len(out)), [])
    return out


def model_request(c):
    if c["op"] == "opt":
        return None
    table = {n: i for i, n in enumerate(c["names"])}
    extra = {}

    def code(n):
        if n in table:
            return table[n]
        return extra.setdefault(n, 100 + len(extra))
    d = {"op": c["op"], "n": len(c["names"]),
         "included": [table[n] for n in _incl_names(c)],
         "plainOrder": [table[n] for n in _incl_names(c) if "_" not in n],
         "ignored": [code(n) for n in _ign_names(c)],
         "all": [table[n] for n in c["names"]],
         "lengths": [CONTIG_SIZE + i for i in range(len(c["names"]))],
         "streams": [[[[code(n), i] for n, i in ch] for ch in _chunks(s)] for s in c["streams"]]}
    if c["op"] == "mem_pair":
        d["gs"] = []
        for g in c["genomes"]:
            gc = _genome_case(c, g)
            d["gs"].append({"included": [table[n] for n in _incl_names(gc)],
                            "plainOrder": [table[n] for n in _incl_names(gc) if "_" not in n],
                            "ignored": [table[n] for n in _ign_names(gc)]})
    return d


def _genome_case(c, g):
    """the case seen by one of the genomes of a `mem_pair` case: same sizes, its own contig order and filter"""
    names = sorted(c["names"]) if g.get("sort") else list(g["names"])
    return {"names": names, "filt": g.get("filt", True), "dress": c.get("dress"), "streams": c["streams"]}


# ------------------------------------------------------------------ implementation

_STR_KEYED = None
_CUR_KEY = "id"


def _str_keyed():
    """a user dataclass whose grouping column is `str`-typed (a ragged EncodedRaggedArray, as in tests/test_multistream.py)"""
    global _STR_KEYED
    if _STR_KEYED is None:
        from bionumpy.bnpdataclass import bnpdataclass

        @bnpdataclass
        class StrKeyed:
            chromosome: str
            start: int
            stop: int
        _STR_KEYED = StrKeyed
    return _STR_KEYED


_MATE = {}
_CUR_CASE = None           # the case being run (name dressing of the tables built by _mk_stream)
_CUR_FIELD = None          # (field name, decoy name) when the grouping column is not `chromosome`


def _mate_class(key):
    """a table with TWO contig columns (`chromosome` and `mate_chromosome`), as breakpoint / mate-pair tables have;
    the synchronisers are asked to group on the second one (`group_field=` / `set_grouping_attribute` / groupby column)"""
    if key not in _MATE:
        from bionumpy.bnpdataclass import bnpdataclass
        if key == "str":
            @bnpdataclass
            class MateStr:
                chromosome: str
                start: int
                stop: int
                mate_chromosome: str
            _MATE[key] = MateStr
        else:
            from bionumpy.typing import SequenceID

            @bnpdataclass
            class MateId:
                chromosome: SequenceID
                start: int
                stop: int
                mate_chromosome: SequenceID
            _MATE[key] = MateId
    return _MATE[key]


def _field():
    return _CUR_FIELD[0] if _CUR_FIELD else "chromosome"


def _stranded():
    return bool(_CUR_CASE and _CUR_CASE.get("stranded"))


def _table_class():
    from bionumpy.datatypes import Interval
    if _stranded():
        from bionumpy.datatypes import StrandedInterval
        return StrandedInterval
    if _CUR_FIELD:
        return _mate_class(_CUR_KEY)
    return _str_keyed() if _CUR_KEY == "str" else Interval


def _mk_stream(stream, kind="interval"):
    from bionumpy.datatypes import Interval, BedGraph
    from bionumpy.streams import NpDataclassStream
    out = []
    cls = BedGraph if kind == "bedgraph" else _table_class()
    for ch in _chunks(stream):                     # every chunk is built as a fresh table
        if not ch:                                 # an empty chunk, as produced by filtering a chunk
            one = BedGraph(["chr1"], [0], [1], [1]) if kind == "bedgraph" else \
                (cls(["chr1"], [0], [1], ["+"]) if _stranded() else
                 cls(["chr1"], [0], [1], ["chr1"]) if _CUR_FIELD else cls(["chr1"], [0], [1]))
            out.append(one[np.array([False])])
            continue
        names = [_nm(_CUR_CASE, n) for n, _ in ch] if _CUR_CASE else [n for n, _ in ch]
        s = np.array([i for _, i in ch], dtype=int)
        if kind == "bedgraph":
            out.append(BedGraph(names, s, s + 1, s + 1))
        elif _stranded():
            out.append(cls(names, s, s + 1, ["+" if i % 2 else "-" for i in s.tolist()]))
        elif _CUR_FIELD:
            # the `chromosome` column is a decoy that is itself compatible with the genome; the names under test sit
            # in `mate_chromosome`
            out.append(cls([_nm(_CUR_CASE, _CUR_FIELD[1])] * len(names), s, s + 1, names))
        else:
            out.append(cls(names, s, s + 1))
    return NpDataclassStream(iter(out), cls)


def _ids(table):
    return [int(x) for x in np.asarray(table.start).ravel()] if table is not None else []


def _names_of(col):
    try:
        r = col.tolist()
        if isinstance(r, list):
            return [str(x) for x in r]
    except Exception:
        pass
    return [col[i].to_string() for i in range(len(col))]


def _per_contig(c, chrom, positions):
    incl = _incl_names(c)
    out = {n: [] for n in incl}
    for n, p in zip(_undress(c, chrom), positions):
        out[n].append(int(p))
    return [out[n] for n in incl]


def _derive(c, base, sizes):
    """C12-a: other genome objects are derived from / built next to `base` BEFORE the evaluation; what the original
    does afterwards must not depend on that (and the derived object ignores exactly the added names)"""
    import bionumpy as bnp
    from bionumpy.datatypes import Interval
    from bionumpy.streams import NpDataclassStream
    from bionumpy.genomic_data.genome_context import GenomeContext, ignore_underscores
    dv = c.get("derive")
    if not dv:
        return base
    derived = base.with_ignored_added([_nm(c, n) for n in dv["added"]])
    if dv.get("extras"):
        # more objects over the very same dict object
        bnp.Genome.from_dict(sizes, sort_names=True)
        GenomeContext.from_dict(sizes, ignore_underscores)
        GenomeContext.from_dict(sizes, None).with_ignored_added([_nm(c, n) for n in dv["added"]])
    if dv.get("warm"):
        ctx = derived.get_genome_context() if hasattr(derived, "get_genome_context") else derived
        names = [_nm(c, n) for n in dv["added"]] + [_nm(c, c["names"][-1])]
        try:
            list(ctx.iter_chromosomes(NpDataclassStream(iter([Interval(names, [0] * len(names), [1] * len(names))]), Interval), Interval))
        except Exception:
            pass
    result = derived if dv.get("use") == "derived" else base
    if dv.get("use") == "second":
        # a second, different derivation from the same parent, made after the first one
        result = base.with_ignored_added([_nm(c, n) for n in dv["added2"]])
    elif dv.get("use") == "fresh":
        # a fresh object built from the caller's very same dict, after a derivation was made from its sibling
        flt = ignore_underscores if c.get("filt", True) else None
        result = (bnp.Genome.from_dict(sizes, filter_function=flt) if hasattr(base, "get_genome_context")
                  else GenomeContext.from_dict(sizes, flt))
    if list(sizes.keys()) != [_nm(c, n) for n in c["names"]] or list(sizes.values()) != [CONTIG_SIZE + i for i in range(len(c["names"]))]:
        raise _CallerDictMutated()
    return result


class _CallerDictMutated(Exception):
    pass


def _ctx(c):
    from bionumpy.genomic_data.genome_context import GenomeContext, ignore_underscores
    sizes = _asizes(c)
    return _derive(c, GenomeContext.from_dict(sizes, ignore_underscores if c.get("filt", True) else None), sizes)


def _genome(c):
    import bionumpy as bnp
    from bionumpy.genomic_data.genome_context import ignore_underscores
    sizes = _asizes(c)
    return _derive(c, bnp.Genome.from_dict(sizes, filter_function=ignore_underscores if c.get("filt", True) else None), sizes)


def _mem_obs(G, gc, table, ents):
    """the two in-memory routes of one genome object over one table: pull-all iter_chromosomes(mask_data(table)) and the
    mask of get_intervals(table).as_stream() through the computation graph"""
    import bionumpy as bnp
    from bionumpy.datatypes import Interval
    obs = []
    for how in ("iter", "mask"):
        try:
            if not ents:
                raise _NoData()
            if how == "iter":
                ctx = G.get_genome_context()
                obs.append({"out": [_ids(t) for t in ctx.iter_chromosomes(ctx.mask_data(table()), Interval)]})
            else:
                r = bnp.compute(G.get_intervals(table()).as_stream().get_mask().get_data())
                chrom, pos = [], []
                for n, s, e in zip(_names_of(r.chromosome), r.start.tolist(), r.stop.tolist()):
                    for p in range(int(s), int(e)):
                        chrom.append(n); pos.append(p)
                obs.append({"out": _per_contig(gc, chrom, pos)})
        except _NoData:
            obs.append({"out": [[] for _ in _incl_names(gc)]})
        except Exception as e:
            import traceback
            if os.path.abspath(traceback.extract_tb(e.__traceback__)[-1].filename) == os.path.abspath(__file__):
                raise
            obs.append({"err": "raised"})
    return obs


def _mem_pair(c):
    """C12-b: several genomes over the same contig sizes, one after the other in this process, in-memory path"""
    import bionumpy as bnp
    from bionumpy.datatypes import Interval
    from bionumpy.genomic_data.genome_context import ignore_underscores
    sizes = _asizes(c)
    ents = _entries(c["streams"][0])
    table = lambda: Interval([_nm(c, n) for n, _ in ents], np.array([i for _, i in ents], dtype=int), np.array([i + 1 for _, i in ents], dtype=int))
    res = []
    for g in c["genomes"]:
        gc = _genome_case(c, g)
        flt = ignore_underscores if g.get("filt", True) else None
        if g.get("sort"):
            G = bnp.Genome.from_dict(dict(sizes), sort_names=True, filter_function=flt)
        else:
            G = bnp.Genome.from_dict({_nm(c, n): sizes[_nm(c, n)] for n in g["names"]}, filter_function=flt)
        res.append(_mem_obs(G, gc, table, ents))
    return {"res": res}


def _mem_pre(c):
    """an in-memory table whose contig column was ALREADY ENCODED by another genome object (`other`: the same contigs in
    another order, fewer, more, or the very same list) is handed to the genome under test: through
    other.get_intervals(table).data, or as a column encoded directly with the other object's encoding"""
    import bionumpy as bnp
    from bionumpy.datatypes import Interval
    from bionumpy.encoded_array import as_encoded_array
    from bionumpy.genomic_data.genome_context import ignore_underscores
    sizes = {n: CONTIG_SIZE + i for i, n in enumerate(sorted(set(c["names"]) | set(c["other"]["names"])))}
    ents = _entries(c["streams"][0])
    names = [n for n, _ in ents]
    st, en = np.array([i for _, i in ents], dtype=int), np.array([i + 1 for _, i in ents], dtype=int)
    O = bnp.Genome.from_dict({n: sizes[n] for n in c["other"]["names"]}, filter_function=None)    # keeps every row
    G = bnp.Genome.from_dict({n: sizes[n] for n in c["names"]}, filter_function=ignore_underscores if c.get("filt", True) else None)
    if c["other"].get("how") == "column":
        table = lambda: Interval(as_encoded_array(names, O.get_genome_context().encoding), st, en)
    else:
        table = lambda: O.get_intervals(Interval(names, st, en)).data
    table()                                           # the preparation itself must work (all names are in `other`)
    return {"res": [_mem_obs(G, c, table, ents)]}


class _NoData(Exception):
    pass


_OPT_CODE = (
    "import sys, json, warnings\n"
    "warnings.filterwarnings('ignore')\n"
    "sys.path.insert(0, sys.argv[1]); sys.path.insert(0, sys.argv[2])\n"
    "from harness.props import c12\n"
    "cases = json.load(sys.stdin)\n"
    "flag = bool(sys.flags.optimize)\n"
    "print('\\n@@C12OPT@@' + json.dumps({'optimize': flag, 'obs': [c12.impl(c) for c in cases]}))\n")


def _opt(c):
    """PROCESS-WIDE interpreter settings the outcome must not depend on: the inner cases are run by a child interpreter
    started with -O / -OO / PYTHONOPTIMIZE=1 (assert statements are not executed there), same package, same harness code"""
    import json
    import subprocess
    import sys
    env = dict(os.environ)
    env.pop("PYTHONOPTIMIZE", None)
    args = [sys.executable]
    if c["mode"] == "env":
        env["PYTHONOPTIMIZE"] = "1"
    elif c["mode"] != "plain":
        args.append(c["mode"])
    verif = os.path.dirname(os.path.dirname(os.path.dirname(os.path.abspath(__file__))))
    r = subprocess.run(args + ["-c", _OPT_CODE, verif, str(core.REPO)], input=json.dumps(c["inner"]), capture_output=True, text=True,
                       env=env, timeout=600)
    tail = r.stdout.rsplit("@@C12OPT@@", 1)
    if r.returncode != 0 or len(tail) != 2:
        raise RuntimeError("child interpreter failed: " + r.stderr[-400:])
    d = json.loads(tail[1])
    if d["optimize"] != (c["mode"] != "plain"):
        raise RuntimeError("child interpreter did not run in the requested mode")
    return {"obs": d["obs"]}


def _call(c):
    import bionumpy as bnp
    from bionumpy.datatypes import Interval, BedGraph
    global _CUR_KEY, _CUR_FIELD
    op = c["op"]
    st = c.get("streams")
    global _CUR_CASE
    _CUR_CASE = c
    _CUR_KEY = c.get("key", "id")
    _CUR_FIELD = ("mate_chromosome", c["field"]["decoy"]) if c.get("field") else None
    if op == "mem_pair":
        return _mem_pair(c)
    if op == "mem_pre":
        return _mem_pre(c)
    if op == "opt":
        return _opt(c)
    if op == "iter":
        kw = {"group_field": _field()} if _CUR_FIELD else {}
        return {"out": [_ids(t) for t in _ctx(c).iter_chromosomes(_mk_stream(st[0]), _table_class(), **kw)]}
    if op == "iter_zip":
        ctx = _ctx(c)
        kw = {"group_field": _field()} if _CUR_FIELD else {}
        a = ctx.iter_chromosomes(_mk_stream(st[0]), _table_class(), **kw)
        b = ctx.iter_chromosomes(_mk_stream(st[1]), _table_class(), **kw)
        return {"rows": [[_ids(x), _ids(y)] for x, y in zip(a, b)]}
    if op == "genome_mask":
        if c.get("source") == "file":
            fn = os.path.join(_tmpdir(), f"{core.case_hash(c)}-{os.getpid()}.bed")
            with open(fn, "w") as fh:
                for n, i in _entries(st[0]):
                    fh.write(f"{_nm(c, n)}\t{i}\t{i + 1}" + (f"\t.\t0\t{'+' if i % 2 else '-'}\n" if _stranded() else "\n"))
            gi = _genome(c).read_intervals(fn, stream=True, **({"stranded": True} if _stranded() else {}))
        else:
            gi = _genome(c).get_intervals(_mk_stream(st[0]), **({"stranded": True} if _stranded() else {}))
        r = bnp.compute(gi.get_mask().get_data())
        chrom, pos = [], []
        for n, s, e in zip(_names_of(r.chromosome), r.start.tolist(), r.stop.tolist()):
            for p in range(int(s), int(e)):
                chrom.append(n); pos.append(p)
        return {"out": _per_contig(c, chrom, pos)}
    if op == "genome_compute":
        r = _genome(c).get_intervals(_mk_stream(st[0]), **({"stranded": True} if _stranded() else {})).compute()
        return {"flat": [int(x) for x in np.asarray(r.start).ravel()]}
    if op == "track":
        if c.get("source") == "file":
            fn = os.path.join(_tmpdir(), f"{core.case_hash(c)}-{os.getpid()}.bdg")
            with open(fn, "w") as fh:
                for n, i in _entries(st[0]):
                    fh.write(f"{_nm(c, n)}\t{i}\t{i + 1}\t{i + 1}\n")
            t = _genome(c).read_track(fn, stream=True)
        else:
            t = _genome(c).get_track(_mk_stream(st[0], "bedgraph"))
        r = bnp.compute(t.get_data())
        chrom, pos = [], []
        for n, s, e, v in zip(_names_of(r.chromosome), r.start.tolist(), r.stop.tolist(), np.asarray(r.value).tolist()):
            if v != 0:
                for p in range(int(s), int(e)):
                    chrom.append(n); pos.append(p)
        return {"out": _per_contig(c, chrom, pos)}
    from bionumpy.streams import MultiStream
    if op == "ms":
        opt = c.get("msopt") or {}
        sizes = _asizes(c)
        if opt.get("sizes") == "chromsize":
            from bionumpy.datatypes import ChromosomeSize
            sizes = ChromosomeSize(list(sizes.keys()), list(sizes.values()))
        src = st[0]
        if opt.get("keyfunc"):                         # the data carries the names without their 'chr' prefix
            src = dict(src, groups=[[n[3:], ids] for n, ids in src["groups"]])
        if opt.get("value") == "table":
            ents = _entries(src)
            a = _table_class()([_nm(c, n) for n, _ in ents], np.array([i for _, i in ents], dtype=int), np.array([i + 1 for _, i in ents], dtype=int))
        else:
            a = _mk_stream(src)
        kw = {"a": a}
        if opt.get("indexed"):
            kw["vals"] = {_nm(c, n): k for k, n in enumerate(c["names"])}
        ms = MultiStream(sizes, **kw)
        if _CUR_FIELD:
            ms.a.set_grouping_attribute(_field())
        if opt.get("keyfunc"):
            ms.set_key_functions(a=lambda x: "chr" + x)
        if opt.get("default"):
            ms.set_defaults(a=_table_class()(["chr1"], [99], [100]))
        if opt.get("indexed"):
            rows = list(zip(ms.a, ms.vals))
            return {"out": [_ids(x) for x, _ in rows], "vals": [int(v) for _, v in rows]}
        return {"out": [_ids(t) for t in ms.a]}
    if op == "ms_zip":
        ms = MultiStream(_asizes(c), a=_mk_stream(st[0]), b=_mk_stream(st[1]))
        if _CUR_FIELD:
            ms.a.set_grouping_attribute(_field())
            ms.b.set_grouping_attribute(_field())
        return {"rows": [[_ids(x), _ids(y), [int(l)]] for x, y, l in zip(ms.a, ms.b, ms.lengths)]}
    if op in ("jaccard", "forbes"):
        from bionumpy.arithmetics.similarity_measures import jaccard, forbes
        v = (jaccard if op == "jaccard" else forbes)(_asizes(c), _mk_stream(st[0]), _mk_stream(st[1]))
        return {"value": float(v).hex()}
    if op == "left_join":
        from bionumpy.streams.left_join import left_join
        from bionumpy.streams import groupby
        return {"out": [_ids(d) for _, _, d in left_join(_asizes(c).items(), groupby(_mk_stream(st[0]), _field()))]}
    raise ValueError(op)


def impl(c):
    try:
        return _call(c)
    except _CallerDictMutated:
        return {"caller_dict_mutated": True}          # the dict the caller passed in was changed by a derivation
    except Exception as e:
        import traceback
        last = traceback.extract_tb(e.__traceback__)[-1].filename
        if os.path.abspath(last) == os.path.abspath(__file__):
            raise                                     # a bug of this harness, not of the package
        return {"err": "raised", "exc": type(e).__name__}


# ------------------------------------------------------------------ independent oracle

def _compatible(names, order):
    """names is a subsequence of order"""
    it = iter(order)
    return all(any(n == o for o in it) for n in names)


def _spec_stream(order, ignored, stream):
    """per-contig id lists, or None when the property demands an error"""
    kept = [(n, ids) for n, ids in stream["groups"] if n not in ignored]
    if not _compatible([n for n, _ in kept], order):
        return None
    d = dict(kept)
    return [list(d.get(n, [])) for n in order]


def _similarity(op, sizes, a, b):
    A = B = AB = N = 0
    for sz, x, y in zip(sizes, a, b):
        sx, sy = set(x), set(y)
        A += len(sx); B += len(sy); AB += len(sx & sy); N += sz
    a_, b_, c_, d_ = AB, A - AB, B - AB, N - A - B + AB
    if op == "jaccard":
        if N - d_ == 0:
            return None
        return float(a_ / (N - d_)).hex()
    if (a_ + b_) * (a_ + c_) == 0:
        return None
    return float(a_ * N / ((a_ + b_) * (a_ + c_))).hex()


def oracle(c):
    op = c["op"]
    if op == "opt":
        exps = [oracle(i) for i in c["inner"]]
        return {"obs": [None if e is SKIP else e for e in exps]}
    st = c["streams"]
    names_in_data = [n for s in st for n, _ in s["groups"]]
    for s in st:
        ns = [n for n, _ in s["groups"]]
        if any(not ids for _, ids in s["groups"]) or any(a == b for a, b in zip(ns, ns[1:])):
            return SKIP                                # empty groups / split groups do not exist
        if len(set(ns)) != len(ns):
            # a contig whose entries are NOT contiguous: outside the property's precondition in general (the group-by
            # fast path trusts it inside a chunk); when every group sits in chunks of its own the repeated group is
            # visible to the synchronisers, and then an error is demanded (nothing may be dropped silently)
            bounds = list(itertools.accumulate(len(ids) for _, ids in s["groups"]))[:-1]
            if op == "mem_pair" or c.get("source") == "file" or not set(bounds) <= set(s.get("cuts", [])):
                return SKIP
    opt = c.get("msopt") or {}
    if opt.get("keyfunc") and any(not n.startswith("chr") for s in st for n, _ in s["groups"]):
        return SKIP
    if opt.get("value") == "table" and (not _entries(st[0]) or st[0].get("empty_at")):
        return SKIP
    if c.get("source") == "file" and not _entries(st[0]):
        return SKIP
    if op == "mem_pre":
        if not _entries(st[0]) or any(n not in c["other"]["names"] for n in names_in_data):
            return SKIP                                # the other genome object could not have encoded the column
        sp = _spec_stream(_incl_names(c), _ign_names(c), st[0])
        o = {"err": "raised"} if sp is None else {"out": sp}
        # a column that carries ANOTHER encoding may be refused; when it is accepted every contig gets its own entries
        # (the other object ignores nothing: it is "the same genome" only if the one under test ignores nothing either)
        same = list(c["other"]["names"]) == list(c["names"]) and not _ign_names(c)
        return {"res": [[o, o]], "refusal_ok": not same}
    if op == "mem_pair":
        if not _entries(st[0]):
            return SKIP                                # an empty in-memory table has no chromosome column to encode
        res = []
        for g in c["genomes"]:
            gc = _genome_case(c, g)
            sp = _spec_stream(_incl_names(gc), _ign_names(gc), st[0])
            o = {"err": "raised"} if sp is None else {"out": sp}
            res.append([o, o])
        return {"res": res}
    if op in ("iter", "iter_zip", "genome_mask", "genome_compute", "track"):
        order, ignored = _incl_names(c), _ign_names(c)
    else:
        order, ignored = list(c["names"]), []
    specs = [_spec_stream(order, ignored, s) for s in st]
    if any(s is None for s in specs):
        return {"err": "raised"}
    if op == "ms" and opt:
        out = [x if (x or not opt.get("default")) else [99] for x in specs[0]]
        return dict({"out": out}, **({"vals": list(range(len(c["names"])))} if opt.get("indexed") else {}))
    if op in ("iter", "genome_mask", "track", "ms", "left_join"):
        return {"out": specs[0]}
    if op == "genome_compute":
        return {"flat": [i for ids in specs[0] for i in ids]}
    if op == "iter_zip":
        return {"rows": [[x, y] for x, y in zip(*specs)]}
    sizes = [CONTIG_SIZE + i for i in range(len(c["names"]))]
    if op == "ms_zip":
        return {"rows": [[x, y, [l]] for x, y, l in zip(specs[0], specs[1], sizes)]}
    v = _similarity(op, sizes, specs[0], specs[1])
    if v is None:
        return SKIP                                    # 0/0: the empty-operand case belongs to C08
    return {"value": v}


def agree(c, got, exp):
    if c["op"] == "opt":
        if not (isinstance(got, dict) and "obs" in got and len(got["obs"]) == len(exp["obs"])):
            return False
        return all(e is None or agree(i, g, e) for i, g, e in zip(c["inner"], got["obs"], exp["obs"]))
    if c["op"] == "mem_pre":
        if not (isinstance(got, dict) and "res" in got):
            return False                               # the preparation by the other genome object failed
        for g, e in zip(got["res"][0], exp["res"][0]):
            if g.get("err") == "raised":
                if not (exp["refusal_ok"] or e.get("err") == "raised"):
                    return False
            elif core.canon(g) != core.canon(e):
                return False
        return True
    if isinstance(got, dict) and got.get("err") == "raised":
        return exp.get("err") == "raised"
    return core.canon(got) == core.canon(exp)


def _strip(x):
    return x


def _ms_view(c, x):
    """what the Lean model (which knows neither the default table nor the indexed values) can say about an `ms` case"""
    opt = c.get("msopt") or {}
    if c["op"] == "ms" and opt and isinstance(x, dict) and "out" in x:
        return {"out": [[] if (opt.get("default") and v == [99]) else v for v in x["out"]]}
    return x


def agree_spec(c, s, exp):
    return core.canon(s) == core.canon(_ms_view(c, exp))


def agree_model(c, got, m):
    if isinstance(got, dict) and got.get("err") == "raised":
        return isinstance(m, dict) and m.get("err") == "raised"
    got = _ms_view(c, got)
    if c["op"] in ("jaccard", "forbes") and isinstance(m, dict) and "rows" in m:
        sizes = [CONTIG_SIZE + i for i in range(len(c["names"]))]
        rows = m["rows"]
        if len(rows) != len(sizes):
            return False
        v = _similarity(c["op"], sizes, [r[0] for r in rows], [r[1] for r in rows])
        if v is None:
            return isinstance(got, dict) and "value" in got     # 0/0: completes with some value (C08's concern)
        return got == {"value": v}
    return core.canon(got) == core.canon(m)


def finding_key(c, got, exp):
    if c["op"] == "opt":
        if isinstance(got, dict) and "obs" in got:
            for i, g, e in zip(c["inner"], got["obs"], exp["obs"]):
                if e is not None and not agree(i, g, e):
                    return f"opt:{c['mode']}:" + finding_key(i, g, e)
        return f"opt:{c['mode']}:child-failed"
    suffix = (":after-derived-genome" if c.get("derive") else "") + \
             (":empty-chunk" if any(s.get("empty_at") for s in c["streams"]) else "")
    if c["op"] == "mem_pair":
        return "mem_pair:second-genome-in-process:wrong-or-silent" if not c.get("dress") else "mem_pair:look-alike-names:wrong-or-silent"
    if c["op"] == "mem_pre":
        return "mem_pre:column-encoded-by-another-genome:wrong-or-silent"
    return _finding_key(c, got, exp) + suffix


def _finding_key(c, got, exp):
    raised = isinstance(got, dict) and got.get("err") == "raised"
    if isinstance(exp, dict) and exp.get("err") == "raised":
        which = []
        for k, s in enumerate(c["streams"]):
            order = _incl_names(c) if c["op"] in ("iter", "iter_zip", "genome_mask", "genome_compute", "track") else list(c["names"])
            ign = _ign_names(c) if c["op"] in ("iter", "iter_zip", "genome_mask", "genome_compute", "track") else []
            if _spec_stream(order, ign, s) is None:
                which.append(str(k))
        return f"{c['op']}:silent-completion:bad-stream-{'+'.join(which)}"
    if raised:
        return f"{c['op']}:raised-on-compatible-data"
    under = any("_" in n for n in _incl_names(c))
    return f"{c['op']}:wrong-attribution" + (":included-underscore-name" if under else "")


def nontrivial(c):
    if c["op"] == "opt":
        return any(nontrivial(i) for i in c["inner"])
    order = list(c["names"])
    for s in c["streams"]:
        ns = [n for n, _ in s["groups"]]
        known = [n for n in ns if n in order]
        if known != sorted(known, key=order.index) or any(n not in order or "_" in n for n in ns) or len(known) < len(order):
            return True
    return False


# ------------------------------------------------------------------ generators

def _group_sequences(pool, max_len):
    for k in range(0, max_len + 1):
        yield from itertools.permutations(pool, k)


def _with_ids(seq, rng, start=0):
    """give every group 1-2 entries with ascending ids"""
    out, nxt = [], start
    for n in seq:
        k = 1 if rng.random() < 0.6 else 2
        out.append([n, list(range(nxt, nxt + k))])
        nxt += k + (1 if rng.random() < 0.3 else 0)
    return out


def _cut_sets(n_entries, tier, rng):
    if n_entries <= 1:
        return [[]]
    cs = [[], list(range(1, n_entries))]
    if tier == "quick":
        k = rng.randint(1, n_entries - 1)
        cs.append(sorted(rng.sample(range(1, n_entries), k)))
        return cs
    if n_entries <= 5:
        return [list(x) for r in range(0, n_entries) for x in itertools.combinations(range(1, n_entries), r)]
    for _ in range(4):
        k = rng.randint(1, n_entries - 1)
        cs.append(sorted(rng.sample(range(1, n_entries), k)))
    return cs


SINGLE = ["iter", "genome_mask", "genome_compute", "track", "ms", "left_join"]
STR_OPS = {"iter", "genome_mask", "ms", "left_join", "iter_zip", "ms_zip", "jaccard", "forbes"}
PREFIX_GENOMES = [["chr1", "chr10", "chr2"], ["chr1", "chr10", "chr100"], ["c", "ch", "chr"], ["chr2", "chr1", "chr11"]]
DOUBLE = ["iter_zip", "ms_zip", "jaccard", "forbes"]


def cases(tier, rng):
    _tmpdir()
    yield from _cases_main(tier, rng)
    yield from _cases_round4(tier, rng)
    yield from _cases_round7(tier, rng)
    yield from _cases_round8(tier, rng)


_FILL = "ABCDEFGHIJKLMNOPQRSTUVWXYZabcdefghijklmnopqrstuvwxyz0123456789|.=-"


def _twins(rng, base_len, big):
    """near copies of a dressed genome name: exchanges of two characters at EVERY distance (thorough) / at the distances
    around powers of two and a few others (quick), single substitutions at any position, truncations, an extension"""
    ds = set(range(1, base_len)) if big else \
        {d for k in range(0, 9) for d in (2 ** k - 1, 2 ** k, 2 ** k + 1) if 1 <= d < base_len} | {rng.randrange(1, base_len) for _ in range(6)}
    for d in sorted(ds):
        yield {"kind": "swap", "d": d, "i": rng.randrange(0, base_len - d)}
        if d % 16 == 0:
            yield {"kind": "swap", "d": d, "i": rng.choice([0, 1, base_len - d - 1])}
    for i in sorted({0, 1, base_len // 2, base_len - 1} | {rng.randrange(base_len) for _ in range(8 if big else 3)}):
        yield {"kind": "subst", "i": i}
    for i in (0, 1, 2):
        yield {"kind": "trunc", "i": i}
    yield {"kind": "ext", "i": 0}


def _cases_round7(tier, rng):
    big = tier in ("thorough", "widen")
    # 7a. LONG contig names (assembly-style identifiers of 5 .. 300 characters) and unknown names that are near copies of
    #     a genome name: the data names a contig that is not in the genome -> an error, through the in-memory routes
    #     (names are looked up through the string hash) and the streamed ones
    for base in (["chr1", "chr2", "chr3"], ["chr1", IGN, "chr2"]):
        plain = [n for n in base if "_" not in n]
        for flen in ((0, 12, 58, 59, 60, 61, 66, 123, 124, 125, 251, 252, 253, 296) if big else (0, 59, 60, 66, 124, 253)):
            fill = "".join(rng.choice(_FILL) for _ in range(flen))
            twins = list(_twins(rng, 5 + flen, big and flen in (66, 296)))
            if not big:
                twins = rng.sample(twins, min(len(twins), 12)) + [t for t in twins if t["kind"] == "swap" and t["d"] in (32, 64, 128, 256)]
            for tw in twins + [None]:
                dress = {"fill": fill, "twin": dict(tw, of=rng.choice(plain)) if tw else None}
                seqs = [[UNK], [plain[0], UNK], [UNK, plain[-1]], list(base)] if tw else [list(base), [plain[-1]], [plain[-1], plain[0]], [UNK]]
                for seq in (seqs if big or tw is None else rng.sample(seqs, 2)):
                    groups = _with_ids(seq, rng)
                    s1 = {"groups": groups, "cuts": []}
                    gs = [{"names": base}] if rng.random() < 0.6 else [{"names": base}, {"names": base[::-1], "filt": rng.random() < 0.5}]
                    yield {"names": base, "op": "mem_pair", "genomes": gs, "streams": [s1], "dress": dress}
                    if big or rng.random() < 0.3:
                        n_e = sum(len(i) for _, i in groups)
                        sc = {"groups": groups, "cuts": rng.choice(_cut_sets(n_e, "quick", rng))}
                        for op in ("iter", "genome_mask", "left_join"):
                            yield {"names": base, "filt": True, "op": op, "streams": [sc], "dress": dress, "key": rng.choice(["id", "str"])}
                        yield {"names": base, "filt": True, "op": "ms", "streams": [sc], "dress": dress, "msopt": {"value": "table"}}
                        yield {"names": base, "filt": True, "op": "genome_mask", "streams": [{"groups": groups, "cuts": []}], "dress": dress, "source": "file"}
    # 7b. a table whose contig column is already encoded by ANOTHER genome object: every other order of the same contigs,
    #     one contig fewer, one more, the same list; ignored contigs at every position of the genome under test
    targets = [(["chr1", "chr2", "chr3"], True), (["chr1", "chr2", IGN], True), (["chr1", IGN, "chr2"], True),
               ([IGN, "chr1", "chr2"], True), (["chr1", IGN, "chr2"], False), (["chr2", "chr1", "chr10"], True)]
    for names, filt in targets:
        others = [list(p) for p in itertools.permutations(names)]
        others += [names[:k] + names[k + 1:] for k in range(len(names))] + [names[:k] + ["chrX"] + names[k:] for k in (0, 1, len(names))]
        others += [list(reversed(o)) for o in others[-3:]]
        for onames in others:
            seqs = list(_group_sequences(onames, 3))[1:]
            for seq in (seqs if big else rng.sample(seqs, min(len(seqs), 5)) + [[n for n in names if n in onames]]):
                groups = _with_ids(seq, rng)
                for how in ("genome", "column"):
                    yield {"names": names, "filt": filt, "op": "mem_pre", "other": {"names": onames, "how": how},
                           "streams": [{"groups": groups, "cuts": []}]}


def _cases_round8(tier, rng):
    big = tier in ("thorough", "widen")
    # 8a. the documented keyword stranded=True of the streamed entry points (Genome.get_intervals(stream, stranded=True),
    #     read_intervals(file, stranded=True, stream=True)): tables with a strand column, every chunking
    names = ["chr1", IGN, "chr2", "chr3"]
    for seq in _group_sequences(["chr1", "chr2", "chr3", IGN, UNK], 3):
        groups = _with_ids(seq, rng)
        n_e = sum(len(i) for _, i in groups)
        for cuts in (_cut_sets(n_e, tier, rng) if big else [rng.choice(_cut_sets(n_e, "quick", rng)), list(range(1, n_e))]):
            s1 = {"groups": groups, "cuts": cuts}
            for op in ("genome_mask", "genome_compute"):
                yield {"names": names, "filt": rng.random() < 0.7, "op": op, "streams": [s1], "stranded": True}
        yield {"names": names, "filt": True, "op": "genome_mask", "streams": [{"groups": groups, "cuts": []}], "stranded": True, "source": "file"}
    # 8b. the same small cases in a child interpreter that does not execute assert statements (python -O, -OO,
    #     PYTHONOPTIMIZE=1): an error that the property demands must not be an `assert`
    contigs = ["chr1", "chr2", "chr3"]
    inner = []
    for seq in _group_sequences(contigs + [UNK], 3):
        groups = _with_ids(seq, rng)
        n_e = sum(len(i) for _, i in groups)
        s1 = {"groups": groups, "cuts": rng.choice(_cut_sets(n_e, "quick", rng))}
        for op in ("iter", "genome_mask", "genome_compute", "track", "ms", "left_join"):
            inner.append({"names": contigs, "filt": True, "op": op, "streams": [s1]})
        other = {"groups": _with_ids([x for x in contigs if rng.random() < 0.6], rng), "cuts": []}
        for op in DOUBLE:
            inner.append({"names": contigs, "filt": True, "op": op, "streams": [rng.choice([[s1, other], [other, s1]])][0]})
        inner.append({"names": contigs, "op": "mem_pair", "genomes": [{"names": contigs}], "streams": [{"groups": groups, "cuts": []}]})
    rng.shuffle(inner)
    per = 90
    batches = [inner[k:k + per] for k in range(0, len(inner), per)]
    modes = ["-O", "env", "-OO", "plain"]
    for k, b in enumerate(batches if big else batches[:3]):
        yield {"op": "opt", "mode": modes[k % len(modes)] if big else modes[k % 2], "inner": b}


def _cases_round4(tier, rng):
    big = tier in ("thorough", "widen")
    contigs = ["chr1", "chr2", "chr3"]
    # documented keywords: grouping on a column other than `chromosome` (group_field= / set_grouping_attribute / the
    # groupby column) for tables that ALSO have a `chromosome` column whose own values are compatible with the genome
    for seq in _group_sequences(contigs + [UNK], 3):
        groups = _with_ids(seq, rng)
        n_e = sum(len(i) for _, i in groups)
        for decoy in (["chr1", "chr3"] if big else [rng.choice(["chr1", "chr2", "chr3"])]):
            for key in ("id", "str"):
                cuts = rng.choice(_cut_sets(n_e, "quick", rng))
                s1 = {"groups": groups, "cuts": cuts}
                fld = {"decoy": decoy}
                for op in ("iter", "ms", "left_join"):
                    yield {"names": contigs, "filt": True, "op": op, "streams": [s1], "key": key, "field": fld}
                if big or rng.random() < 0.3:
                    other = {"groups": _with_ids([c for c in contigs if rng.random() < 0.6], rng), "cuts": []}
                    for op in ("iter_zip", "ms_zip"):
                        yield {"names": contigs, "filt": True, "op": op, "streams": [s1, other], "key": key, "field": fld}
                        yield {"names": contigs, "filt": True, "op": op, "streams": [other, s1], "key": key, "field": fld}
    # MultiStream variants: ChromosomeSize sizes, an in-memory table as value, key functions, defaults, a dict-like value
    opts = [{"sizes": "chromsize"}, {"value": "table"}, {"keyfunc": True}, {"default": True}, {"indexed": True},
            {"sizes": "chromsize", "value": "table", "keyfunc": True, "default": True, "indexed": True}]
    for seq in _group_sequences(contigs + [UNK], 3):
        groups = _with_ids(seq, rng)
        n_e = sum(len(i) for _, i in groups)
        for opt in (opts if big else rng.sample(opts, 3)):
            cuts = rng.choice(_cut_sets(n_e, "quick", rng))
            for key in ("id", "str"):
                yield {"names": contigs, "filt": True, "op": "ms", "streams": [{"groups": groups, "cuts": cuts}], "msopt": opt, "key": key}
        # read_intervals / read_track with stream=True from files
        for op in ("genome_mask", "track"):
            yield {"names": contigs, "filt": True, "op": op, "streams": [{"groups": groups, "cuts": []}], "source": "file"}
            yield {"names": ["chr1", IGN, "chr2", "chr3"], "filt": rng.random() < 0.5, "op": op,
                   "streams": [{"groups": groups, "cuts": []}], "source": "file"}
    # a contig returning after other groups (entries not contiguous), every group in chunks of its own: an error is demanded
    names = ["chr1", IGN, "chr2"]
    pool = ["chr1", "chr2", IGN, UNK]
    for k in (3, 4) if big else (3,):
        for seq in itertools.product(pool, repeat=k):
            if len(set(seq)) == len(seq) or any(a == b for a, b in zip(seq, seq[1:])):
                continue
            groups = _with_ids(seq, rng)
            bounds = list(itertools.accumulate(len(i) for _, i in groups))[:-1]
            n_e = sum(len(i) for _, i in groups)
            cuts = sorted(set(bounds) | ({rng.randrange(1, n_e)} if rng.random() < 0.3 else set()))
            s1 = {"groups": groups, "cuts": cuts}
            for filt in (True, False):
                for op in ("iter", "genome_mask", "track", "genome_compute"):
                    yield {"names": names, "filt": filt, "op": op, "streams": [s1]}
            for op in ("ms", "left_join"):
                yield {"names": names, "filt": True, "op": op, "streams": [s1]}
            other = {"groups": [], "cuts": []}
            for op in DOUBLE:
                yield {"names": names, "filt": True, "op": op, "streams": [other, s1]}


def _cases_main(tier, rng):
    big = tier in ("thorough", "widen")
    # 0. the design-round expectations as plain cases
    base = {"names": ["chr1", "chr2"], "filt": True}
    good = {"groups": [["chr1", [1]], ["chr2", [2]]], "cuts": []}
    bad = {"groups": [["chr2", [2]], ["chr1", [1]]], "cuts": []}
    for op in DOUBLE:
        yield dict(base, op=op, streams=[good, bad])
        yield dict(base, op=op, streams=[bad, good])
    yield {"names": ["chr1", "chr1_alt"], "filt": False, "op": "iter", "streams": [{"groups": [["chr1_alt", [3]]], "cuts": []}]}
    # 1. every sequence of distinct groups x chunkings x single-stream consumers
    for n in ((3, 4) if big else (2, 3)):
        contigs = ["chr1", "chr2", "chr3", "chr4"][:n]
        for filt in (True, False):
            names = contigs[:1] + [IGN] + contigs[1:]           # the '_' name sits inside the genome order
            pool = contigs + [IGN, UNK]
            max_len = (len(pool) if n <= 3 else 5) if big else (len(pool) if n <= 2 else 3)
            for seq in _group_sequences(pool, max_len):
                groups = _with_ids(seq, rng)
                n_e = sum(len(ids) for _, ids in groups)
                for cuts in _cut_sets(n_e, tier if n <= 3 else "quick", rng):
                    s = {"groups": groups, "cuts": cuts}
                    for op in SINGLE:
                        if op in ("ms", "left_join") and not filt:
                            continue                            # no notion of ignored names there: one pass is enough
                        if not big and op in ("genome_compute", "track") and cuts and rng.random() < 0.5:
                            continue
                        yield {"names": names, "filt": filt, "op": op, "streams": [s]}
                        if op in STR_OPS:
                            # the same with a `str`-typed (ragged) key column: chr1 / chr1_alt are a prefix pair
                            yield {"names": names, "filt": filt, "op": op, "streams": [s], "key": "str"}
    # 2. two streams: every pair of orders over <= 3 contigs (+ unknown), a few chunkings
    contigs = ["chr1", "chr2", "chr3"]
    pool = contigs + [UNK]
    seqs = list(_group_sequences(pool, 3))
    pairs = [(a, b) for a in seqs for b in seqs]
    if not big:
        pairs = rng.sample(pairs, 260) + [(a, b) for a in seqs for b in seqs if len(a) <= 2 and len(b) <= 2 and UNK not in a + b]
    for a, b in pairs:
        ga, gb = _with_ids(a, rng), _with_ids(b, rng, start=rng.choice([0, 0, 1]))
        sa = {"groups": ga, "cuts": rng.choice(_cut_sets(sum(len(i) for _, i in ga), "quick", rng))}
        sb = {"groups": gb, "cuts": rng.choice(_cut_sets(sum(len(i) for _, i in gb), "quick", rng))}
        for op in DOUBLE:
            yield {"names": contigs, "filt": True, "op": op, "streams": [sa, sb]}
    # 2b. contig names where one is a proper prefix of the next, `str`-typed and identifier key columns, every cut set
    #     (the switch between the prefix pair inside a chunk as well as on a chunk border), all consumers
    for contigs in PREFIX_GENOMES:
        seqs3 = [q for q in _group_sequences(contigs + [UNK], 3)]
        for seq in (seqs3 if big else [q for q in seqs3 if len(q) >= 2]):
            groups = _with_ids(seq, rng)
            n_e = sum(len(ids) for _, ids in groups)
            for cuts in _cut_sets(n_e, "thorough" if n_e <= 4 else tier, rng):
                s1 = {"groups": groups, "cuts": cuts}
                for key in ("str", "id"):
                    for op in ("iter", "ms", "left_join", "genome_mask"):
                        yield {"names": contigs, "filt": True, "op": op, "streams": [s1], "key": key}
                    if not cuts or big:
                        other = {"groups": _with_ids([c for c in contigs if rng.random() < 0.6], rng), "cuts": []}
                        for op in DOUBLE:
                            yield {"names": contigs, "filt": True, "op": op, "streams": [s1, other], "key": key}
                            yield {"names": contigs, "filt": True, "op": op, "streams": [other, s1], "key": key}
    # 2c. EMPTY chunks (a filtered chunk) at every position of the chunk stream: before the data, between contigs,
    #     strictly inside a contig's run (also the LAST contig's run), at the end — every consumer
    contigs = ["chr1", "chr2", "chr3"]
    for seq in _group_sequences(contigs + [UNK], 3):
        groups = [[n, [2 * k, 2 * k + 1]] for k, n in enumerate(seq)]          # two entries per contig
        n_e = 2 * len(seq)
        variants = [(list(range(1, n_e)), [pos]) for pos in range(0, n_e + 1)]      # one entry per chunk + one empty chunk
        variants += [([], [0]), ([], [1]), (list(range(1, n_e)), list(range(0, n_e + 1)))]
        if n_e >= 4:
            variants += [([2], [1]), ([1, 3], [2, 3]), ([3], [1, 1])]
        if not big:
            variants = variants if len(seq) <= 2 else rng.sample(variants, 4) + [variants[-2 if n_e < 4 else -4]] + [(list(range(1, n_e)), [n_e - 1])]
        for cuts, empty_at in variants:
            s1 = {"groups": groups, "cuts": cuts, "empty_at": empty_at}
            for op in ("iter", "ms", "left_join", "genome_mask", "track", "genome_compute"):
                yield {"names": contigs, "filt": True, "op": op, "streams": [s1]}
            for op in ("iter", "ms", "left_join"):
                yield {"names": contigs, "filt": True, "op": op, "streams": [s1], "key": "str"}
            if big or rng.random() < 0.3:
                other = {"groups": _with_ids([c for c in contigs if rng.random() < 0.6], rng), "cuts": [], "empty_at": [0]}
                for op in DOUBLE:
                    yield {"names": contigs, "filt": True, "op": op, "streams": [s1, other]}
                    yield {"names": contigs, "filt": True, "op": op, "streams": [other, s1]}
    # 2d. other genome objects derived from / built next to the genome BEFORE the evaluation (with_ignored_added, more
    #     objects over the same dict, sort_names): the ORIGINAL must still raise for the added name at every position,
    #     the derived one must skip exactly the added names
    names = ["chr1", IGN, "chr2", "chr3"]
    pool = ["chr1", "chr2", "chr3", IGN, UNK]
    derives = [{"added": [UNK], "use": "original", "warm": False, "extras": False},
               {"added": [UNK], "use": "original", "warm": True, "extras": True},
               {"added": [UNK], "use": "derived", "warm": False, "extras": False},
               {"added": [UNK, "chr2"], "use": "original", "warm": True, "extras": False},
               {"added": [UNK, "chr2"], "use": "derived", "warm": False, "extras": True},
               {"added": [UNK], "added2": ["chrM"], "use": "second", "warm": False, "extras": False},
               {"added": [UNK], "added2": ["chrM", "chr3"], "use": "second", "warm": True, "extras": True},
               {"added": [UNK], "use": "fresh", "warm": False, "extras": False},
               {"added": [UNK, "chr2"], "use": "fresh", "warm": True, "extras": False}]
    for seq in _group_sequences(pool, 3 if not big else 4):
        if not big and UNK not in seq and rng.random() < 0.5:
            continue
        groups = _with_ids(seq, rng)
        n_e = sum(len(i) for _, i in groups)
        for dv in derives:
            for filt in (True, False):
                cuts = rng.choice(_cut_sets(n_e, "quick", rng))
                s1 = {"groups": groups, "cuts": cuts}
                for op in ("iter", "genome_mask", "track", "genome_compute"):
                    if not big and op in ("track", "genome_compute") and rng.random() < 0.6:
                        continue
                    yield {"names": names, "filt": filt, "op": op, "streams": [s1], "derive": dv}
                if big or rng.random() < 0.25:
                    yield {"names": names, "filt": filt, "op": "iter_zip", "streams": [s1, {"groups": [], "cuts": []}], "derive": dv}
                    yield {"names": names, "filt": filt, "op": "iter_zip", "streams": [{"groups": [], "cuts": []}, s1], "derive": dv}
    # 2e. several genomes over the same sizes in ONE process, in-memory path (encoded chromosome column decoded by each
    #     genome's own label table): sort_names variants and permuted contig orders, evaluated back to back in one case
    for base in (["chr2", "chr1", "chr10"], ["chr3", IGN, "chr1", "chr2"], ["chr1", "chr2", "chr3"]):
        perms = [list(p) for p in itertools.permutations(base)][1:4]
        genomes = [{"names": base}, {"names": base, "sort": True}] + [{"names": p} for p in perms] + [{"names": base, "filt": False}]
        for seq in _group_sequences(base + [UNK], 3):
            if UNK in seq and len(seq) > 2:
                continue
            groups = _with_ids(seq, rng)
            pairs = [(a, b) for a in genomes for b in genomes if a is not b]
            for a, b in (pairs if big else rng.sample(pairs, 4)):
                yield {"names": base, "op": "mem_pair", "genomes": [a, b, a], "streams": [{"groups": groups, "cuts": []}]}
    # 3. two-contig genomes where the mis-ordered group follows the LAST contig (the silent position)
    for a in _group_sequences(["chr1", "chr2", UNK], 3):
        for b in _group_sequences(["chr1", "chr2", UNK], 3):
            ga, gb = _with_ids(a, rng), _with_ids(b, rng)
            for op in DOUBLE:
                yield {"names": ["chr1", "chr2"], "filt": True, "op": op,
                       "streams": [{"groups": ga, "cuts": []}, {"groups": gb, "cuts": []}]}
