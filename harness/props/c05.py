"""C05 — lazy and eager reading are observationally equivalent."""
import atexit
import dataclasses
import gzip
import os
import shutil
import tempfile

import numpy as np

from .. import core
from . import c04 as G        # my own generators / BAM encoder (C04 module)

ID = "C05"
RULE = ("two tables read from generated BED/BED6/VCF/SAM/FASTQ/two-line FASTA/BAM files (all Lean-modelled) and VCF with declared INFO "
        "keys (nested lazy INFO table observed through its DP key; implementation lazy vs eager only), "
        "canonical and non-canonical text, whole and chunked read, or the two registers are the first two chunks handed out by ONE reader "
        "(read_chunk twice: objects of the same lazy class, both alive, one modified while the other is observed), a single row "
        "t[i] with i spelled as Python int / np.int64 / np.int32 / np.intp, each program run twice (lazy / eager, each mode asked for "
        "through one combination of the documented switches: bionumpy.config.LAZY assigned or via ConfigContext x the lazy= keyword x "
        "default - the keyword wins, then the config - and the tables must BE of that mode): random "
        "register programs over {len, get field, t[slice|mask|int list], t[i], np.concatenate([t,u]) and n-ary np.concatenate([t,u,u..]), "
        "replace(t, f=values), iteration, "
        "todict, str(), "
        "t.f = values, tolist, write}; observation after every step (lazy writes are additionally held to C04's rule: original bytes when "
        "nothing was replaced, original text of every never-replaced column otherwise); plus EVERY program of length <= 2 (quick) / <= 3 (thorough) over a "
        "14-operation alphabet on a 2-row and a 1-row BED6 table; 'filter every file of a set and concatenate': THREE files of unequal "
        "size in three registers, each replaced by a selection of itself with every pattern of selections WITHOUT rows (all-False mask, "
        "empty slice, empty int list) among selections with rows, then one n-ary np.concatenate of 3-4 operands in any order, fields "
        "read before and after; round 8: index KINDS (Python range counting down to row 0 / from-the-end / past the end, pandas "
        "Series, int16 / uint8 / uint64 arrays) in random and fixed programs, and the protocol operation `t == u` between two files of "
        "EQUAL VALUES and DIFFERENT TEXT (file 1 = file 0 respelled canonically), whole / sliced / reversed / after assignments. Non-trivial = the program touches >= 2 of "
        "{field access, index, concatenate, replace/setattr} before an observation")
EXHAUSTIVE = {"quick": False, "thorough": False}   # the small-scope family is exhaustive, the rest is sampled
MODEL_OPS = {"run"}
PARALLEL = 16
ASSUMPTIONS = [
    "the item getter's buffer is abstracted to the list of file rows it denotes; that indexing/concatenating the real extractor is list "
    "indexing/append on that list is a theorem (buffer_index_refines, buffer_concat_refines, from C04 select_refines/concat_refines)",
    "parsing a field is a per-row function of the row's text (C02); values are identified with their canonical spelling",
    "written BYTES are compared only for files whose eager round trip dump(parse(bytes)) = bytes (for other files C04 requires the "
    "lazy path to keep the original spelling while the eager path re-formats); VALUES are compared always",
    "shape-only differences of a column (strand as (n,) EncodedArray when eager, n x 1 ragged when lazy) are canonicalised away: "
    "every column is observed as a list of per-row strings",
    "the strand column (one encoded character per row) has a different array shape in the two modes, so no single replacement "
    "array is valid in both: it is observed but never replaced",
    "an operation that raises leaves the table unchanged; only the fact of failing is compared, not the exception class",
    "index KINDS (Python range, pandas Series, integer arrays of other widths) select what the list of their members selects; a run in "
    "which npstructures' ragged arrays refuse a range / Series with NotImplementedError (text columns of eager tables, cached text "
    "columns of lazy ones) is outside the comparison; `t == u` (the data class's column-wise comparison) is compared lazy vs eager",
    "an n-ary np.concatenate([a, b, m1, ...]) is run by the Lean machines as the binary steps a := [a, b]; a := [a, m1]; ... (only the "
    "last one is an observation of the case); the n-ary rule of the code is concatNew / concatNew_spec, associativity concat_assoc_view",
    "FASTQ / two-line FASTA / BAM buffers have no `concatenate`: their lazy tables become eager on np.concatenate; the eager result "
    "is modelled by the observationally equal lazy table whose overlay holds every field (Cfg.bufferConcat = false); BAM additionally "
    "has no modified write and no eager writer (Cfg.modWrite = Cfg.eagerWrite = false), its records come from this module's "
    "spec-level encoder",
]
TRUSTED_EXTRA = ["gzip (BAM container) and the OS file layer"]

MANIFEST = {
    "text": "Lean 4 bisimulation between the lazy three-store model (buffer rows, field cache, set-values overlay, memoised data "
            "object) and the eager column table: step_preserves for len/get/index/row/concatenate/replace/setattr/tolist/write and "
            "`programs` by induction over operation sequences on a register machine (equal observation traces, or failure in both); "
            "written bytes equal under the canonical-file hypothesis (write_equal); refutations of the shipped concatenate "
            "(first operand's overlay/cache keys only) and of the shipped __setattr__ (stale memoised data object); the buffer abstraction is "
            "tied to the C04 extractor by buffer_index_refines / buffer_concat_refines; the model's notions are pinned by list facts "
            "and laws (fileCol_get, transposeN_get, get_idempotent, setattr_get, select_select_view, replace_replace_view, "
            "concat_assoc_view). The write step is compared for every configuration: programs (bytes, canonical files), "
            "programs_values (success-vs-failure of every write, payload masked), programs_nonwrite (any buffer type), "
            "bam_untouched_write_diverges / bam_modified_write_both_err (BAM: untouched lazy table writes, eager cannot). A field number "
            "outside the entry type fails on both sides (no guard); the remaining guard (replacement columns have one value per row) is "
            "the property's domain, decided by runOKb (runOKb_sound; reported by the driver for every request) and shown necessary "
            "(illsized_setattr_diverges). untouched_writes: under EVERY program without replace/setattr every lazy write is the "
            "original bytes of the rows the same program selects on plain row lists. lazy_index_buffer / lazy_concat_buffer connect "
            "Lazy.index / concatNew to the C04 extractor; chunked_read(_programs): a file read in chunks and concatenated is the file "
            "read whole. That lazy and eager parse a cell to the same value is by construction of the model (C02 + the harness). "
            "Correspondence: "
            "the real package run twice (lazy=True/False) on generated files and random programs vs the Lean lazy and eager models "
            "vs a Python list-of-rows oracle.",
    "note": "The buffer is abstracted to the list of rows it denotes (C04) and parsing to a per-row function (C02).",
    "technique": "Lean 4 bisimulation proof (induction over programs) + differential correspondence with the implementation",
    "design": "§6 C05",
}

# field kinds per format (entry-type fields)
KINDS = {
    "bed": ["str", "int", "int"],
    "bed6": ["str", "int", "int", "str", "int", "strand"],
    "vcf": ["str", "pos", "str", "str", "str", "str", "str", "str"],
    "sam": ["str", "int", "str", "int", "int", "str", "str", "int", "int", "str", "str", "extra"],
    # VCF with declared INFO keys: the INFO column is a nested (lazy) table; it is observed through its DP key (virtual field 8)
    "vcfi": ["str", "pos", "str", "str", "str", "str", "str", "skip", "int"],
    "fastq": ["str", "str", "qual"],
    "fasta2": ["str", "str"],
    "bam": ["str", "str", "int", "int", "int", "str", "list", "str", "list"],
}
NAMES = dict(G.FIELD_NAMES, vcfi=G.FIELD_NAMES["vcf"] + ["info.DP"], bam=["chromosome", "name", "flag", "position", "mapq", "cigar_op", "cigar_length", "sequence", "quality"])
MODEL_FMTS = ("bed", "bed6", "vcf", "sam", "fastq", "fasta2", "bam")
REPLACEABLE = {"bed": [0, 1, 2], "bed6": [0, 1, 2, 3], "vcf": [0, 1, 2, 3, 4, 5, 6], "vcfi": [0, 1, 2, 3, 4, 5, 6], "sam": [0, 1, 2, 3, 4, 5, 6, 7, 8, 9, 10],
               "fastq": [0, 1], "fasta2": [0, 1], "bam": []}
SEQID = {"bed": [0], "bed6": [0, 3], "vcf": [0], "vcfi": [0], "sam": [0, 2], "fastq": [0], "fasta2": [0], "bam": []}


def _int_text(rng, canonical, lo=0, hi=3000):
    v = rng.randrange(lo, hi) if rng.random() < 0.8 else rng.choice([lo, 9, 10, 99, 100, 999, 1000])
    if canonical or rng.random() < 0.5:
        return str(v)
    return rng.choice(["0", "00", "+"]) + str(v)


def gen_row(fmt, rng, canonical, shape):
    """(raw record text, [(text, value-spelling)] for the entry type's fields)"""
    nm, sq = G._name, G._seq
    if fmt in ("bed", "bed6"):
        t = ["chr" + nm(rng, 3), _int_text(rng, canonical), _int_text(rng, canonical)]
        if fmt == "bed6":
            t += [nm(rng), _int_text(rng, canonical, 0, 1000), rng.choice("+-.")]
        return "\t".join(t) + "\n", t
    if fmt in ("vcf", "vcfi"):
        t = ["chr" + nm(rng, 2), _int_text(rng, canonical, 1), rng.choice([".", "rs" + nm(rng, 4)]), sq(rng, 3).upper(),
             rng.choice(["A", "T", "C,G", "."]), rng.choice([".", "29", "1e3"]), rng.choice([".", "PASS", "q10;s50"]),
             rng.choice([".", "DP=4;AF=0.5", "NS=3"] if fmt == "vcf" else [".", "DP=4;AF=0.5", "DB;DP=7", "AF=0.25", "DP=12", "DB"])]
        extra = []
        if shape["samples"] >= 0:
            extra = ["GT"] + [rng.choice(["0|1", "1/1", "./."]) for _ in range(shape["samples"])]
        if fmt == "vcfi":
            import re as _re
            m = _re.search(r"(?:^|;)DP=(\d+)", t[7])
            return "\t".join(t + extra) + "\n", t + [str(int(m.group(1))) if m else "0"]
        return "\t".join(t + extra) + "\n", t
    if fmt == "sam":
        s = sq(rng, 7)
        t = [nm(rng), _int_text(rng, canonical, 0, 200), rng.choice(["chr1", "chr2", "*"]), _int_text(rng, canonical, 1, 900),
             _int_text(rng, canonical, 0, 61), rng.choice(["*", f"{len(s)}M", "1S2M"]), rng.choice(["=", "*", "chr2"]),
             _int_text(rng, canonical, 0, 900), _int_text(rng, canonical, 0, 300), s, "".join(rng.choice("IJ#5;") for _ in s)]
        tags = [rng.choice(["NM:i:0", "XS:A:+", "MD:Z:4", "RG:Z:g 1"]) for _ in range(rng.choice([1, 1, 2, 3] if canonical else [0, 0, 1, 2]))]
        return "\t".join(t + tags) + "\n", t + ["\t".join(tags)]
    if fmt == "fastq":
        n, s = nm(rng) + rng.choice(["", " desc x"]), sq(rng)
        q = "".join(rng.choice("!#5IJ~+@") for _ in s)
        plus = "+" + (n if (not canonical and rng.random() < 0.5) else "")
        return f"@{n}\n{s}\n{plus}\n{q}\n", [n, s, q]
    if fmt == "fasta2":
        n, s = nm(rng) + rng.choice(["", " d e"]), sq(rng, 14)
        return f">{n}\n{s}\n", [n, s]
    raise KeyError(fmt)


def _val(kind, text):
    if kind in ("int", "pos"):
        return str(int(text))
    if kind == "skip":
        return ""
    return text


def make_tables(rng, fmt, canonical, ntab=2):
    shape = {"samples": -1 if canonical else rng.choice([-1, 0, 1, 2])}
    tabs = []
    for _ in range(ntab):
        rows = []
        for _ in range(rng.choice([1, 2, 3, 4, 5])):
            if fmt == "bam":
                b, vals = G.bam_record_fields(rng)
                rows.append({"raw": b.decode("latin-1"), "cells": [[v, v] for v in vals]})
            else:
                raw, texts = gen_row(fmt, rng, canonical, shape)
                rows.append({"raw": raw, "cells": [[t, _val(k, t)] for t, k in zip(texts, KINDS[fmt])]})
        tabs.append(rows)
    return tabs, shape


def _rand_kw_vals(rng, fmt, f, n):
    kind = KINDS[fmt][f]
    if kind in ("int", "pos"):
        return [str(rng.choice([1, 7, 10, 99, 100, 12345, rng.randrange(1, 10 ** 5)])) for _ in range(n)]
    if kind == "strand":
        return [rng.choice("+-.") for _ in range(n)]
    if f in SEQID[fmt]:
        return ["N" + G._name(rng, 5) for _ in range(n)]
    return [G._seq(rng, 5) for _ in range(n)]


def _parts_lens(fmt, samples, tabs, size):
    """two consecutive chunks taken from ONE reader of file 0: how many rows each holds (chunk boundaries are C01's subject;
    asked from the implementation when the case is generated and stored in the case)"""
    import bionumpy as bnp
    gc = {"fmt": fmt, "eol": "\n", "samples": samples, "recs": [[{"raw": r["raw"]} for r in t] for t in tabs]}
    d, paths = G._write_tables(gc)
    try:
        f = bnp.open(paths[0], buffer_type=G._buffer_type(fmt))
        a = f.read_chunk(min_chunk_size=size)
        b = f.read_chunk(min_chunk_size=size)
        return [len(a), len(b)] if (len(a) and len(b)) else None
    except Exception:
        return None
    finally:
        shutil.rmtree(d, ignore_errors=True)


def _reg_rows(c):
    """the rows each register starts with"""
    if c.get("parts"):
        k0, k1 = c["parts"]["lens"]
        return [c["tables"][0][:k0], c["tables"][0][k0:k0 + k1]]
    return c["tables"]


def make_case(rng, fmt, nops, canonical=None, parts=False, ntab=2):
    canonical = (rng.random() < 0.5) if canonical is None else canonical
    tabs, shape = make_tables(rng, fmt, canonical, ntab)
    lens = [len(t) for t in tabs]
    pinfo = None
    if parts and fmt != "bam":
        # the two registers are two chunks handed out by the SAME reader (objects sharing a lazy class / reader state)
        while len(tabs[0]) < 4:
            tabs[0] = tabs[0] + make_tables(rng, fmt, canonical)[0][0]
        if fmt in ("vcf", "vcfi"):
            tabs[0] = [r for r in tabs[0] if r["raw"].count("\t") == tabs[0][0]["raw"].count("\t")] * 4
        tabs[0] = tabs[0][:6]
        k = rng.randrange(1, len(tabs[0]) - 1)
        size = len("".join(r["raw"] for r in tabs[0][:k]).encode("latin-1"))
        pl = _parts_lens(fmt, shape["samples"], tabs, size)
        lens = [len(t) for t in tabs]
        if pl:
            pinfo = {"size": size, "lens": pl}
            lens = list(pl)
    nF = len(KINDS[fmt])
    ops = []
    for _ in range(nops):
        a = rng.choice([0, 0, 1])
        n = lens[a]
        r = rng.random()
        if r < 0.07:
            ops.append({"k": "len", "a": a})
        elif r < 0.27:
            ops.append({"k": "get", "a": a, "f": rng.randrange(nF)})
        elif r < 0.45:
            ix = G._rand_idx(rng, n)
            d = a if rng.random() < 0.7 else 1 - a
            ops.append({"k": "index", "a": a, "d": d, "ix": ix})
            res = G._py_index(list(range(n)), ix)
            if res is not None:
                lens[d] = len(res)
        elif r < 0.5:
            ops.append({"k": "row", "a": a, "i": rng.choice([0, -1, n - 1, n, -n, rng.randrange(-n - 1, n + 1) if n else 0]),
                        "as": rng.choice(["int", "int", "i64", "i32", "intp"])})
        elif r < 0.65:
            b = rng.choice([0, 1])
            ops.append({"k": "cat", "a": a, "b": b})
            lens[a] = lens[a] + lens[b]
            if rng.random() < 0.3:
                # n-ary: np.concatenate([reg a, reg b, further registers ...]) (further operands are other registers than a)
                more = [1 - a] * rng.choice([1, 1, 2])
                ops[-1]["more"] = more
                lens[a] += sum(lens[m] for m in more)
        elif r < 0.8 and REPLACEABLE[fmt] and n:
            fs = sorted(rng.sample(REPLACEABLE[fmt], rng.choice([1, 1, 2])))
            d = a if rng.random() < 0.6 else 1 - a
            ops.append({"k": "replace", "a": a, "d": d, "kw": [[f, _rand_kw_vals(rng, fmt, f, n)] for f in fs]})
            lens[d] = n
        elif r < 0.87 and REPLACEABLE[fmt] and n:
            f = rng.choice(REPLACEABLE[fmt])
            ops.append({"k": "setattr", "a": a, "f": f, "c": _rand_kw_vals(rng, fmt, f, n)})
        elif r < 0.94:
            # conversions to rows / columns / text: tolist, iteration, todict, str(); the protocol operation t == u
            kk = rng.choice(["tolist", "tolist", "iter", "todict", "str", "eq"])
            ops.append({"k": kk, "a": a, "b": rng.choice([0, 1])} if kk == "eq" else {"k": kk, "a": a})
        else:
            ops.append({"k": "write", "a": a})
    ops += [{"k": "tolist", "a": 0}, {"k": "write", "a": 0}, {"k": "tolist", "a": 1}]
    c = {"op": "run" if fmt in MODEL_FMTS else "impl", "fmt": fmt, "canonical": canonical, "samples": shape["samples"],
         "tables": tabs, "ops": ops, "chunk": 0 if (fmt == "bam" or pinfo) else rng.choice([0, 0, 0, 1, 30, 100])}
    if pinfo:
        c["parts"] = pinfo
    if rng.random() < 0.25:
        # each mode asked for through another combination of the documented switches (config.LAZY x lazy= keyword x default)
        c["sw"] = {"lazy": rng.choice(G.SWITCHES_LAZY), "eager": rng.choice(G.SWITCHES_EAGER)}
    return c


def _twin(c):
    """the case with file 1 := file 0 respelled: every integer column in its canonical spelling, the FASTQ separator line a bare '+';
    the two files hold EQUAL VALUES in every column, their TEXT differs wherever file 0 is not canonical"""
    fmt = c["fmt"]
    rows = []
    for r in c["tables"][0]:
        if fmt == "bam":
            rows.append(dict(r))
            continue
        cells = [[v if k in ("int", "pos") else t, v] for (t, v), k in zip(r["cells"], KINDS[fmt])]
        if fmt == "fastq":
            lines = r["raw"].split("\n")
            lines[2] = "+"
            raw = "\n".join(lines)
        elif fmt == "fasta2":
            raw = r["raw"]
        else:
            cols = r["raw"][:-1].split("\t")
            for i, ((t, v), k) in enumerate(zip(r["cells"], KINDS[fmt])):
                if k in ("int", "pos") and i < len(cols) and cols[i] == t:
                    cols[i] = v
            raw = "\t".join(cols) + "\n"
        rows.append({"raw": raw, "cells": cells})
    return dict(c, tables=[c["tables"][0], rows] + c["tables"][2:])


def cases(tier, rng):
    G._tmp()    # scratch directory of the run: created in the parent, shared by the forked workers, removed at exit
    big = tier in ("thorough", "widen")
    per = {"quick": 400, "thorough": 4000, "widen": 1500}[tier]
    L = 8 if big else 5
    fmts = ["bed", "bed6", "vcf", "sam", "fastq", "fasta2", "bam", "vcfi"]
    # fixed scenario family: cache / overlay interleavings around one concatenate
    for fmt in fmts:
        for canonical in (True, False):
            base = make_case(rng, fmt, 0, canonical)
            nF = len(KINDS[fmt])
            n0, n1 = len(base["tables"][0]), len(base["tables"][1])
            rep = REPLACEABLE[fmt]
            scen = [[{"k": "cat", "a": 0, "b": 1}], [{"k": "get", "a": 0, "f": 1 % nF}, {"k": "cat", "a": 0, "b": 1}],
                    [{"k": "get", "a": 1, "f": 1 % nF}, {"k": "cat", "a": 0, "b": 1}],
                    [{"k": "index", "a": 0, "d": 0, "ix": {"slice": [None, None, -1]}}, {"k": "get", "a": 0, "f": 0}, {"k": "cat", "a": 0, "b": 0}]]
            if rep:
                f = rep[min(1, len(rep) - 1)]
                scen += [[{"k": "replace", "a": 1, "d": 1, "kw": [[f, _rand_kw_vals(rng, fmt, f, n1)]]}, {"k": "cat", "a": 0, "b": 1}],
                         [{"k": "replace", "a": 0, "d": 0, "kw": [[f, _rand_kw_vals(rng, fmt, f, n0)]]}, {"k": "cat", "a": 0, "b": 1}],
                         [{"k": "replace", "a": 0, "d": 1, "kw": [[f, _rand_kw_vals(rng, fmt, f, n0)]]}, {"k": "get", "a": 0, "f": f},
                          {"k": "replace", "a": 1, "d": 0, "kw": [[rep[0], _rand_kw_vals(rng, fmt, rep[0], n0)]]}, {"k": "tolist", "a": 1}],
                         [{"k": "tolist", "a": 0}, {"k": "setattr", "a": 0, "f": f, "c": _rand_kw_vals(rng, fmt, f, n0)}],
                         [{"k": "get", "a": 0, "f": f}, {"k": "setattr", "a": 0, "f": f, "c": _rand_kw_vals(rng, fmt, f, n0)},
                          {"k": "index", "a": 0, "d": 0, "ix": {"ints": [n0 - 1, 0]}}, {"k": "get", "a": 0, "f": f}]]
            for s in scen:
                yield dict(base, ops=s + base["ops"], chunk=0)
    # "filter every file of a set, concatenate what is left": THREE files of unequal size in three registers, each replaced by a
    # selection of itself - every pattern of selections WITHOUT rows (all-False mask, empty slice, empty int list) among operands with
    # rows - then ONE n-ary np.concatenate (3 or 4 operands, any register first, a register twice), fields read before / after
    for fmt in fmts:
        for canonical in (True, False):
            base = make_case(rng, fmt, 0, canonical, ntab=3)
            ns = [len(t) for t in base["tables"]]
            nF = len(KINDS[fmt])
            for pattern in range(8):
                for variant in range(2 if big else 1):
                    ops = []
                    for r in range(3):
                        n = ns[r]
                        if pattern >> r & 1:
                            ix = rng.choice([{"mask": [False] * n}, {"slice": [n, None, 1]}, {"ints": []}, {"slice": [0, 0, 1]}])
                        else:
                            ix = rng.choice([{"mask": [True] * n}, {"mask": [i != 0 or n == 1 for i in range(n)]}, {"slice": [None, None, -1]},
                                             {"ints": [n - 1, 0]}])
                        ops.append({"k": "index", "a": r, "d": r, "ix": ix})
                        if rng.random() < 0.3:
                            ops.append({"k": "get", "a": r, "f": rng.randrange(nF)})
                    order = rng.sample([0, 1, 2], 3)
                    cat = {"k": "cat", "a": order[0], "b": order[1], "more": [order[2]] + ([order[1]] if rng.random() < 0.3 else [])}
                    tail = [{"k": "get", "a": order[0], "f": rng.randrange(nF)}, {"k": "tolist", "a": order[0]}, {"k": "write", "a": order[0]}]
                    yield dict(base, ops=ops + [cat] + tail + base["ops"], chunk=0)
    # index KINDS (range counting down to row 0 / from-the-end bounds / past the end, pandas Series, unsigned arrays) and `t == u`
    # between two tables of EQUAL VALUES and DIFFERENT TEXT (file 1 = file 0 respelled canonically: no leading zeros / '+', bare FASTQ '+')
    for fmt in fmts:
        for rnd in range(3 if big else 1):
            base = _twin(make_case(rng, fmt, 0, False))
            n0 = len(base["tables"][0])
            nF = len(KINDS[fmt])
            IX = lambda a, d, ix: {"k": "index", "a": a, "d": d, "ix": ix}
            EQ = lambda a, b: {"k": "eq", "a": a, "b": b}
            scen = [[EQ(0, 1)], [EQ(1, 0)], [EQ(0, 0)], [{"k": "get", "a": 0, "f": 1 % nF}, EQ(0, 1)],
                    [IX(0, 0, {"slice": [1, None, 1]}), IX(1, 1, {"slice": [1, None, 1]}), EQ(0, 1)],
                    [IX(0, 0, {"slice": [None, None, -1]}), EQ(0, 1), EQ(1, 0)],
                    [IX(0, 0, {"range": [n0 - 1, -1, -1]}), IX(1, 1, {"slice": [None, None, -1]}), EQ(0, 1)],
                    [IX(0, 0, {"range": [n0 - 1, -1, -1]})], [IX(0, 1, {"range": [-min(n0, 2), 0, 1]})], [IX(0, 0, {"range": [0, n0 + 2, 1]})],
                    [IX(0, 0, {"range": [-1, -n0 - 1, -2]}), {"k": "get", "a": 0, "f": 0}],
                    [IX(0, 0, {"ints": [n0 - 1, 0], "as": "series"})], [IX(0, 0, {"ints": [n0 - 1, 0], "as": "u64"})],
                    [IX(0, 1, {"mask": [i % 2 == 0 for i in range(n0)], "as": "series"})]]
            if REPLACEABLE[fmt]:
                f = REPLACEABLE[fmt][0]
                vals = _rand_kw_vals(rng, fmt, f, n0)
                scen += [[{"k": "setattr", "a": 0, "f": f, "c": vals}, EQ(0, 1), {"k": "setattr", "a": 1, "f": f, "c": vals}, EQ(0, 1)]]
            for sc in scen:
                yield dict(base, ops=sc + base["ops"], chunk=0)
    for fmt in fmts:
        m = per if fmt in MODEL_FMTS else per // 2
        for _ in range(m):
            yield make_case(rng, fmt, rng.randrange(1, L + 1))
    # two chunks handed out by ONE reader are the two registers: whatever is done to one must not show in the other
    for fmt in fmts:
        if fmt == "bam":
            continue
        for _ in range(per // 8):
            yield make_case(rng, fmt, rng.randrange(1, L + 1), parts=True)
        for canonical in (True, False):
            base = make_case(rng, fmt, 0, canonical, parts=True)
            if not base.get("parts"):
                continue
            n0, n1 = base["parts"]["lens"]
            rep = REPLACEABLE[fmt]
            f = rep[min(1, len(rep) - 1)]
            scen = [[{"k": "setattr", "a": 0, "f": f, "c": _rand_kw_vals(rng, fmt, f, n0)}, {"k": "tolist", "a": 1}, {"k": "write", "a": 1}],
                    [{"k": "setattr", "a": 1, "f": f, "c": _rand_kw_vals(rng, fmt, f, n1)}, {"k": "get", "a": 0, "f": f}, {"k": "write", "a": 0}],
                    [{"k": "get", "a": 0, "f": f}, {"k": "get", "a": 1, "f": f}, {"k": "cat", "a": 0, "b": 1}],
                    [{"k": "tolist", "a": 0}, {"k": "setattr", "a": 0, "f": rep[0], "c": _rand_kw_vals(rng, fmt, rep[0], n0)}, {"k": "tolist", "a": 1}]]
            for sc in scen:
                yield dict(base, ops=sc + base["ops"])
    # the documented switches of laziness and their precedence: every lazy combination x every eager combination, on canonical and
    # non-canonical text of every format (the observations must be those of the mode the keyword - or, without it, the config - says)
    for fmt in fmts:
        for canonical in (True, False):
            base = make_case(rng, fmt, 0, canonical)
            pairs = [(a, b) for a in G.SWITCHES_LAZY for b in G.SWITCHES_EAGER]
            for a, b in (pairs if big else rng.sample(pairs, 7) + [(G.SWITCHES_LAZY[i + 1], G.SWITCHES_EAGER[i]) for i in range(6)]):
                ops = [{"k": "len", "a": 0}, {"k": "get", "a": 0, "f": 1 % len(KINDS[fmt])}, {"k": "write", "a": 0},
                       {"k": "index", "a": 1, "d": 1, "ix": {"slice": [None, None, -1]}}, {"k": "write", "a": 1}]
                yield dict(base, ops=ops + base["ops"], chunk=0, sw={"lazy": a, "eager": b})
    # exhaustive small scope: every program of length <= 2 (quick) / <= 3 (thorough) over a 14-operation alphabet
    yield from _exhaustive(rng, 3 if big else 2)


def _exhaustive(rng, maxlen):
    import itertools
    base = make_case(rng, "bed6", 0, True)
    while len(base["tables"][0]) != 2 or len(base["tables"][1]) != 1:
        base = make_case(rng, "bed6", 0, True)
    alphabet = [("get", 0, 1), ("get", 1, 1), ("rev", 0, 0), ("tail", 1, 1), ("mask", 0, 1), ("cat", 0, 1), ("cat", 1, 0), ("cat", 0, 0),
                ("rep", 0, 0, 1), ("rep", 1, 1, 1), ("rep", 0, 1, 2), ("set", 0, 1), ("tolist", 0), ("write", 0)]
    for n in range(1, maxlen + 1):
        for prog in itertools.product(alphabet, repeat=n):
            lens = [2, 1]
            ops = []
            for o in prog:
                k, a = o[0], o[1]
                if k == "get":
                    ops.append({"k": "get", "a": a, "f": o[2]})
                elif k in ("rev", "tail", "mask"):
                    ix = {"rev": {"slice": [None, None, -1]}, "tail": {"slice": [1, None, 1]},
                          "mask": {"mask": [i % 2 == 0 for i in range(lens[a])]}}[k]
                    ops.append({"k": "index", "a": a, "d": o[2], "ix": ix})
                    lens[o[2]] = len(G._py_index(list(range(lens[a])), ix))
                elif k == "cat":
                    ops.append({"k": "cat", "a": a, "b": o[2]})
                    lens[a] += lens[o[2]]
                elif k == "rep":
                    ops.append({"k": "replace", "a": a, "d": o[2], "kw": [[o[3], [str(70 + i) for i in range(lens[a])]]]})
                    lens[o[2]] = lens[a]
                elif k == "set":
                    ops.append({"k": "setattr", "a": a, "f": o[2], "c": [str(80 + i) for i in range(lens[a])]})
                else:
                    ops.append({"k": k, "a": a})
            yield dict(base, ops=ops + base["ops"], chunk=0)


def nontrivial(c):
    kinds = {o["k"] for o in c["ops"][:-3]}
    groups = [bool(kinds & {"get", "row", "tolist"}), "index" in kinds, "cat" in kinds, bool(kinds & {"replace", "setattr"})]
    return sum(groups) >= 2


# ------------------------------------------------------------------ oracle: a table is a list of rows of value spellings

def oracle(c):
    fmt = c["fmt"]
    nF = len(KINDS[fmt])
    regs = [[[cell[1] for cell in r["cells"]] for r in t] for t in _reg_rows(c)]
    # what the LAZY table must write (C04): per row the original TEXT of every column that was never replaced in it or in an
    # operand it was concatenated with, the value's spelling otherwise (FASTQ/FASTA concatenations are eager: every column)
    texts = [[[cell[0] for cell in r["cells"]] for r in t] for t in _reg_rows(c)]
    over = [set() for _ in _reg_rows(c)]
    raws = [[r["raw"] for r in t] for t in _reg_rows(c)]
    lazy_w, lazy_raw = {}, {}
    kline = fmt in ("fastq", "fasta2", "bam")
    if kline and c["chunk"]:
        over[0] = set(range(nF))    # register 0 is np.concatenate(chunks): eager for these formats when there are >= 2 chunks
    out = []
    for step, o in enumerate(c["ops"]):
        k, a = o["k"], o["a"]
        t = regs[a]
        if k == "len":
            out.append({"num": len(t)})
        elif k == "get":
            out.append({"col": [r[o["f"]] for r in t]})
        elif k == "index":
            r = G._py_index(t, o["ix"])
            if r is None:
                out.append("err")
            else:
                regs[o["d"]] = r
                texts[o["d"]] = G._py_index(texts[a], o["ix"])
                raws[o["d"]] = G._py_index(raws[a], o["ix"])
                over[o["d"]] = set(over[a])
                out.append({"num": len(r)})
        elif k == "row":
            i = o["i"]
            out.append({"rows": [_blank(fmt, t[i])]} if -len(t) <= i < len(t) else "err")
        elif k == "cat":
            bs = [a, o["b"]] + list(o.get("more", []))       # the operands, in order (n-ary when `more` is given)
            texts[a] = [list(r) for b in bs for r in texts[b]]
            raws[a] = [r for b in bs for r in raws[b]]
            over[a] = set(range(nF)) if kline else set().union(*(over[b] for b in bs))
            regs[a] = [list(r) for b in bs for r in regs[b]]
            out.append({"num": len(regs[a])})
        elif k in ("replace", "setattr"):
            kw = o["kw"] if k == "replace" else [[o["f"], o["c"]]]
            new = [list(r) for r in t]
            for f, vals in kw:
                for i, r in enumerate(new):
                    r[f] = vals[i] if i < len(vals) else ""
            dst = o["d"] if k == "replace" else a
            regs[dst] = new
            texts[dst] = [list(r) for r in texts[a]]
            raws[dst] = list(raws[a])
            over[dst] = set(over[a]) | {f for f, _ in kw}
            out.append("unit")
        elif k in ("tolist", "iter", "todict"):
            out.append({"rows": [_blank(fmt, r) for r in t]})
        elif k in ("str", "eq"):
            out.append({"num": len(t)})     # the text / the answer itself is only compared lazy vs eager (see agree / agree_model)
        elif k == "write":
            # (BAM has no eager writer; the records of an unmodified BAM table are its source bytes — known finding when eager fails)
            out.append("err" if fmt == "bam" else {"bytes": _header(c) + "".join(_dump_row(fmt, r) for r in t)})
            nW = 8 if fmt == "vcfi" else nF
            lazy_w[str(step)] = [[v if f in over[a] else tx for f, (tx, v) in enumerate(zip(trow, vrow))][:nW]
                                 for trow, vrow in zip(texts[a], t)]
            if not over[a]:     # nothing replaced anywhere: the lazy table writes the records' original bytes (C04)
                lazy_raw[str(step)] = _header(c) + "".join(raws[a])
    return {"spec": out, "lazy_w": lazy_w, "lazy_raw": lazy_raw}


def _blank(fmt, row):
    """rows are observed through the entry type's plain fields; the nested INFO table and its virtual DP field only through `get`"""
    row = list(row)
    if fmt == "vcfi":
        row[7] = ""
        row[8] = ""
    return row


def _model_ops(c):
    """(the operations sent to the Lean register machines, the positions among them that correspond to the case's own steps).
    iteration and todict materialise the data object exactly like tolist; str() builds its text from a fresh slice and leaves the
    table unchanged (modelled by the state-neutral `len`; its text is compared lazy vs eager on the implementation only); an n-ary
    np.concatenate([a, b, m1, ...]) (every m_i another register than a) is run by the machines as the binary steps
    a := [a, b]; a := [a, m1]; ... of which only the last is an observation of the case (the n-ary rule itself is `concatNew_spec`)"""
    remap = {"iter": "tolist", "todict": "tolist", "str": "len", "eq": "len"}   # `t == u` is state-neutral: compared lazy vs eager only
    ops, keep = [], []
    for o in c["ops"]:
        o = dict(o, k=remap.get(o["k"], o["k"]))
        if "ix" in o:
            o["ix"] = G._model_ix(o["ix"])      # a range is the list of its members; the spelling of the index is dropped
        more = o.pop("more", None) or []
        assert all(m != o["a"] for m in more)
        ops.append(o)
        for m in more:
            ops.append({"k": "cat", "a": o["a"], "b": m})
        keep.append(len(ops) - 1)
    return ops, keep


def _kept(c, trace):
    keep = _model_ops(c)[1]
    return [trace[i] for i in keep] if isinstance(trace, list) and len(trace) > keep[-1] else trace


def agree_spec(c, s, exp):
    return core.canon(_kept(c, s.get("spec"))) == core.canon(exp.get("spec"))


def _dump_row(fmt, r):
    if fmt == "fastq":
        return f"@{r[0]}\n{r[1]}\n+\n{r[2]}\n"
    if fmt == "fasta2":
        return f">{r[0]}\n{r[1]}\n"
    return "\t".join(r) + "\n"


def _header(c):
    return G._header({"fmt": c["fmt"], "eol": "\n", "samples": c["samples"]})


# ------------------------------------------------------------------ implementation, run twice

def _spell(x, kind=None):
    from bionumpy.encoded_array import EncodedArray, EncodedRaggedArray
    if isinstance(x, str):
        return x
    if isinstance(x, (EncodedArray, EncodedRaggedArray)):
        return x.to_string() if isinstance(x, EncodedArray) else "|".join(x.tolist())
    if isinstance(x, (bytes, np.bytes_)):
        return x.decode("latin-1")
    if isinstance(x, (int, np.integer, np.bool_)):
        return str(int(x) + (1 if kind == "pos" else 0))
    if isinstance(x, np.ndarray) and x.ndim == 0:
        return _spell(x.item(), kind)
    if isinstance(x, (list, tuple, np.ndarray)) or hasattr(x, "tolist"):
        lst = x.tolist() if hasattr(x, "tolist") else list(x)
        if isinstance(lst, (list, tuple)):
            if kind == "qual":
                return "".join(chr(int(v) + 33) for v in lst)
            return ",".join(_spell(v) for v in lst)
        return _spell(lst, kind)
    return str(x)


def _getf(obj, name):
    for part in name.split("."):
        obj = getattr(obj, part)
    return obj


def _row_obs(e, names, kinds):
    return [("" if (kd == "skip" or "." in nm) else _spell(getattr(e, nm), kd)) for nm, kd in zip(names, kinds)]


def _col(x, kind):
    from bionumpy.encoded_array import EncodedArray
    if kind == "skip":
        return ["" for _ in range(len(x))]
    if isinstance(x, EncodedArray) and x.ndim == 1:
        return [ch for ch in x.to_string()]
    return [_spell(v, kind) for v in x]


def _new_col(fmt, f, vals):
    import bionumpy as bnp
    kind = KINDS[fmt][f]
    if kind == "int":
        return np.array([int(v) for v in vals], dtype=int)
    if kind == "pos":
        return np.array([int(v) - 1 for v in vals], dtype=int)
    if kind == "strand":
        from bionumpy.encodings.alphabet_encoding import StrandEncoding
        return bnp.as_encoded_array(vals, StrandEncoding)
    if f in SEQID[fmt]:
        from bionumpy.string_array import as_string_array
        return as_string_array(vals)
    return bnp.as_encoded_array(vals)


def _run_mode(c, lazy, paths, d):
    import bionumpy as bnp
    from bionumpy.bnpdataclass import replace
    fmt = c["fmt"]
    bt = G._buffer_type(fmt)
    kinds, names = KINDS[fmt], NAMES[fmt]
    regs = []
    # the mode is asked for through one combination of the documented switches (config.LAZY x lazy= keyword x default);
    # whatever the combination, the tables must BE of the mode the keyword / the config says
    sw = (c.get("sw") or {}).get("lazy" if lazy else "eager") or [None, lazy, ""]
    fresh = []
    G.CTX_LEAK[0] = False
    with G.switches(sw) as kw:
        if c.get("parts"):
            f = bnp.open(paths[0], buffer_type=bt, **kw)
            regs = [f.read_chunk(min_chunk_size=c["parts"]["size"]), f.read_chunk(min_chunk_size=c["parts"]["size"])]
            fresh += regs
        for i, p in enumerate(paths if not c.get("parts") else []):
            f = bnp.open(p, buffer_type=bt, **kw)
            if i == 0 and c["chunk"]:
                chunks = list(f.read_chunks(min_chunk_size=c["chunk"]))
                fresh += chunks
                regs.append(np.concatenate(chunks) if len(chunks) != 1 else chunks[0])
            else:
                regs.append(f.read())
                fresh.append(regs[-1])
    if G.CTX_LEAK[0] or any(len(t) and G.is_lazy(t) != lazy for t in fresh):
        return ["wrong-mode"] * len(c["ops"]), {str(i): "WrongMode" for i in range(len(c["ops"]))}
    trace, errs = [], {}
    for step, o in enumerate(c["ops"]):
        k, a = o["k"], o["a"]
        t = regs[a]
        try:
            if k == "len":
                obs = {"num": len(t)}
            elif k == "get":
                obs = {"col": _col(_getf(t, names[o["f"]]), kinds[o["f"]])}
            elif k == "index":
                r = t[G._np_idx(o["ix"])]
                regs[o["d"]] = r
                obs = {"num": len(r)}
            elif k == "row":
                conv = {"i64": np.int64, "i32": np.int32, "intp": np.intp}.get(o.get("as"), int)
                e = t[conv(o["i"])]        # an index computed with NumPy is a NumPy scalar, not a Python int
                obs = {"rows": [_row_obs(e, names, kinds)]}
            elif k == "cat":
                r = np.concatenate([t, regs[o["b"]]] + [regs[m] for m in o.get("more", [])])
                regs[a] = r
                obs = {"num": len(r)}
            elif k == "replace":
                regs[o["d"]] = replace(t, **{names[f]: _new_col(fmt, f, vals) for f, vals in o["kw"]})
                obs = "unit"
            elif k == "setattr":
                setattr(t, names[o["f"]], _new_col(fmt, o["f"], o["c"]))
                obs = "unit"
            elif k == "tolist":
                obs = {"rows": [_row_obs(e, names, kinds) for e in t.tolist()]}
            elif k == "iter":
                obs = {"rows": [_row_obs(e, names, kinds) for e in t]}
            elif k == "todict":
                dd = t.todict()
                cols = [(["" for _ in range(len(t))] if (kd == "skip" or "." in nm) else _col(dd[nm], kd)) for nm, kd in zip(names, kinds)]
                obs = {"rows": [list(r) for r in zip(*cols)] if len(t) else []}
            elif k == "str":
                obs = {"str": str(t)}
            elif k == "eq":
                obs = {"eq": bool(np.all(t == regs[o["b"]]))}       # the data class's own column-wise comparison
            elif k == "write":
                out = os.path.join(d, f"out{int(lazy)}{G.FORMATS[fmt][0]}")
                with bnp.open(out, "w", buffer_type=bt) as w:
                    w.write(t)
                if fmt == "bam":
                    with gzip.open(out, "rb") as fh:
                        obs = {"bytes": fh.read().hex()}
                else:
                    with open(out, "rb") as fh:
                        obs = {"bytes": fh.read().decode("latin-1")}
        except Exception as e:  # only the fact of failing is compared
            obs = "err"
            errs[str(step)] = type(e).__name__
        trace.append(obs)
    return trace, errs


def _eager_roundtrip_is_identity(c, paths, d):
    import bionumpy as bnp
    fmt = c["fmt"]
    if fmt == "bam":
        return False
    bt = G._buffer_type(fmt)
    try:
        for i, p in enumerate(paths):
            t = bnp.open(p, buffer_type=bt, lazy=False).read()
            out = os.path.join(d, f"rt{i}{G.FORMATS[fmt][0]}")
            with bnp.open(out, "w", buffer_type=bt) as w:
                w.write(t)
            if open(out, "rb").read() != open(p, "rb").read():
                return False
        return True
    except Exception:
        return False


def impl(c):
    gc = {"fmt": c["fmt"], "eol": "\n", "samples": c["samples"],
          "recs": [[{"raw": r["raw"]} for r in t] for t in c["tables"]]}
    d, paths = G._write_tables(gc)
    try:
        canon = bool(c["canonical"]) and _eager_roundtrip_is_identity(c, paths, d)
        lz, e1 = _run_mode(c, True, paths, d)
        eg, e2 = _run_mode(c, False, paths, d)
        return {"lazy": lz, "eager": eg, "canon": canon, "errs": {"lazy": e1, "eager": e2}}
    finally:
        shutil.rmtree(d, ignore_errors=True)


def _body(c, text):
    """the records of a written text file (leading header/comment lines removed)"""
    mark = {"vcf": "#", "sam": "@"}.get(c["fmt"])
    if mark is None:
        return text
    lines = text.split("\n")
    while lines and lines[0].startswith(mark):
        lines.pop(0)
    return "\n".join(lines)


def _first_diff(c, got):
    for i, (o, a, b) in enumerate(zip(c["ops"], got["lazy"], got["eager"])):
        if a != b:
            if o["k"] == "write" and not got["canon"] and a != "err" and b != "err":
                continue
            return i
    return None


def _lazy_write_diff(c, got, exp):
    """first write step at which the lazy table did not write the original text of its untouched columns (C04's rule)"""
    if c["fmt"] == "bam":
        return None
    gc = {"fmt": c["fmt"], "eol": "\n", "samples": c["samples"]}
    for i, o in enumerate(c["ops"]):
        if o["k"] == "write" and isinstance(got["lazy"][i], dict) and str(i) in exp.get("lazy_w", {}):
            if G._parse_written(gc, got["lazy"][i]["bytes"]) != exp["lazy_w"][str(i)]:
                return i
            if str(i) in exp.get("lazy_raw", {}) and got["lazy"][i]["bytes"] != exp["lazy_raw"][str(i)]:
                return i
    return None


def _refused(c, got):
    """an index of an unusual KIND (Python range, pandas Series) was refused with NotImplementedError by npstructures' ragged arrays
    (text columns of eager tables / cached text columns of lazy ones) in one of the modes: such a run is outside the comparison"""
    for i, o in enumerate(c["ops"]):
        if o["k"] == "index" and ("range" in o["ix"] or o["ix"].get("as") == "series"):
            if "NotImplementedError" in (got.get("errs", {}).get("lazy", {}).get(str(i)), got.get("errs", {}).get("eager", {}).get(str(i))):
                return True
    return False


def agree(c, got, exp):
    if not isinstance(got, dict) or "lazy" not in got:
        return False
    if _refused(c, got):
        return True
    return _first_diff(c, got) is None and _lazy_write_diff(c, got, exp) is None


def agree_model(c, got, m):
    """exact per-step equality of both traces with the Lean lazy / eager machines, except at the steps whose divergence is a
    recorded finding outside the modelled code (t[i] TypeError from npstructures; eager header context)"""
    if not isinstance(got, dict) or "lazy" not in got:
        return False
    if _refused(c, got):
        return True
    if m.get("dom") is not True:     # the run must lie in the domain of the Lean program theorems (runOKb_sound -> RunOK)
        return False
    hdr = _header(c)
    for mode in ("lazy", "eager"):
        mm = _kept(c, m[mode])
        if len(got[mode]) != len(mm):
            return False
        for o, a, b in zip(c["ops"], got[mode], mm):
            if a == b or o["k"] in ("str", "eq"):
                continue
            if o["k"] in ("row", "iter") and a == "err":
                continue
            if o["k"] == "write" and mode == "eager":
                if isinstance(a, dict) and isinstance(b, dict) and hdr and _body(c, b["bytes"]) == _body(c, a["bytes"]):
                    continue
            return False
    return True


def _chunk_parts(c):
    """how the real chunked reader partitions table 0 (chunk boundaries are C01's subject; taken from the implementation)"""
    import bionumpy as bnp
    gc = {"fmt": c["fmt"], "eol": "\n", "samples": c["samples"], "recs": [[{"raw": r["raw"]} for r in t] for t in c["tables"]]}
    d, paths = G._write_tables(gc)
    try:
        return [len(x) for x in bnp.open(paths[0], buffer_type=G._buffer_type(c["fmt"])).read_chunks(min_chunk_size=c["chunk"])]
    except Exception:
        return None
    finally:
        shutil.rmtree(d, ignore_errors=True)


def model_request(c):
    if c["op"] != "run":
        return None
    tables = [[{"raw": r["raw"], "cells": r["cells"]} for r in t] for t in _reg_rows(c)]
    ops, drop = _model_ops(c)[0], 0
    if c["chunk"]:
        parts = _chunk_parts(c)
        if parts and len(parts) > 1:
            # register 0 is np.concatenate(chunks): the chunks become extra registers, concatenated by leading `cat` steps
            rows, pos, pieces = tables[0], 0, []
            for n in parts:
                pieces.append(rows[pos:pos + n])
                pos += n
            nreg = len(tables)
            tables = [pieces[0]] + tables[1:] + pieces[1:]
            pre = [{"k": "cat", "a": 0, "b": nreg + i} for i in range(len(pieces) - 1)]
            ops, drop = pre + ops, len(pre)
    hdr = _header(c)
    if c["fmt"] == "bam":
        hx = lambda x: x.encode("latin-1").hex()
        tables = [[{"raw": hx(r["raw"]), "cells": r["cells"]} for r in t] for t in tables]
        hdr = hx(hdr)
    return {"op": "run", "fmt": c["fmt"], "nF": len(KINDS[c["fmt"]]), "ops": ops, "drop": drop,
            "tables": tables, "hdr": hdr}


def finding_key(c, got, exp):
    if not isinstance(got, dict) or "lazy" not in got:
        return "harness"
    for mode in ("lazy", "eager"):
        if "wrong-mode" in got[mode]:
            return f"switches:{mode}-asked-other-mode-delivered"
    i = _first_diff(c, got)
    if i is None:
        return f"{c['fmt']}:write:lazy-original-text-lost" if _lazy_write_diff(c, got, exp) is not None else "none"
    a, b = got["lazy"][i], got["eager"][i]
    k = c["ops"][i]["k"]
    how = "lazy-raises" if a == "err" else "eager-raises" if b == "err" else "values-differ"
    if k == "write" and how == "values-differ" and _body(c, a["bytes"]) == _body(c, b["bytes"]):
        how = "eager-header-differs"
    if k in ("row", "iter", "str") and how != "values-differ":
        # t[i], iteration and str() all take single rows of the columns; the exception class separates the recorded npstructures
        # TypeError from any other way of failing in one mode only
        mode = "lazy" if how == "lazy-raises" else "eager"
        exc = got.get("errs", {}).get(mode, {}).get(str(i), "?")
        return f"row:{how}" if exc == "TypeError" else f"row:{how}:{exc}"
    return f"{c['fmt']}:{k}:{how}"
