"""C03 — write→read round trip, canonical bytes, composable writes."""
import atexit
import gzip
import itertools
import os
import re
import shutil
import tempfile

from .. import core
from ..core import SKIP
from . import c02

ID = "C03"
RULE = ("tables of 0..N rows for Interval, Bed6, Bed12, BedGraph, NarrowPeak, ChromosomeSize, GTFEntry, PairsEntry, SAMEntry, "
        "VCFEntry / VCFWithInfoAsStringEntry / VCFEntryWithGenotypes (VCFBuffer2), SequenceEntry (wrapped FASTA with sequence lengths "
        "0,1,79,80,81,159,160,161,240, two-line FASTA, GFA), SequenceEntryWithQuality, a delimited table with column-name header holding "
        "bool and List[bool] columns; columns given as plain lists, as DNA-encoded arrays or as StringEncoding-encoded identifiers; EVERY way of cutting n rows into successive pieces (all 2^(n-1) compositions, n<=4 quick, "
        "n<=6 thorough, each also with an empty first piece and with a random empty piece) x EVERY writer plan: one 'w' writer "
        "(calls / one stream) on a plain or gzip target; 'w' writer for the first k pieces then one appending writer per piece or "
        "one appending writer fed by a stream, for every k, plain or gzip; only appending writers on a new file, a new gzip file, "
        "or an existing empty file; header-bearing formats (VCF, a delimited buffer with a column-name header) with ZERO rows in total "
        "(one empty table, several empty pieces, a stream of empty chunks); a REFUSED write call (table of another class, table-valued INFO built on the valid table's own columns, unserialisable last column) on the same writer just before a valid piece; lazily read tables re-written from row-indexed pieces (slices, masks, index lists, and RE-ORDERINGS of a contiguous run of source lines: inside permuted with first and last line in place, adjacent swap, rotation, reversal, order of a column); HEADERS THAT BELONG TO THE TABLE: in-memory tables carrying a header context of their own "
        "(VCF / SAM / '#' comment blocks, generated per case) must be written with exactly that header, source files of the lazy ops "
        "carry per-case headers, and in many cases ANOTHER file of the same format with another header is read lazily first and kept "
        "alive in the same process; observables: the exact bytes on disk, the table read back, the number of records reported by bnp.count_entries, and the bytes of the write -> read (default, lazy) -> "
        "write chain (must reproduce the first file, header included). Non-trivial = >= 2 writes, or a "
        "sequence length within 1 of a multiple of the line width, or append/gzip/stream mode")
EXHAUSTIVE = {"quick": False, "thorough": False}
MODEL_OPS = {"write"}
PARALLEL = 16
ASSUMPTIONS = [
    "gzip.open(..., 'wb'/'ab') writes/appends members whose concatenated decompression is the concatenation of the writes; OS files append in 'ab' mode",
    "ints_to_strings / str(float) / alphabet decode give the standard decimal / repr / symbol text (C18, Python, C06); the model takes float cells as the text Python's repr gives",
    "NumPy/npstructures ragged assignment lines[i::n, :-1] = column places cell (row r, column i) in line r*n+i (modelled row-major)",
    "floats are read back to relative 1e-12 of the value written (printing precision; conversion accuracy itself is C18)",
]
TRUSTED_EXTRA = ["reference serialiser in harness/props/c03.py (str.join based, written from the format definitions)"]

MANIFEST = {
    "text": "Lean 4 model of dump_csv/join_columns, the FASTQ/FASTA record layout incl. the wrap arithmetic, VCF POS+1 and the "
            "NpBufferedWriter / bnp.open writer sessions (header owed by a 'w' writer and by an appending writer on an empty target). "
            "Unbounded theorems: dump_canonical (bytes = rows.flatMap(join TAB ++ LF)); sessions_compose (any sequence of writers on "
            "one target - first 'w' or 'a', then 'a'; calls or streams; any split incl. empty pieces - leaves header-once ++ ONE dump "
            "of the concatenation; invariant proof by induction over the sessions and the write list), writes_compose / _owing / "
            "_append / _stream; roundtrip for text/identifier/int/int-list/quality columns (reference parse of the dump = the "
            "table, using parse_format_int); write_read_model / fasta_write_read_model / fastq_write_read_model (the model of the code's "
            "READER, C02, applied to the bytes of the model of the code's WRITER returns the table, for every schema of modelled "
            "column types / every wrap width / every FASTQ table); float_partial (what is proved for float cells: the text travels verbatim; value "
            "precision is corresponded); fasta_wrap / lineLens_sum / fasta_unwrap / fasta_layout (flat-fill writer = canonical "
            "wrapped layout for every width and every list of records, empty sequences included), fastq_layout; refutations of "
            "the repaired rules (sessionOld, writeStreamOld, headerLenOld); formatInt_injective / natDigits_canonical (canonical decimal text: "
            "digits only, no leading zero, one text per integer), dump_injective (the bytes determine the table), "
            "writes_chunking_independent (any two cuts of the same rows give the same file), sessions_truncate (a 'w' writer forgets "
            "everything before it), wrap_lengths (every wrapped line but the last has exactly W characters); the writer models of the formats "
            "live in Model/C03 (dumpModel, run with Gen.C03.consts) and are tied to the canonical serialisation on the tables they are "
            "specified for (dumpModel_eq_dumpCanon); sessions_compose_writer / writes_compose_writer state the composition law for the "
            "writer models themselves (the delimited one is not additive on all tables: dumpModel_not_additive); vcf_roundtrip, cutAt_flatten; "
            "the reference reader readTable is strict about line and field counts. FASTA line structure for lengths 0..242, the default VCF header and FASTQ "
            "constants are re-measured on the running code into Gen/C03.lean every run and checked by decide. "
            "Correspondence: real writer+reader vs Lean model vs Lean spec vs pure-Python serialiser on every composition of "
            "<= 4 (quick) / <= 6 (thorough) rows x 11 writer plans x every position of the first append.",
    "note": "float cells are compared by value after the round trip (1e-12) and byte-exact against Python repr on the way out "
            "(float_partial); gzip/OS append semantics are externals; header text itself is the code's choice (only 'exactly once, "
            "in front' is required). SAM: an empty optional-fields column is written as an empty 12th cell (trailing TAB); by the "
            "property's letter (tab-separated columns of the 12-column table, round trip holds) this is not counted as a violation. "
            "Also implementation-vs-reference only (no Lean model, the lazy extractor is C04's): tables READ LAZILY from a text "
            "file, row-indexed into pieces (slices, masks, index lists) and written as np.concatenate(pieces) in one call or one "
            "after the other must give the selected source lines once each; lazily (and eagerly) read tables of every delimited "
            "format and FASTQ with EACH single field replaced, written, compared with the canonical serialisation; one eager table "
            "object written repeatedly (whole / slices / slices of slices, separate targets): every output canonical and the table "
            "object unchanged; the header written is the table's / the source file's own header also when other files of the format with other "
            "headers were read before in the process (`prior`, `prior_hdr`; a '#' comment block may be left out by tables that are not "
            "read lazily, never replaced); bnp.count_entries on every written file = the number of rows. Record markers / line offsets in Gen/C03.lean "
            "are observed on from_data / get_data, no private attribute of the package is read. Eight defects found and fixed "
            "(known_findings.json).",
    "technique": "Lean 4 proof over an executable model (induction over rows / write list / writer sessions) + constants regenerated from source + differential correspondence with the implementation",
    "design": "§6 C03",
}

# table kind -> (buffer type, dataclass, suffix, column kinds); kinds as in c02 plus seq / qual
T = {
    "bed3": ("BedBuffer", "Interval", ".bed", c02.BED3),
    "bed6": ("Bed6Buffer", "Bed6", ".bed", c02.BED6),
    "bed12": ("Bed12Buffer", "Bed12", ".bed", c02.BED12),
    "bdg": ("BdgBuffer", "BedGraph", ".bdg", c02.BED3 + [("value", "float")]),
    "narrowpeak": ("NarrowPeakBuffer", "NarrowPeak", ".narrowPeak", c02.FORMATS["narrowpeak"]["cols"]),
    "sizes": ("ChromosomeSizeBuffer", "ChromosomeSize", ".sizes", c02.FORMATS["sizes"]["cols"]),
    "gtf": ("GTFBuffer", "GTFEntry", ".gtf", c02.GTF),
    "pairs": ("PairsBuffer", "PairsEntry", ".pairs", c02.FORMATS["pairs"]["cols"]),
    "sam": ("SAMBuffer", "SAMEntry", ".sam", [(n, "str" if k == "rest" else k) for n, k in c02.FORMATS["sam"]["cols"]]),
    "vcf": ("VCFBuffer", "VCFEntry", ".vcf", c02.VCF_FIXED + [("info", "str")]),
    "vcfs": ("VCFWithInfoAsStringBuffer", "VCFWithInfoAsStringEntry", ".vcf", c02.VCF_FIXED + [("info", "str")]),
    "gfa": ("GfaSequenceBuffer", "SequenceEntry", ".gfa", [("name", "id"), ("sequence", "seq")]),
    "fasta": ("MultiLineFastaBuffer", "SequenceEntry", ".fa", [("name", "id"), ("sequence", "seq")]),
    "fastq": ("FastQBuffer", "SequenceEntryWithQuality", ".fq", [("name", "id"), ("sequence", "seq"), ("quality", "qual")]),
    # a delimited buffer with a column-name header line (get_bufferclass_for_datatype(..., has_header=True))
    "csvh": ("csvh", "ChromosomeSize", ".tsv", c02.FORMATS["sizes"]["cols"]),
    # the same with a bool and a List[bool] column (a dataclass defined here)
    "csvb": ("csvb", None, ".tsv", [("name", "str"), ("n", "sint"), ("ok", "bool"), ("bits", "blist")]),
    "fasta2": ("TwoLineFastaBuffer", "SequenceEntry", ".fa", [("name", "id"), ("sequence", "seq")]),
    # genotype strings per sample (List[str]); the writer inserts the FORMAT column "GT"
    "vcf2": ("VCFBuffer2", "VCFEntryWithGenotypes", ".vcf", c02.VCF_FIXED + [("info", "str"), ("genotype", "slist")]),
}
HAS_HEADER = {"vcf", "vcfs", "vcf2", "csvh", "csvb"}
CSV_HEADERS = {"csvh": "name\tsize\n", "csvb": "name\tn\tok\tbits\n"}   # the column names of the table, TAB separated
CSVH_HEADER = CSV_HEADERS["csvh"]
N_SAMPLES = 2

_CSVH = {}


def _csvb_class():
    if "dc" not in _CSVH:
        from typing import List
        from bionumpy.bnpdataclass import bnpdataclass

        @bnpdataclass
        class NameFlags:
            name: str
            n: int
            ok: bool
            bits: List[bool]
        _CSVH["dc"] = NameFlags
    return _CSVH["dc"]


def _bt(name):
    if name not in ("csvh", "csvb"):
        return c02._buffer_type(name)
    if name not in _CSVH:
        from bionumpy.io.delimited_buffers import get_bufferclass_for_datatype
        from bionumpy.datatypes import ChromosomeSize
        _CSVH[name] = get_bufferclass_for_datatype(ChromosomeSize if name == "csvh" else _csvb_class(), delimiter="\t", has_header=True)
    return _CSVH[name]
MODES = ["plain", "gzip", "stream", "stream_gzip", "append", "append_gzip", "append_stream", "append_stream_gzip",
         "append0", "append0_gzip", "append0_empty"]
FIRST_MODES = ("append", "append_gzip", "append_stream", "append_stream_gzip")   # modes that use case["first"]


def sessions(c):
    """the writers of a case: (open mode, fed by one stream?, number of pieces it gets), in order"""
    n = len(_pieces(c))
    m = c["mode"]
    if m in ("plain", "gzip"):
        return [("w", False, n)]
    if m in ("stream", "stream_gzip"):
        return [("w", True, n)]
    if m in ("append0", "append0_gzip", "append0_empty"):
        return [("a", False, 1)] * n
    a = max(1, min(c.get("first", 1), n))
    if m in ("append", "append_gzip"):
        return [("w", False, a)] + [("a", False, 1)] * (n - a)
    return [("w", False, a)] + ([("a", True, n - a)] if n > a else [])


def n_calls(c):
    ps = _pieces(c)
    k = i = 0
    for _, stream, cnt in sessions(c):
        part = ps[i:i + cnt]
        i += cnt
        k += len(part)          # every table / chunk handed to a writer is one write call (empty ones included)
    return k


_TMP = None
_TMP_OWNER = None


def _tmproot():
    """one scratch directory per check run, created in the parent process (cases() runs there, before the worker pool
    is forked) and removed at its exit; forked workers use a sub-directory of it"""
    global _TMP, _TMP_OWNER
    if _TMP is None or not os.path.isdir(_TMP):
        _TMP = tempfile.mkdtemp(prefix="c03-")
        _TMP_OWNER = os.getpid()
        atexit.register(shutil.rmtree, _TMP, True)
    return _TMP


def _tmpdir():
    root = _tmproot()
    if os.getpid() == _TMP_OWNER:
        return root
    d = os.path.join(root, str(os.getpid()))
    os.makedirs(d, exist_ok=True)
    return d


# ------------------------------------------------------------------ Gen: constants measured on the running code

def tabulate():
    import numpy as np
    import bionumpy as bnp
    from bionumpy.datatypes import SequenceEntry, VCFWithInfoAsStringEntry
    ML = c02._buffer_type("MultiLineFastaBuffer")
    W = int(ML.n_characters_per_line)
    wrap = []
    for L in list(range(0, 3 * W + 3)) + [5 * W - 1, 5 * W, 5 * W + 1]:
        e = SequenceEntry(["n"], ["A" * L])
        b = bytes(ML.from_data(e).raw())
        lines = b.decode().split("\n")
        assert lines[-1] == "" and lines[0] == ">n"
        body = lines[1:-1]
        wrap.append((L, len(body), len(body[-1]) if body else 0, max(len(x) for x in body) if body else 0))
    V = c02._buffer_type("VCFBuffer")
    hdr = V.make_header(VCFWithInfoAsStringEntry.empty())
    FQ = c02._buffer_type("FastQBuffer")
    # record markers and per-line offsets are observed on what `from_data` writes and `get_data` reads back
    # (c02._probe_kline), not read from private class attributes
    fq_marker, fq_offs = c02._probe_kline(FQ, int(FQ.n_lines_per_entry))
    fa_marker, _ = c02._probe_kline(ML, 0)
    return dict(W=W, wrap=wrap, vcfHeader=list(hdr), fastqOffsets=[int(x) for x in fq_offs], fastqMarker=int(fq_marker),
                fastaMarker=int(fa_marker), fastqLines=int(FQ.n_lines_per_entry))


def regenerate():
    t = tabulate()
    o = ["import BnpVerif.Model.C03",
         "/-! GENERATED on every run by harness/props/c03.py from the package imported from /repo: FASTA writer line width,",
         "the line structure (length, number of lines, last line length, longest line) of `MultiLineFastaBuffer.from_data` output",
         "measured for a range of sequence lengths, the default VCF header, FASTQ layout constants. Do not edit. -/",
         "namespace Gen.C03", "",
         f"def fastaLineWidth : Nat := {t['W']}",
         "def fastaWrapTable : List (Nat × Nat × Nat × Nat) := [" + ", ".join(f"({a}, {b}, {c}, {d})" for a, b, c, d in t["wrap"]) + "]",
         f"def vcfDefaultHeader : List Nat := {t['vcfHeader']}",
         f"def fastqLineOffsets : List Nat := {t['fastqOffsets']}",
         f"def fastqMarker : Nat := {t['fastqMarker']}",
         f"def fastaMarker : Nat := {t['fastaMarker']}",
         f"def fastqLinesPerEntry : Nat := {t['fastqLines']}",
         "/-- the constants the model writers are run with (driver) and proved about (Props/C03) -/",
         "def consts : C03.Consts := ⟨fastaLineWidth, fastaMarker, fastqMarker, fastqLineOffsets⟩",
         "", "end Gen.C03", ""]
    return [("BnpVerif/Gen/C03.lean", "\n".join(o))]


# ------------------------------------------------------------------ generators

def g_value(rng, kind, fmt):
    if kind == "id":
        return c02.g_ident(rng)
    if kind == "str":
        t = c02.g_text(rng, allow_empty=(fmt in ("sam", "gtf", "sizes")))
        return t
    if kind == "int":
        return int(c02.g_uint(rng))
    if kind in ("sint", "oint"):
        v = int(c02.g_uint(rng))
        return -v if rng.random() < 0.3 else v
    if kind == "float":
        r = rng.random()
        if r < 0.5:
            return "f:" + float(c02.g_float(rng)).hex()
        if r < 0.7:
            return "f:" + float(rng.choice([0.0, 1.0, -1.0, 0.1, 1e-5, 1e16, 123456789.125, 1e22, 2.5e-290, 1.5e290, 1 / 3])).hex()
        return "f:" + (rng.uniform(-1, 1) * 10 ** rng.randrange(-20, 20)).hex()
    if kind == "strand":
        return rng.choice("+-.")
    if kind == "bool":
        return rng.random() < 0.5
    if kind == "blist":
        return [rng.random() < 0.5 for _ in range(rng.choice([1, 1, 2, 3, 8]))]
    if kind == "slist":
        return [rng.choice("012.") + rng.choice("|/") + rng.choice("012.") for _ in range(N_SAMPLES)]
    if kind == "ilist":
        return [int(c02.g_uint(rng, rng.choice([1, 1, 2, 3, 9]))) for _ in range(rng.choice([1, 1, 2, 3, 5]))]
    if kind == "seq":
        if fmt == "fasta":
            L = rng.choice([0, 1, 2, 79, 80, 81, 159, 160, 161, 240, 30])
        else:
            L = rng.choice([0, 1, 1, 2, 5, 30]) if fmt == "fastq" else rng.choice([1, 2, 5, 30])
        return "".join(rng.choice("ACGTNacgtn" if fmt != "fastq" else "ACGTN") for _ in range(L))
    raise KeyError(kind)


def g_row(rng, fmt):
    cols = T[fmt][3]
    row = []
    for name, kind in cols:
        if kind == "qual":
            row.append([rng.randrange(0, 94) for _ in row[-1]])
        else:
            row.append(g_value(rng, kind, fmt))
    if fmt in ("vcf", "vcfs", "vcf2"):
        row[1] = max(0, row[1])
    return row


CTX_FMTS = ("vcf", "vcfs", "vcf2", "sam", "bed3", "bed6", "bed12", "bdg", "narrowpeak", "sizes", "gtf", "pairs")


def _ctx(rng, case):
    """in-memory tables that carry a header context of their own (`set_context("header", ...)`): the file must start with
    exactly that header; and, for the write -> read -> write chain, another file of the format with another header that
    is read (lazily) before"""
    fmt = case["fmt"]
    if fmt in CTX_FMTS and rng.random() < 0.5:
        h = g_header(rng, fmt)
        if h:
            case["ctx_hdr"] = h
    if fmt in CTX_FMTS and case["rows"] and rng.random() < 0.5:
        h = g_header(rng, fmt)
        if h and h != case.get("ctx_hdr"):
            case["prior_hdr"] = h
    return case


def compositions(n):
    """all ways of cutting n rows into non-empty successive pieces, as lists of cut positions"""
    for mask in range(2 ** max(n - 1, 0)):
        yield [i + 1 for i in range(n - 1) if mask >> i & 1]


def cases(tier, rng):
    _tmproot()
    big = tier in ("thorough", "widen")
    nmax = 6 if tier == "thorough" else 4
    fmts = list(T)
    # 1. every composition x every mode x every position of the first append, formats rotating
    k = 0
    reps = 3 if big else 1
    for n in range(0, nmax + 1):
        for cuts in compositions(n):
            variants = [list(cuts)]
            if n:                                   # a first write that is empty / an empty piece somewhere
                variants.append([0] + list(cuts))
                variants.append(sorted(list(cuts) + [rng.randrange(0, n + 1)]))
            for c in variants:
                for mode in MODES:
                    firsts = range(1, len(c) + 2) if mode in FIRST_MODES else [1]
                    for first in firsts:
                        for _ in range(reps):
                            fmt = fmts[k % len(fmts)]
                            k += 1
                            rows = [g_row(rng, fmt) for _ in range(n)]
                            yield _ctx(rng, {"op": "write", "fmt": fmt, "rows": rows, "cuts": c, "mode": mode, "first": first})
    # 2. random tables per format, random cuts
    per = {"quick": 150, "thorough": 2500, "widen": 400}[tier]
    for fmt in fmts:
        for _ in range(per):
            n = rng.choice([0, 1, 2, 3, 5, 8] + ([20] if big else []))
            rows = [g_row(rng, fmt) for _ in range(n)]
            cuts = sorted(rng.sample(range(0, n + 1), min(n + 1, rng.choice([0, 0, 1, 2, 3]))))
            case = {"op": "write", "fmt": fmt, "rows": rows, "cuts": cuts, "mode": rng.choice(MODES),
                    "first": rng.randrange(1, len(cuts) + 2)}
            enc = []
            kinds = [k for _, k in T[fmt][3]]
            if "seq" in kinds and rows and rng.random() < 0.35:       # sequence column held in a DNA encoding
                j = kinds.index("seq")
                for r in rows:
                    r[j] = "".join(rng.choice("ACGT") for _ in r[j])
                enc.append("dna")
            if T[fmt][3][0][0] == "chromosome" and rows and rng.random() < 0.25:   # chromosome column held as string codes
                enc.append("strenc")
            if enc:
                case["enc"] = enc
            yield _ctx(rng, case)
    # 2b. lazily read, row-indexed pieces written back
    yield from rewrite_cases(tier, rng)
    yield from replace_cases(tier, rng)
    yield from again_cases(tier, rng)
    yield from fail_cases(tier, rng)
    # 2c. header-bearing formats with zero rows in total: the header must still be there exactly once
    for fmt in ("vcf", "vcfs", "vcf2", "csvh", "csvb"):
        for cuts in ([], [0], [0, 0], [0, 0, 0]):
            for mode in MODES:
                for first in (range(1, len(cuts) + 2) if mode in FIRST_MODES else [1]):
                    yield _ctx(rng, {"op": "write", "fmt": fmt, "rows": [], "cuts": list(cuts), "mode": mode, "first": first})
        for n, cuts in ((3, [0, 2, 2]), (3, [0, 0, 2, 3]), (2, [0, 1, 1, 2]), (1, [0, 1])):      # [0 rows, 2 rows, 0 rows, 1 row] ...
            for mode in MODES:
                for first in (range(1, len(cuts) + 2) if mode in FIRST_MODES else [1]):
                    yield _ctx(rng, {"op": "write", "fmt": fmt, "rows": [g_row(rng, fmt) for _ in range(n)], "cuts": list(cuts), "mode": mode, "first": first})
    # 3. FASTA wrap boundaries, exhaustive around multiples of the width
    for L in [0, 1, 79, 80, 81, 159, 160, 161, 239, 240, 241] + (list(range(2, 79, 7)) if big else []):
        for L2 in [0, 1, 80, 81]:
            rows = [["s" + str(L), "A" * L], ["t", "C" * L2]]
            yield {"op": "write", "fmt": "fasta", "rows": rows, "cuts": [1] if (L + L2) % 2 else [], "mode": "plain", "first": 1}


REWRITE_FMTS = ["bed3", "bed6", "bdg", "narrowpeak", "gtf", "sam", "vcfs"]
SRC_HEADER = {"vcfs": "##fileformat=VCFv4.2\n##source=c03\n#CHROM\tPOS\tID\tREF\tALT\tQUAL\tFILTER\tINFO\n",
              "sam": "@HD\tVN:1.6\tSO:unsorted\n@SQ\tSN:c\tLN:1000\n"}


VCF_KINDS = ("vcf", "vcfs", "vcf2")


def g_header(rng, fmt):
    """a header block of the format that differs from case to case: the header belongs to the file / to the table that
    was read from it, not to the format or the process (several files of one format with different headers are read
    and written in one worker process, and inside single cases: `prior`)"""
    def w():
        return rng.choice("abcdxyzQR") + "".join(rng.choice("abc019_") for _ in range(rng.choice([0, 1, 3, 6])))
    if fmt in VCF_KINDS:
        lines = ["##fileformat=VCFv4." + rng.choice("123")]
        if rng.random() < 0.6:
            lines.append("##source=" + w())
        for _ in range(rng.choice([0, 0, 1, 2])):
            lines.append(f"##contig=<ID={w()},length={rng.randrange(1, 10 ** 6)}>")
        cols = "#CHROM\tPOS\tID\tREF\tALT\tQUAL\tFILTER\tINFO"
        if fmt == "vcf2":
            cols += "\tFORMAT" + "".join("\t" + w() for _ in range(N_SAMPLES))
        return "\n".join(lines + [cols]) + "\n"
    if fmt == "sam":
        lines = ["@HD\tVN:1." + rng.choice("456") + "\tSO:" + rng.choice(["unsorted", "coordinate"])]
        for _ in range(rng.choice([0, 1, 2])):
            lines.append(f"@SQ\tSN:{w()}\tLN:{rng.randrange(1, 10 ** 6)}")
        return "\n".join(lines) + "\n"
    if fmt in ("fastq", "fasta", "fasta2"):
        return ""
    return "".join("#" + rng.choice(["", " ", "!"]) + w() + rng.choice(["", "\t" + w()]) + "\n"
                   for _ in range(rng.choice([0, 1, 1, 2])))


def _src_hdr(c):
    return c["src_hdr"] if "src_hdr" in c else SRC_HEADER.get(c["fmt"], "")


def g_prior(rng, fmt, own):
    """another file of the same format with ANOTHER header, read lazily earlier in the same case and kept alive
    (optionally also written once) -- or None"""
    if rng.random() < 0.5:
        return None
    for _ in range(5):
        h = g_header(rng, fmt)
        if h != own:
            return {"hdr": h, "write": rng.random() < 0.5}
    return None


def _open_prior(c, BT, d, body_rows):
    """read the prior file lazily; returns (reader, table) to be kept alive by the caller"""
    import bionumpy as bnp
    pr = c.get("prior")
    if not pr or not body_rows:
        return None
    fmt = c["fmt"]
    path = os.path.join(d, "prior" + T[fmt][2])
    with open(path, "wb") as fh:
        fh.write((pr["hdr"] + ref_body(fmt, body_rows)).encode("latin1"))
    r = bnp.open(path, buffer_type=BT)
    t = r.read()
    if pr.get("write"):
        with bnp.open(os.path.join(d, "prior_out" + T[fmt][2]), "w", buffer_type=BT) as f:
            f.write(t)
    return r, t


def _select(n, sel):
    idx = list(range(n))
    if "slice" in sel:
        a, b, st = sel["slice"]
        return idx[a:b:st]
    if "mask" in sel:
        return [i for i, m in zip(idx, sel["mask"]) if m]
    return [idx[i] for i in sel["idx"]]


def g_selection(rng, n):
    r = rng.random()
    if r < 0.35:
        a = rng.randrange(0, n + 1)
        b = rng.randrange(a, n + 1)
        return {"slice": [a, b, rng.choice([1, 1, 1, 2])]}
    if r < 0.55:
        return {"mask": [rng.random() < 0.6 for _ in range(n)]}
    if r < 0.75 and n >= 3:
        # RE-ORDERINGS of a run of source lines (what sort_by / an index array give): the run a..b with its first and
        # last line kept in place and the inside permuted, a rotation, the reversal, or any permutation — the selected
        # bytes are then one contiguous block of the source, every line once, but NOT in source order
        a = rng.randrange(0, n - 2)
        b = rng.randrange(a + 3, n + 1)
        run = list(range(a, b))
        kind = rng.choice(["ends_fixed", "ends_fixed", "rotate", "reverse", "shuffle"])
        if kind == "ends_fixed" and len(run) >= 4:
            inner = run[1:-1]
            while inner == run[1:-1]:
                rng.shuffle(inner)
            run = [run[0]] + inner + [run[-1]]
        elif kind == "rotate":
            k = rng.randrange(1, len(run))
            run = run[k:] + run[:k]
        elif kind == "reverse":
            run.reverse()
        else:
            rng.shuffle(run)
        return {"idx": run}
    return {"idx": sorted(rng.sample(range(n), rng.randrange(0, n + 1))) if rng.random() < 0.6 else [rng.randrange(n) for _ in range(rng.choice([1, 2, 3]))]}


def rewrite_cases(tier, rng):
    """a table READ LAZILY from a text file, row-indexed into pieces; the pieces written as np.concatenate(pieces) in
    one call, or one after the other: the output must be the selected source lines, once each, header once"""
    per = {"quick": 40, "thorough": 600, "widen": 150}[tier]
    for fmt in REWRITE_FMTS:
        for _ in range(per):
            n = rng.choice([1, 2, 3, 4, 6, 9])
            rows = [g_row(rng, fmt) for _ in range(n)]
            sels = [g_selection(rng, n) for _ in range(rng.choice([1, 2, 2, 3, 4]))]
            case = {"op": "rewrite", "fmt": fmt, "rows": rows, "sel": sels,
                    "how": rng.choice(["concat", "concat", "successive", "concat_twice"]), "gz": rng.random() < 0.25,
                    "src_hdr": g_header(rng, fmt)}
            pr = g_prior(rng, fmt, case["src_hdr"])
            if pr:
                case["prior"] = pr
            yield case
        # one re-ordered piece written as it is (what `t.sort_by(...)` / `t[order]` then `f.write` does): all source
        # lines between the first and the last selected one, each once, in another order
        for _ in range(max(4, per // 8)):
            n = rng.choice([4, 5, 6, 9])
            rows = [g_row(rng, fmt) for _ in range(n)]
            order = list(range(n))
            kind = rng.choice(["ends_fixed", "ends_fixed", "swap", "sorted_by_cell"])
            if kind == "ends_fixed":
                a = rng.randrange(0, n - 3)
                b = rng.randrange(a + 4, n + 1)
                inner = order[a + 1:b - 1]
                while inner == order[a + 1:b - 1]:
                    rng.shuffle(inner)
                order = [a] + inner + [b - 1]
            elif kind == "swap":
                i = rng.randrange(0, n - 1)
                order[i], order[i + 1] = order[i + 1], order[i]
            else:
                j = rng.randrange(len(T[fmt][3]))
                order.sort(key=lambda i: repr(rows[i][j]))
            yield {"op": "rewrite", "fmt": fmt, "rows": rows, "sel": [{"idx": order}],
                   "how": rng.choice(["successive", "successive", "concat"]), "gz": rng.random() < 0.2, "src_hdr": g_header(rng, fmt)}


REPLACE_FMTS = ["bed3", "bed6", "bdg", "narrowpeak", "gtf", "sam", "vcfs", "fastq", "sizes", "pairs"]


def replace_cases(tier, rng):
    """a table READ LAZILY (default reader) from a text file, ONE field replaced by new values, then written: the bytes
    must be the canonical serialisation of the table with that column replaced (all other fields as in the source)"""
    per = {"quick": 8, "thorough": 60, "widen": 20}[tier]
    for fmt in REPLACE_FMTS:
        for j in range(len(T[fmt][3])):
            for _ in range(per):
                n = rng.choice([1, 2, 3, 5])
                rows = [g_row(rng, fmt) for _ in range(n)]
                new = [g_row(rng, fmt) for _ in range(n)]
                if fmt == "fastq":                    # keep sequence and quality lengths consistent per record
                    for r, q in zip(rows, new):
                        q[1] = "".join(rng.choice("ACGTN") for _ in r[1])
                        q[2] = [rng.randrange(0, 94) for _ in r[1]]
                case = {"op": "replace", "fmt": fmt, "rows": rows, "field": j, "values": [q[j] for q in new],
                        "lazy": rng.random() < 0.8, "gz": rng.random() < 0.2, "src_hdr": g_header(rng, fmt)}
                pr = g_prior(rng, fmt, case["src_hdr"])
                if pr:
                    case["prior"] = pr
                yield case


def again_cases(tier, rng):
    """one eager table object written several times: whole, a slice of it, whole again, to separate targets; every
    output must be canonical for the rows written and the table object must be unchanged afterwards"""
    per = {"quick": 6, "thorough": 80, "widen": 20}[tier]
    for fmt in T:
        for _ in range(per):
            n = rng.choice([1, 2, 3, 5, 8])
            rows = [g_row(rng, fmt) for _ in range(n)]
            steps = []
            for _ in range(rng.choice([2, 3, 4])):
                if rng.random() < 0.5:
                    steps.append([0, n, 1])
                else:
                    a = rng.randrange(0, n + 1)
                    steps.append([a, rng.randrange(a, n + 1), rng.choice([1, 1, 2])])
            yield {"op": "again", "fmt": fmt, "rows": rows, "steps": steps, "gz": rng.random() < 0.2,
                   "nested": rng.random() < 0.3}


def _pieces(c):
    rows, cuts = c["rows"], c["cuts"]
    b = [0] + list(cuts) + [len(rows)]
    return [rows[b[i]:b[i + 1]] for i in range(len(b) - 1)]


# ------------------------------------------------------------------ real code

def _table(fmt, rows, enc=()):
    import numpy as np
    import bionumpy.datatypes as dt
    from npstructures import RaggedArray
    cls = getattr(dt, T[fmt][1]) if T[fmt][1] else _csvb_class()
    if not rows:
        return cls.empty()
    cols = []
    for j, (name, kind) in enumerate(T[fmt][3]):
        v = [r[j] for r in rows]
        if kind == "seq" and "dna" in enc:
            import bionumpy as bnp
            v = bnp.as_encoded_array(v, bnp.DNAEncoding)            # the writer has to decode the column
        if j == 0 and "strenc" in enc:
            import bionumpy as bnp
            from bionumpy.encodings.string_encodings import StringEncoding
            v = bnp.as_encoded_array(v, StringEncoding(sorted(set(v))))
        if kind == "bool":
            v = np.array(v, dtype=bool)
        elif kind == "blist":
            v = RaggedArray([np.array(x, dtype=bool) for x in v])
        elif kind == "slist":
            v = np.array(v)
        if kind == "float":
            v = np.array([float.fromhex(x[2:]) for x in v], dtype=float)
        elif kind in ("int", "sint", "oint"):
            v = np.array(v, dtype=np.int64)
        elif kind in ("ilist", "qual"):
            v = RaggedArray([np.array(x, dtype=np.int64) for x in v]) if any(len(x) for x in v) else RaggedArray(np.array([], dtype=np.int64), [0] * len(v))
        cols.append(v)
    return cls(*cols)


def _impl_rewrite(c):
    import logging
    import numpy as np
    import bionumpy as bnp
    logging.disable(logging.CRITICAL)
    fmt = c["fmt"]
    BT = _bt(T[fmt][0])
    d = _tmpdir()
    src = os.path.join(d, "src" + T[fmt][2])
    dst = os.path.join(d, "dst" + T[fmt][2] + (".gz" if c.get("gz") else ""))
    with open(src, "wb") as fh:
        fh.write((_src_hdr(c) + ref_body(fmt, c["rows"])).encode("latin1"))
    if os.path.exists(dst):
        os.remove(dst)
    try:
        prior = _open_prior(c, BT, d, c["rows"][:2])         # kept alive until the end of the case
        r = bnp.open(src, buffer_type=BT)
        try:
            data = r.read()                                  # lazy by default
            pieces = []
            for sel in c["sel"]:
                if "slice" in sel:
                    a, b, st = sel["slice"]
                    pieces.append(data[a:b:st])
                elif "mask" in sel:
                    pieces.append(data[np.array(sel["mask"], dtype=bool)])
                else:
                    pieces.append(data[np.array(sel["idx"], dtype=int)])
            with bnp.open(dst, "w", buffer_type=BT) as f:
                if c["how"] == "successive":
                    for p in pieces:
                        f.write(p)
                else:
                    f.write(np.concatenate(pieces))
                    if c["how"] == "concat_twice":
                        f.write(np.concatenate(pieces[:1]))
        finally:
            r.close()
            if prior:
                prior[0].close()
        raw = open(dst, "rb").read()
        return {"bytes": (gzip.decompress(raw) if c.get("gz") and raw else raw).decode("latin1")}
    except Exception as e:
        return {"err": "rewrite:" + type(e).__name__}


def _impl_replace(c):
    import dataclasses
    import logging
    import bionumpy as bnp
    logging.disable(logging.CRITICAL)
    fmt = c["fmt"]
    BT = _bt(T[fmt][0])
    d = _tmpdir()
    src = os.path.join(d, "rsrc" + T[fmt][2])
    dst = os.path.join(d, "rdst" + T[fmt][2] + (".gz" if c.get("gz") else ""))
    with open(src, "wb") as fh:
        fh.write((_src_hdr(c) + ref_body(fmt, c["rows"])).encode("latin1"))
    if os.path.exists(dst):
        os.remove(dst)
    try:
        prior = _open_prior(c, BT, d, c["rows"][:2])         # kept alive until the end of the case
        r = bnp.open(src, buffer_type=BT) if c.get("lazy", True) else bnp.open(src, buffer_type=BT, lazy=False)
        try:
            data = r.read()
            name = T[fmt][3][c["field"]][0]
            rows2 = [list(row) for row in c["rows"]]
            for row, v in zip(rows2, c["values"]):
                row[c["field"]] = v
            newcol = getattr(_table(fmt, rows2), name)
            data2 = bnp.replace(data, **{name: newcol})
            with bnp.open(dst, "w", buffer_type=BT) as f:
                f.write(data2)
        finally:
            r.close()
            if prior:
                prior[0].close()
        raw = open(dst, "rb").read()
        return {"bytes": (gzip.decompress(raw) if c.get("gz") and raw else raw).decode("latin1")}
    except Exception as e:
        return {"err": "replace:" + type(e).__name__}


def _snapshot(fmt, t):
    import dataclasses
    return [c02._canon_col(getattr(t, f.name)) for f in dataclasses.fields(t)]


def _impl_again(c):
    import logging
    import bionumpy as bnp
    logging.disable(logging.CRITICAL)
    fmt = c["fmt"]
    BT = _bt(T[fmt][0])
    d = _tmpdir()
    try:
        t = _table(fmt, c["rows"])
        before = _snapshot(fmt, t)
        outs = []
        for i, (a, b, st) in enumerate(c["steps"]):
            dst = os.path.join(d, f"again{i}" + T[fmt][2] + (".gz" if c.get("gz") else ""))
            if os.path.exists(dst):
                os.remove(dst)
            part = t if (a, b, st) == (0, len(c["rows"]), 1) else t[a:b:st]
            if c.get("nested") and len(part):
                part = part[0:len(part)]                     # a slice of a slice: still views of the same arrays
            with bnp.open(dst, "w", buffer_type=BT) as f:
                f.write(part)
            raw = open(dst, "rb").read()
            outs.append((gzip.decompress(raw) if c.get("gz") and raw else raw).decode("latin1"))
        return {"outs": outs, "unchanged": _snapshot(fmt, t) == before}
    except Exception as e:
        return {"err": "again:" + type(e).__name__}


def _chain(c, BT, p, first_bytes):
    """write -> read (default reader: lazy where the package reads lazily) -> write what was read: the second file must
    be the first one, header included. Optionally another file of the same format with ANOTHER header is read before
    and kept alive (`prior_hdr`)."""
    import bionumpy as bnp
    fmt = c["fmt"]
    d = _tmpdir()
    keep = None
    try:
        if c.get("prior_hdr"):
            keep = _open_prior({"fmt": fmt, "prior": {"hdr": c["prior_hdr"], "write": len(c["rows"]) % 2 == 0}}, BT, d, c["rows"][:2])
        r = bnp.open(p, buffer_type=BT)
        try:
            back = r.read()
            q = os.path.join(d, "w2" + T[fmt][2])
            with bnp.open(q, "w", buffer_type=BT) as f:
                f.write(back)
        finally:
            r.close()
            if keep:
                keep[0].close()
        again = open(q, "rb").read().decode("latin1")
        return "same" if again == first_bytes else {"differs": again[:3000]}
    except Exception as e:
        return {"err": "chain:" + type(e).__name__}


# a write call the writer must REFUSE (it raises on the unchanged package for these format / kind pairs), made on the same
# writer just before a valid table is written: "wrong_class" = a table of a data class without the format's fields;
# "shared" = a VCF table built from the valid table's OWN column arrays plus an INFO column that is a table (what an
# eagerly read VCF with ##INFO declarations holds); "poison_last" = the valid table with its last (list) column replaced
FAIL_KINDS = {"vcf": ["wrong_class", "shared"], "vcfs": ["wrong_class", "shared"], "vcf2": ["wrong_class", "shared"],
              "gfa": ["wrong_class"], "fasta": ["wrong_class"], "fasta2": ["wrong_class"], "fastq": ["wrong_class"],
              "bed12": ["poison_last"], "csvb": ["poison_last"]}


def _refused_write(f, c, t):
    """the refused call; returns True iff it raised. The caller goes on with the same writer and the same table `t`."""
    import dataclasses
    import bionumpy.datatypes as dt
    kind = c["fail"]["kind"]
    n = max(len(t), 1)
    other = dt.Interval(["c"] * n, list(range(n)), list(range(1, n + 1)))
    if kind == "shared" and len(t):
        bad = dt.VCFEntry(t.chromosome, t.position, t.id, t.ref_seq, t.alt_seq, t.quality, t.filter, other)
    elif kind == "poison_last" and len(t):
        bad = dataclasses.replace(t, **{dataclasses.fields(t)[-1].name: other})
    else:
        bad = other if "chromosome" not in [x.name for x in dataclasses.fields(t)] or c["fmt"] in VCF_KINDS else \
            dt.SequenceEntry(["a", "b"], ["AC", "G"])
    if c.get("ctx_hdr"):
        bad.set_context("header", c["ctx_hdr"])
    try:
        f.write(bad)
    except Exception:
        return True
    return False


def fail_cases(tier, rng):
    """STATE LEFT BY A FAILED CALL: in an ordinary write plan (any cut of the rows, any writer plan) one extra write call
    that the writer refuses is made on the same writer just before piece `at`; the file must be what it is without that
    call (header once, every POS shifted once), i.e. one write of the concatenated table"""
    per = {"quick": 12, "thorough": 150, "widen": 40}[tier]
    for fmt, kinds in FAIL_KINDS.items():
        for _ in range(per):
            n = rng.choice([1, 2, 3, 5])
            rows = [g_row(rng, fmt) for _ in range(n)]
            cuts = sorted(rng.sample(range(0, n + 1), min(n + 1, rng.choice([0, 0, 1, 2]))))
            case = {"op": "write", "fmt": fmt, "rows": rows, "cuts": cuts, "mode": rng.choice(MODES),
                    "first": rng.randrange(1, len(cuts) + 2)}
            at = rng.choice([0, 0, rng.randrange(0, len(cuts) + 1)])
            kind = rng.choice(kinds)
            if kind != "wrong_class":             # built from the valid table itself: needs a piece with rows
                b = [0] + cuts + [n]
                full = [i for i in range(len(b) - 1) if b[i + 1] > b[i]]
                at = at if at in full else full[0]
            case["fail"] = {"at": at, "kind": kind}
            yield _ctx(rng, case)


def impl(c):
    if c["op"] == "rewrite":
        return _impl_rewrite(c)
    if c["op"] == "replace":
        return _impl_replace(c)
    if c["op"] == "again":
        return _impl_again(c)
    import logging
    import bionumpy as bnp
    from bionumpy.streams import NpDataclassStream
    logging.disable(logging.CRITICAL)
    fmt, mode = c["fmt"], c["mode"]
    BT = _bt(T[fmt][0])
    gz = mode.endswith("gzip")
    p = os.path.join(_tmpdir(), "w" + T[fmt][2] + (".gz" if gz else ""))
    if os.path.exists(p):
        os.remove(p)
    try:
        tables = [_table(fmt, rows, c.get("enc", ())) for rows in _pieces(c)]
        if c.get("ctx_hdr"):
            for t in tables:
                t.set_context("header", c["ctx_hdr"])
        import bionumpy.datatypes as dt
        if mode == "append0_empty":
            open(p, "wb").close()                  # an existing, empty target
        i = 0
        refused = []
        for om, stream, cnt in sessions(c):
            part = tables[i:i + cnt]
            i += cnt
            with bnp.open(p, om, buffer_type=BT) as f:
                fail = c.get("fail")
                k = fail["at"] - (i - cnt) if fail else -1            # position of the table the refused call precedes
                if stream:
                    if 0 <= k < cnt:
                        refused.append(_refused_write(f, c, part[k]))
                    f.write(NpDataclassStream(iter(part), dataclass=getattr(dt, T[fmt][1]) if T[fmt][1] else _csvb_class()))
                else:
                    for j, t in enumerate(part):
                        if j == k:
                            refused.append(_refused_write(f, c, t))
                        f.write(t)
        raw = open(p, "rb").read()
        data = gzip.decompress(raw) if gz and raw else raw
        out = {"bytes": data.decode("latin1")}
        if c.get("fail"):
            out["refused"] = refused
    except Exception as e:
        return {"err": "write:" + type(e).__name__}
    try:
        if not c["rows"]:
            out["read"] = None
        else:
            r = bnp.open(p, buffer_type=BT, lazy=False)
            try:
                d = r.read()
            finally:
                r.close()
            import dataclasses
            out["read"] = {"n": int(len(d)), "cols": [c02._canon_col(getattr(d, f.name)) for f in dataclasses.fields(d)]}
            out["count"] = int(bnp.count_entries(p, buffer_type=BT))        # the number of records, by the counting reader
            out["chain"] = _chain(c, BT, p, out["bytes"])
    except Exception as e:
        out["read"] = {"err": "read:" + type(e).__name__}
    return out


# ------------------------------------------------------------------ reference serialiser (independent of bionumpy)

def _cell_text(kind, v, fmt, j):
    if kind in ("id", "str", "strand", "seq"):
        return v
    if kind in ("int", "sint", "oint"):
        return str(v + 1) if (fmt in ("vcf", "vcfs", "vcf2") and j == 1) else str(v)
    if kind == "bool":
        return "1" if v else "0"
    if kind == "blist":
        return "".join("1" if x else "0" for x in v)
    if kind == "slist":
        return "GT\t" + "\t".join(v)
    if kind == "float":
        return repr(float.fromhex(v[2:]))
    if kind == "ilist":
        return ",".join(str(x) for x in v)
    if kind == "qual":
        return "".join(chr(q + 33) for q in v)
    raise KeyError(kind)


def _representable(fmt, rows):
    for r in rows:
        for (name, kind), v in zip(T[fmt][3], r):
            if kind in ("id", "str", "seq", "strand"):
                if any(ch in v for ch in "\t\n\r") or any(ord(ch) > 126 or ord(ch) < 32 for ch in v):
                    return False
                if kind == "id" and (v == "" or v != v.strip()):
                    return False
            if kind in ("int", "sint", "oint") and not (-2 ** 63 < v <= 2 ** 63 - 1 - (1 if (fmt in HAS_HEADER and name == "position") else 0)):
                return False
            if kind == "float":
                x = float.fromhex(v[2:])
                if x != x or x in (float("inf"), float("-inf")):
                    return False
    return True


def ref_body(fmt, rows):
    kinds = T[fmt][3]
    out = []
    for r in rows:
        cells = [_cell_text(k, v, fmt, j) for j, ((_, k), v) in enumerate(zip(kinds, r))]
        if fmt == "fasta":
            s = cells[1]
            out.append(">" + cells[0] + "\n" + "".join(s[i:i + 80] + "\n" for i in range(0, len(s), 80)))
        elif fmt == "fasta2":
            out.append(">" + cells[0] + "\n" + cells[1] + "\n")
        elif fmt == "fastq":
            out.append("@" + cells[0] + "\n" + cells[1] + "\n+\n" + cells[2] + "\n")
        elif fmt == "gfa":
            out.append("S\t" + "\t".join(cells) + "\n")
        else:
            out.append("\t".join(cells) + "\n")
    return "".join(out)


def _with_alt(c, body):
    """expected file of a table that came from a source file with header H: H ++ body. The VCF header (required by the
    format, `#CHROM` line) and the SAM header must be the source file's own, exactly once. A block of '#' comment lines
    in front of a BED-like / GTF file is the file's own block or is left out (tables that are not read lazily - GTF
    always - carry it only as a whole table): never anything else, in particular never the block of another file."""
    h = _src_hdr(c)
    exp = {"bytes": h + body}
    if h and c["fmt"] not in ("vcfs", "sam"):
        exp["alt"] = body
    return exp


def oracle(c):
    fmt = c["fmt"]
    if not _representable(fmt, c["rows"]):
        return SKIP
    if c["op"] == "rewrite":
        n = len(c["rows"])
        order = [i for sel in c["sel"] for i in _select(n, sel)]
        if c["how"] == "concat_twice":
            order += _select(n, c["sel"][0])
        return _with_alt(c, ref_body(fmt, [c["rows"][i] for i in order]))
    if c["op"] == "replace":
        rows2 = [list(r) for r in c["rows"]]
        for r, v in zip(rows2, c["values"]):
            r[c["field"]] = v
        if not _representable(fmt, rows2):
            return SKIP
        return _with_alt(c, ref_body(fmt, rows2))
    if c["op"] == "again":
        return {"bodies": [ref_body(fmt, c["rows"][a:b:st]) for a, b, st in c["steps"]], "unchanged": True}
    # a header (if the format has one) stands exactly once in front as soon as one write call was made
    return {"body": ref_body(fmt, c["rows"]), "headers": 1 if ((fmt in HAS_HEADER or c.get("ctx_hdr")) and n_calls(c) > 0) else 0}


def _expected_read(c):
    fmt = c["fmt"]
    rows = c["rows"]
    cols = []
    for j, (name, kind) in enumerate(T[fmt][3]):
        v = [r[j] for r in rows]
        if kind == "seq" and fmt != "fastq":
            pass
        if kind == "strand":
            v = list(v)
        if kind == "blist":
            v = [[int(x) for x in r] for r in v]
        cols.append(v)
    return {"n": len(rows), "cols": cols}


def _split_header(text, fmt=None):
    if fmt in CSV_HEADERS:
        k = 0
        while text.startswith(CSV_HEADERS[fmt], k):
            k += len(CSV_HEADERS[fmt])
        return text[:k], text[k:]
    i = 0
    lines = text.split("\n")
    k = 0
    while k < len(lines) and lines[k].startswith("#"):
        i += len(lines[k]) + 1
        k += 1
    return text[:i], text[i:]


def _strip_src_header(fmt, text):
    mark = None if fmt in ("fastq", "fasta", "fasta2") else ("@" if fmt == "sam" else "#")
    if not mark:
        return "", text
    k = 0
    while k < len(text) and text[k] == mark:
        k = text.index("\n", k) + 1
    return text[:k], text[k:]


def _cells_equal(a, b):
    if a == b:
        return True
    try:
        x, y = float(a), float(b)
    except ValueError:
        return False
    return abs(x - y) <= 1e-12 * max(abs(x), abs(y))


def _agree_replace(c, text, want):
    """lazily read: byte-exact (unmodified fields keep their source text, the source header is kept);
    eagerly read: the other fields are re-serialised from parsed values, so float cells are compared by value and the
    header block is the writer's own choice (exactly one #CHROM line for VCF)"""
    if c.get("lazy", True):
        return text == want
    fmt = c["fmt"]
    head, body = _strip_src_header(fmt, text)
    _, wbody = _strip_src_header(fmt, want)
    if fmt == "vcfs" and len(re.findall(r"(^|\n)#CHROM\t", head)) != 1:
        return False
    if fmt != "vcfs" and head not in ("", _src_hdr(c)):          # never a header block from somewhere else
        return False
    la, lb = body.split("\n"), wbody.split("\n")
    if len(la) != len(lb):
        return False
    for x, y in zip(la, lb):
        cx, cy = x.split("\t"), y.split("\t")
        if len(cx) != len(cy) or not all(_cells_equal(p, q) for p, q in zip(cx, cy)):
            return False
    return True


def agree(c, got, exp):
    if c["op"] == "again":
        if not isinstance(got, dict) or "outs" not in got or got.get("unchanged") is not True:
            return False
        if len(got["outs"]) != len(exp["bodies"]):
            return False
        for text, body in zip(got["outs"], exp["bodies"]):
            fmt = c["fmt"]
            if fmt in HAS_HEADER:
                head, rest = _split_header(text, fmt)
                n_hdr = len(re.findall(r"(^|\n)#CHROM\t", head)) if fmt not in CSV_HEADERS else len(head) // len(CSV_HEADERS[fmt])
                if n_hdr != 1 or rest != body:
                    return False
            elif text != body:
                return False
        return True
    if not isinstance(got, dict) or "bytes" not in got:
        return False
    if c["op"] == "rewrite":
        return got["bytes"] == exp["bytes"] or ("alt" in exp and got["bytes"] == exp["alt"])
    if c["op"] == "replace":
        return _agree_replace(c, got["bytes"], exp["bytes"]) or ("alt" in exp and _agree_replace(c, got["bytes"], exp["alt"]))
    fmt = c["fmt"]
    text = got["bytes"]
    if c.get("fail") and got.get("refused") not in ([True], []):
        return False                 # the table that cannot be written in this format was accepted
    if c.get("ctx_hdr"):
        # the table carries its own header: the file is exactly that header (once, iff a write call was made) ++ the records
        if text != (c["ctx_hdr"] if exp["headers"] else "") + exp["body"]:
            return False
        body = exp["body"]
    elif fmt in HAS_HEADER:
        head, body = _split_header(text, fmt)
        n_hdr = len(re.findall(r"(^|\n)#CHROM\t", head)) if fmt not in CSV_HEADERS else len(head) // len(CSV_HEADERS[fmt])
        if n_hdr != exp["headers"] or (exp["headers"] == 0 and head):
            return False
        if fmt not in CSV_HEADERS and any(l.startswith("#") for l in body.split("\n")):
            return False
    else:
        body = text
    if body != exp["body"]:
        return False
    if not c["rows"]:
        return True
    if got.get("count") != len(c["rows"]):
        return False
    if got.get("chain") != "same":
        return False
    return c02._same(got.get("read"), c02._conv(_expected_read(c)))


def agree_model(c, got, m):
    return isinstance(got, dict) and isinstance(m, dict) and got.get("bytes") == m.get("bytes")


def model_request(c):
    """(op "rewrite" is implementation vs reference only: it is not in MODEL_OPS) cells as text for the externals (str(float), alphabet decode); ints stay ints (formatInt is modelled)"""
    if c["op"] != "write":
        return None
    fmt = c["fmt"]
    kinds = [k for _, k in T[fmt][3]]
    rows = []
    for r in c["rows"]:
        row = []
        for k, v in zip(kinds, r):
            if k == "float":
                row.append({"t": repr(float.fromhex(v[2:]))})
            elif k in ("int", "sint", "oint"):
                row.append({"i": v})
            elif k == "ilist":
                row.append({"l": v})
            elif k == "qual":
                row.append({"q": v})
            elif k == "bool":
                row.append({"i": 1 if v else 0})
            elif k == "blist":
                row.append({"t": "".join("1" if x else "0" for x in v)})
            elif k == "slist":                       # the FORMAT column and one text column per sample
                row.append({"t": "GT"})
                row += [{"t": g} for g in v]
            else:
                row.append({"t": v})
        rows.append(row)
    req = {"op": "write", "fmt": fmt, "rows": rows, "cuts": c["cuts"],
           "sessions": [{"m": m, "s": st, "k": k} for m, st, k in sessions(c)]}
    if fmt in CSV_HEADERS:
        req["hdr"] = CSV_HEADERS[fmt]
    if c.get("ctx_hdr"):
        req["hdr"] = c["ctx_hdr"]
    return req


def nontrivial(c):
    if c["op"] == "rewrite":
        return len(c["sel"]) >= 2 or c["how"] != "concat" or any("idx" in s and s["idx"] != sorted(s["idx"]) for s in c["sel"])
    if c["op"] in ("replace", "again"):
        return True
    if c["cuts"] or c["mode"] != "plain":
        return True
    if c["fmt"] == "fasta":
        return any(len(r[1]) % 80 in (0, 1, 79) for r in c["rows"])
    return False


def finding_key(c, got, exp):
    fmt = c["fmt"]
    if c["op"] == "rewrite":
        kind = "raises" if (isinstance(got, dict) and "err" in got) else "bytes-differ"
        return f"rewrite-lazy-pieces:{fmt}:{c['how']}:{kind}"
    if c["op"] == "replace":
        kind = "raises" if (isinstance(got, dict) and "err" in got) else "bytes-differ"
        return f"replace-field:{fmt}:{T[fmt][3][c['field']][0]}:{'lazy' if c.get('lazy', True) else 'eager'}:{kind}"
    if c["op"] == "again":
        if isinstance(got, dict) and got.get("unchanged") is False:
            return f"write-again:{fmt}:table-object-modified-by-write"
        return f"write-again:{fmt}:{'raises' if isinstance(got, dict) and 'err' in got else 'bytes-differ'}"
    if c.get("fail"):
        return f"after-refused-write:{fmt}:{c['fail']['kind']}:{'raises' if isinstance(got, dict) and 'err' in got else 'file-differs'}"
    if fmt == "fasta" and any(len(r[1]) == 0 for r in c["rows"]):
        return "fasta-write:empty-sequence"
    if isinstance(got, dict) and got.get("err", "").startswith("write:"):
        if fmt == "vcf":
            return "vcf-write:info-text-in-union-typed-column"
        return f"{fmt}:write-raises"
    if isinstance(got, dict) and isinstance(got.get("read"), dict) and "err" in got["read"]:
        return f"{fmt}:read-back-raises"
    if isinstance(got, dict) and "bytes" in got and c.get("ctx_hdr") and \
            got["bytes"] != (c["ctx_hdr"] if exp["headers"] else "") + exp["body"] and got["bytes"].endswith(exp["body"]):
        return f"{fmt}:header-context:{c['mode']}"
    if isinstance(got, dict) and got.get("chain", "same") != "same":
        return f"{fmt}:write-read-write:{'raises' if 'err' in got['chain'] else 'bytes-differ'}"
    if isinstance(got, dict) and "bytes" in got:
        text = got["bytes"]
        body = _split_header(text, fmt)[1] if fmt in HAS_HEADER else text
        if body != exp["body"]:
            return f"{fmt}:bytes-differ"
        if fmt in HAS_HEADER:
            return f"{fmt}:header-count:{c['mode']}"
        return f"{fmt}:read-back-differs"
    return f"{fmt}:other"
