"""C15 — malformed input is reported, with the right line number, not mis-parsed."""
import gzip
import io
import os
import numpy as np
from .. import core
from ..core import SKIP
from . import c01

ID = "C15"
PARALLEL = 16
RULE = ("every well-formed file of C01's generators (FASTQ, two-line FASTA, BED, BED6, VCF, SAM, GTF, bedGraph) with ONE violation of each class "
        "(record not starting with its marker, missing '+' line, non-numeric value in a numeric column, character outside the strand alphabet, "
        "a line with one column more / one column less, a column moved from one line to the next) injected at every record position x chunk sizes "
        "1..size+2 (quick: sampled around entry boundaries) x {lazy, eager} x {plain, gzip}. Outcome must be an error, never a table; a "
        "FormatException must carry the zero-based line of the offending record (inside the record's line span) and equal the Lean model's "
        "line exactly. Non-trivial = the violation is not in the first record or the file is read in more than one chunk")
EXHAUSTIVE = {"quick": False, "thorough": False}
MODEL_OPS = {"kline_read", "delim_read", "row_matrix", "row_ragged"}
ASSUMPTIONS = ["chunk boundaries are those of the C01 reader model (tied to the code by C01's correspondence and re-checked here end to end)",
               "which rows fail to parse is given to the delimited model by the harness (it knows the injected violation); the digit/alphabet "
               "rejection itself is C06's theorem"]
MANIFEST = {
    "text": "Lean 4 theorems: for FASTA/FASTQ-style formats the line reported for a single violation equals (entries before)·n + local line for "
            "EVERY way of cutting the entries into chunks (C15.line_number_kline, induction over the chunk list, over a model of _validate "
            "with its marker-first precedence and of the readers' offset layering); for delimited columns the row computed from an "
            "EncodingError offset is the offending row for both the matrix and the ragged formula (rowOfOffsetMatrix_spec, "
            "rowOfOffsetRagged_spec, all row lengths incl. zero) and the reported row is chunking-independent (line_number_delimited). "
            "Correspondence: real bnp.open reads (plain=seek, gzip=carry, lazy and eager) of files with one injected violation at every "
            "record position and chunk size vs the Lean end-to-end model readValidate (C01 reader model + validation), and vs the oracle "
            "'error, never a table; FormatException line inside the offending record'.",
    "note": "Files of ANY content (a last record cut off anywhere, a missing '+' line): readValidateT_any_file / chunk_size_independent_any_file / truncated_line "
            "(the repaired end-of-file test, fix a0fa304) hold for every byte string, chunk size and mode. Column-count violations are decided on the implementation only (no FormatException is involved). The end-to-end theorem readValidate_line composes "
            "C01's entries_chunks_kLine (chunks are entry-aligned for every k) with line_number_kline.",
    "technique": "Lean 4 induction over chunkings (reported line invariance) + differential correspondence on injected violations",
    "design": "§6 C15",
}


def _inject(fmt, ents, i, kind):
    e = ents[i]
    if kind == "marker":
        e = "X" + e[1:]
    elif kind == "plus":
        ls = e.split("\n")
        ls[2] = "-"
        e = "\n".join(ls)
    elif kind == "plus_del":       # the '+' line is MISSING (not just wrong): every later line moves up, the last record is short
        ls = e.split("\n")
        e = "\n".join(ls[:2] + ls[3:])
    elif kind.startswith("trunc:"):  # the file ends inside record i (its last j lines are missing); the caller passes the last record
        j = int(kind.split(":")[1])
        ls = e.split("\n")[:-1]
        e = "\n".join(ls[:len(ls) - j]) + "\n"
    elif kind == "nonnum":
        f = e[:-1].split("\t")
        col = {"sam": 3, "gtf": 3}.get(fmt, 1)
        f[col] = f[col][:-1] + "x"
        e = "\t".join(f) + "\n"
    elif kind.startswith("tok:"):
        _, col, tok = kind.split(":", 2)
        f = e[:-1].split("\t")
        f[int(col)] = tok
        e = "\t".join(f) + "\n"
    elif kind == "strand":
        f = e[:-1].split("\t")
        f[5] = "K"
        e = "\t".join(f) + "\n"
    elif kind == "ncols_more":
        e = e[:-1] + "\textra\n"
    elif kind == "ncols_less":
        f = e[:-1].split("\t")
        e = "\t".join(f[:-1]) + "\n"
    out = ents[:i] + [e] + ents[i + 1:]
    if kind == "ncols_shift":   # last column of record i moved to the front of record i+1
        f = ents[i][:-1].split("\t")
        out = ents[:i] + ["\t".join(f[:-1]) + "\n", f[-1] + "\t" + ents[i + 1]] + ents[i + 2:]
    return out


KINDS = {"fastq": ["marker", "plus", "plus_del", "trunc:1", "trunc:2", "trunc:3"], "fasta2line": ["marker", "trunc:1"], "bed": ["nonnum", "ncols_more", "ncols_less", "ncols_shift"],
         "bed6": ["nonnum", "strand", "ncols_more", "ncols_less", "ncols_shift"], "vcf": ["nonnum", "ncols_less", "ncols_shift"],
         "sam": ["nonnum"], "gtf": ["nonnum", "ncols_less"], "bdg": ["nonnum", "ncols_shift"]}
LINES = {"fastq": 4, "fasta2line": 2}
# numeric columns per format (from the format definitions) and texts that are not numbers of that kind
NUMCOLS = {"bed12": {1: "int", 6: "int", 9: "int", 10: "intlist", 11: "intlist"}, "bed": {1: "int", 2: "int"}, "bed6": {1: "int", 4: "optint", 5: "strand"}, "bdg": {2: "int", 3: "float"},
           "narrowPeak": {4: "optint", 5: "strand", 6: "float", 9: "int"}, "vcf": {1: "int"}, "sam": {1: "int", 3: "int", 4: "int"},
           "gtf": {3: "int", 4: "int"}}
# long values: the bad character at the start / in the middle / at the end of a text longer than any internal width (9, 18, 19, 20, 21, 40 digits)
_LONG = ["x" + "0" * 17 + "42", "x" + "0" * 19 + "42", "3.14159265358979323846", "0" * 21 + "x", "1" * 10 + "x" + "1" * 24, "x" + "7" * 40, "1-" + "0" * 20, "100-200", "3+4"]
BADTOK = {"int": ["x", "7x", "x7", "-", "+", "--1", "1-", "1 ", "+-1", "1e3", "1.5x", "4\x105", "\x11", "1\x0b"] + _LONG,
          "intlist": ["x", "1,2x", "1;2", "-,2", "1,,x", ",x", "1,2,3,4x", "1,2,x,", "1.5,2"],
          "strand": ["K", "\x0b", "\x0e", "*", "k", "\x0d+"],
          "optint": ["x", ".x", "..", "7x", "-", ". ", ".7"],
          "float": ["x", "1.2.3", "1e", "e5", "--1.0", ".", "-", "1.0x", "1e+", "1_0", "-.", "2.5e-x", "1x5e3", "twenty", "1e2e3", "1.5e", "x" + "0" * 19 + ".5"]}
for _f, _cols in NUMCOLS.items():
    for _c, _t in _cols.items():
        KINDS.setdefault(_f, [])
        KINDS[_f] += [f"tok:{_c}:{_tok}" for _tok in BADTOK[_t]]


def cases(tier, rng):
    big = tier in ("thorough", "widen")
    for fmt, kinds in KINDS.items():
        for n in ((2, 3, 4, 6) if big else (2, 3, 5)):
            for lens in ([[1, 2], [2, 5], [5, 1]] if big else [rng.choice([[1, 2], [2, 5], [5, 1]])]):
                ents, header = c01.make_entries(fmt, n, lens, rng)
                for kind in kinds:
                    if kind.startswith("tok:") and ((not big and rng.random() < 0.6) or (big and n not in (2, 4))):
                        continue        # the many non-numeric texts: every text everywhere, but fewer file sizes
                    for i in range(n):
                        if kind == "ncols_shift" and i == n - 1:
                            continue
                        if kind.startswith("trunc:") and i != n - 1:
                            continue
                        bad = _inject(fmt, ents, i, kind)
                        body = "".join(bad)
                        L = len(body)
                        bounds = []
                        acc = 0
                        for e in bad:
                            acc += len(e)
                            bounds.append(acc)
                        if big and kind.startswith("tok:"):
                            cand = sorted(set([1, 2, 3, L, L + 1, L + 2] + bounds + [b + 1 for b in bounds] + [max(1, b - 1) for b in bounds]))
                            ks = rng.sample(cand, min(len(cand), 8))
                        elif big:
                            ks = list(range(1, L + 3)) if (L < 70 and n < 6) else sorted(set(list(range(1, 20)) + bounds + [b + 1 for b in bounds] + [L + 1]))
                        else:
                            cand = sorted(set([1, 2, 3, L, L + 1, L + 2] + bounds + [b + 1 for b in bounds] + [max(1, b - 1) for b in bounds]))
                            ks = rng.sample(cand, min(len(cand), 6 if n < 5 else 3))
                        for k in ks:
                            for gz in (False, True):
                                for lazy in ((True, False) if (big or rng.random() < 0.5) else (rng.choice([True, False]),)):
                                    nl = rng.random() < 0.8
                                    case = {"op": "read", "fmt": fmt, "header": header, "ents": bad, "i": i, "kind": kind, "k": k, "gz": gz,
                                            "lazy": lazy, "nl": nl}
                                    if lazy and rng.random() < 0.3:
                                        case["defer"] = True
                                    yield case
                        if big or rng.random() < 0.3:      # f.read(): the whole file at once (a separate reader method)
                            yield {"op": "read", "fmt": fmt, "header": header, "ents": bad, "i": i, "kind": kind, "k": L + 10, "gz": rng.random() < 0.5,
                                   "lazy": rng.random() < 0.5, "nl": rng.random() < 0.8, "via": "whole"}
    # SEVERAL violations in one file: the first offending record must be named whatever the chunking
    for fmt, pairs in (("fastq", [("plus", "marker"), ("marker", "plus"), ("plus", "plus"), ("marker", "marker")]),
                       ("fasta2line", [("marker", "marker")]), ("bed6", [("strand", "nonnum"), ("nonnum", "strand"), ("tok:4:7x", "nonnum")])):
        for n in ((2, 3, 4) if big else (2, 3)):
            ents, header = c01.make_entries(fmt, n, rng.choice([[1, 2], [2, 5], [5, 1]]), rng)
            for ka, kb in pairs:
                for i in range(n):
                    for j in range(i, n):
                        if i == j and (ka == kb or fmt != "fastq"):
                            continue
                        bad = _inject(fmt, _inject(fmt, ents, i, ka), j, kb)
                        L = len("".join(bad))
                        bounds = [sum(len(e) for e in bad[:t + 1]) for t in range(n)]
                        cand = sorted(set([1, 2, L, L + 1, L + 2] + bounds + [b + 1 for b in bounds]))
                        for k in (cand if big else rng.sample(cand, min(len(cand), 5))):
                            for gz in (False, True):
                                for lazy in ((True, False) if big else (rng.choice([True, False]),)):
                                    yield {"op": "read", "fmt": fmt, "header": header, "ents": bad, "i": i, "kind": "multi", "viol": [[i, ka], [j, kb]],
                                           "k": k, "gz": gz, "lazy": lazy, "nl": rng.random() < 0.8}
    # lazily read chunks joined before use (np.concatenate of all chunks but the first), and reading on after a reported error
    for fmt, kind in (("bed6", "nonnum"), ("bed6", "strand"), ("bdg", "nonnum"), ("bed12", "tok:10:1,2x"), ("vcf", "nonnum")):
        for n in ((4, 6) if big else (5,)):
            ents, header = c01.make_entries(fmt, n, [2, 5], rng)
            for i in range(n):
                bad = _inject(fmt, ents, i, kind)
                bounds = [sum(len(e) for e in bad[:t + 1]) for t in range(n)]
                for k in (sorted(set([1] + bounds + [b + 1 for b in bounds])) if big else rng.sample(sorted(set([1] + [b + 1 for b in bounds])), 3)):
                    for gz in ((False, True) if big else (rng.random() < 0.3,)):
                        yield {"op": "read", "fmt": fmt, "header": header, "ents": bad, "i": i, "kind": kind, "k": k, "gz": gz, "lazy": True, "nl": True,
                               "via": "concat_tail"}
    # (delimited formats only: there the error of an eager chunk is raised after the reader has delivered the chunk, exactly where lazy
    #  reading raises it on access, so "the same for lazy and eager" speaks about the later chunks too; a FASTA/FASTQ reader that raised
    #  inside read_chunk has given up, reading on is outside the property)
    for fmt, ka, kb in (("bed6", "nonnum", "strand"), ("bed6", "nonnum", "nonnum"), ("bdg", "nonnum", "nonnum"), ("bed12", "tok:10:1,2x", "nonnum")):
        for n in ((4, 6) if big else (5,)):
            ents, header = c01.make_entries(fmt, n, [2, 5], rng)
            for i in range(n - 1):
                for j in range(i + 1, n):
                    bad = _inject(fmt, _inject(fmt, ents, i, ka), j, kb)
                    bounds = [sum(len(e) for e in bad[:t + 1]) for t in range(n)]
                    for k in (sorted(set(bounds + [b + 1 for b in bounds])) if big else rng.sample(sorted(set(b + 1 for b in bounds)), 2)):
                        yield {"op": "read", "fmt": fmt, "header": header, "ents": bad, "i": i, "kind": "multi", "viol": [[i, ka], [j, kb]], "k": k,
                               "gz": False, "lazy": False, "nl": True, "via": "read_on"}
    # the byte-level reader used directly, and bnp.count_entries (fixed 500000-byte chunks) on a file larger than one chunk
    for fmt, kinds in (("fastq", ["marker", "plus", "plus_del", "trunc:2"]), ("fasta2line", ["marker", "trunc:1"]), ("bed", ["ncols_more", "ncols_less"])):
        for n in (3, 5):
            ents, header = c01.make_entries(fmt, n, [2, 5], rng)
            for kind in kinds:
                for i in range(n):
                    if kind.startswith("trunc:") and i != n - 1:
                        continue
                    bad = _inject(fmt, ents, i, kind)
                    L = len("".join(bad))
                    for k in sorted({1, 2, len(bad[0]), len(bad[0]) + 1, L // 2 + 1, L, L + 1} if big else rng.sample(sorted({1, len(bad[0]) + 1, L // 2 + 1, L + 1}), 2)):
                        for gz in (False, True):
                            yield {"op": "read", "fmt": fmt, "header": header, "ents": bad, "i": i, "kind": kind, "k": k, "gz": gz, "lazy": False,
                                   "nl": True, "via": "bare"}
    for fmt, kind in (("fastq", "marker"), ("fastq", "plus"), ("bed", "ncols_less"), ("fastq", "trunc:1")):
        n = 30000 if fmt == "fastq" else 45000          # > 500000 bytes
        ents, header = c01.make_entries(fmt, 4, [5, 5], rng)
        ents = [ents[j % 4] for j in range(n)]
        for i in ((n - 1,) if kind.startswith("trunc:") else (n - 2, n // 2 + 1) if big else (n - 2,)):
            yield {"op": "read", "fmt": fmt, "header": header, "ents": _inject(fmt, ents, i, kind), "i": i, "kind": kind, "k": 500000, "gz": False,
                   "lazy": False, "nl": True, "via": "count"}
    # custom delimited formats with a column-name header (get_bufferclass_for_datatype): file A read with an all-text table type,
    # then file B with the SAME header read with numeric column types and a non-numeric value (two inputs in one process)
    for n in ((3, 5) if big else (3,)):
        for i in range(n):
            for first in ("str", "int", None):
                for k in (5, 40, 1000):
                    for lazy in (True, False):
                        yield {"op": "custom_pair", "n": n, "i": i, "first": first, "k": k, "lazy": lazy, "tok": rng.choice(["5x", "x", "-", "1.5"])}
    for _ in range(300 if big else 60):
        w = rng.randint(1, 6)
        i, j = rng.randint(0, 5), rng.randrange(w)
        yield {"op": "row_matrix", "w": w, "offset": i * w + j, "row": i}
        lens = [rng.choice([0, 1, 2, 5]) for _ in range(rng.randint(1, 6))]
        rows = [r for r, l in enumerate(lens) if l > 0]
        if rows:
            r = rng.choice(rows)
            yield {"op": "row_ragged", "lengths": lens, "offset": sum(lens[:r]) + rng.randrange(lens[r]), "row": r}


def nontrivial(c):
    if c["op"] == "custom_pair":
        return c["first"] is not None
    if c["op"] != "read":
        return True
    return c["i"] > 0 or c["k"] < sum(len(e) for e in c["ents"])


def _text(c):
    t = c["header"] + "".join(c["ents"])
    return t if c["nl"] else t[:-1]


def impl(c):
    import bionumpy as bnp
    from bionumpy.io.exceptions import FormatException
    if c["op"] == "row_matrix":
        return c["offset"] // c["w"]
    if c["op"] == "row_ragged":
        return int(np.searchsorted(np.cumsum(c["lengths"]), c["offset"], side="right"))
    if c["op"] == "custom_pair":
        return _custom_pair(c)
    bt, suffix = c01._buffer_type(c["fmt"])
    path = os.path.join(c01._tmpdir(), f"v{os.getpid()}{suffix}" + (".gz" if c["gz"] else ""))
    with (gzip.open if c["gz"] else open)(path, "wb") as fh:
        fh.write(_text(c).encode())
    try:
        rows = 0
        via = c.get("via", "open")
        if via == "bare":
            # the byte-level reader used directly (as bnp.count_entries does): validation of k-line formats and the
            # column-count check happen when the buffer is made
            from bionumpy.io.parser import NumpyFileReader
            fobj = (gzip.open if c["gz"] else open)(path, "rb")
            r = NumpyFileReader(fobj, bt)
            if c["gz"]:
                r.set_prepend_mode()
            for buf in r.read_chunks(min_chunk_size=c["k"]):
                rows += buf.count_entries()
            fobj.close()
            return {"table": rows}
        if via == "count":
            return {"table": int(bnp.count_entries(path, buffer_type=bt))}
        with bnp.open(path, buffer_type=bt, lazy=c["lazy"]) as f:
            if via == "whole":
                return {"table": len(c01.table_rows(f.read()))}
            if via == "concat_tail":
                # lazily read chunks joined with np.concatenate before any field is looked at: the first chunk alone, then ALL the others as one table
                chunks = list(f.read_chunks(min_chunk_size=c["k"]))
                rows += len(c01.table_rows(chunks[0])) if chunks else 0
                if len(chunks) > 1:
                    rows += len(c01.table_rows(np.concatenate(chunks[1:]) if len(chunks) > 2 else chunks[1]))
                return {"table": rows}
            if via == "read_on":
                # the caller catches the error of a chunk and keeps reading (read_chunk in a loop): every later report must still name a true line
                lines = []
                for _ in range(len(_text(c)) + 5):
                    try:
                        chunk = f.read_chunk(min_chunk_size=c["k"])
                        if len(chunk) == 0:
                            break
                        rows += len(c01.table_rows(chunk))
                    except FormatException as e:
                        lines.append(int(e.line_number))
                if not lines:
                    return {"table": rows}
                return {"err": "format", "line": lines[0], "later": lines[1:]}
            if c.get("defer"):
                # lazy chunks are only looked at after the whole file was read, last chunk first: each must still
                # report with its own offset (model: readLazy / accessLazy, theorem lazy_access_any_time)
                chunks = list(f.read_chunks(min_chunk_size=c["k"]))
                for chunk in reversed(chunks):
                    rows += len(c01.table_rows(chunk))
                return {"table": rows}
            for chunk in f.read_chunks(min_chunk_size=c["k"]):
                rows += len(c01.table_rows(chunk))
        return {"table": rows}
    except FormatException as e:
        return _fmt_err(e)
    except Exception as e:
        return {"err": "other:" + type(e).__name__}


def _fmt_err(e):
    """the observation of a FormatException: its line — which must survive the trips an exception makes (pickling: worker
    processes; copy) unchanged"""
    import copy
    import pickle
    line = int(e.line_number)
    for how, f in (("pickle", lambda x: pickle.loads(pickle.dumps(x))), ("copy", copy.copy), ("deepcopy", copy.deepcopy)):
        try:
            other = getattr(f(e), "line_number", None)
        except Exception as ex:
            return {"err": "format", "line": line, "lost": how + ":" + type(ex).__name__}
        if other is None or int(other) != line:
            return {"err": "format", "line": line, "lost": how}
    return {"err": "format", "line": line}


def _custom_pair(c):
    import bionumpy as bnp
    from bionumpy.io.exceptions import FormatException
    from bionumpy.bnpdataclass import make_dataclass
    from bionumpy.io.delimited_buffers import get_bufferclass_for_datatype
    rows = [[f"n{j}", str(10 + j), str(j)] for j in range(c["n"])]
    good = "name,count,size\n" + "".join(",".join(r) + "\n" for r in rows)
    rows[c["i"]][1] = c["tok"]
    bad = "name,count,size\n" + "".join(",".join(r) + "\n" for r in rows)
    pa, pb = (os.path.join(c01._tmpdir(), f"cp{os.getpid()}{x}.csv") for x in "ab")
    open(pa, "w").write(good)
    open(pb, "w").write(bad)
    types = {"str": [("name", str), ("count", str), ("size", str)], "int": [("name", str), ("count", int), ("size", int)]}
    try:
        if c["first"]:
            A = get_bufferclass_for_datatype(make_dataclass(types[c["first"]]), delimiter=",", has_header=True)
            with bnp.open(pa, buffer_type=A, lazy=c["lazy"]) as f:
                c01.table_rows(f.read())
    except Exception as e:
        return {"err": "other:first-read:" + type(e).__name__}
    try:
        B = get_bufferclass_for_datatype(make_dataclass(types["int"]), delimiter=",", has_header=True)
        n_rows = 0
        with bnp.open(pb, buffer_type=B, lazy=c["lazy"]) as f:
            for chunk in f.read_chunks(min_chunk_size=c["k"]):
                n_rows += len(c01.table_rows(chunk))
        return {"table": n_rows}
    except FormatException as e:
        return {"err": "format", "line": int(e.line_number)}
    except Exception as e:
        return {"err": "other:" + type(e).__name__}


def _kline_first_offence(text, n, marker, plus):
    """independent reference for the FASTA/FASTQ-style formats: the lines are framed in groups of n BY POSITION (what a line is, is decided
    by where it stands, not by its first character — a quality line may start with '@' or '+'); the first group whose first line does not
    start with the marker, whose third line does not start with '+' (FASTQ), or that is cut short, is the first offending record"""
    lines = text.split("\n")
    if lines and lines[-1] == "":
        lines = lines[:-1]
    while lines and lines[-1].strip("\r") == "":
        lines = lines[:-1]          # blank lines at the end are not a record
    for g in range(0, len(lines), n):
        grp = lines[g:g + n]
        if not grp[0].startswith(marker):
            return g
        if len(grp) < n:
            return g
        if plus and not grp[2].startswith("+"):
            return g + 2
    return None


def oracle(c):
    if c["op"] in ("row_matrix", "row_ragged"):
        return c["row"]
    if c["op"] == "custom_pair":
        return {"must_error": True, "line_lo": c["i"], "line_hi": c["i"]}
    n = LINES.get(c["fmt"], 1)
    if c["fmt"] in LINES:
        first = _kline_first_offence(_text(c), n, "@" if c["fmt"] == "fastq" else ">", c["fmt"] == "fastq")
        if first is not None:
            return {"must_error": True, "line_lo": first, "line_hi": first}
    if c["kind"] == "multi":
        first = min(i * n + (2 if kind == "plus" else 0) for i, kind in c["viol"])
        return {"must_error": True, "line_lo": first, "line_hi": first}
    lo, hi = c["i"] * n, c["i"] * n + n - 1
    if c["kind"].startswith("trunc:"):
        hi = lo          # the truncated record is named by the line it starts at
    if c["kind"].startswith("ncols"):
        # "a different number of columns" is relative to the other lines of the same buffer: the library takes the
        # first line of each buffer as the reference, so the line it names is the offending one or its successor
        # (the first line that differs from the buffer's first line)
        hi = c["i"] + (2 if c["kind"] == "ncols_shift" else 1)
    return {"must_error": True, "line_lo": lo, "line_hi": hi}


def _sim_chunks(data, k, carry):
    """Python port of the Lean C01 reader model for the delimited format: list of delivered chunks"""
    pos, pend, fin, out = 0, [], False, []
    while True:
        acc, was_fin, chunk = list(pend), fin, None
        while True:
            raw = data[pos:pos + k]
            pos += len(raw)
            fin = len(raw) < k
            if not raw:
                if not acc or was_fin:
                    return out
                if acc[-1] != 10:
                    acc = acc + [10]
            else:
                if fin and raw[-1] != 10:
                    raw = raw + [10]
                acc = acc + raw
            was_fin = fin
            if 10 in acc:
                chunk = acc
                break
        cut = len(chunk) - chunk[::-1].index(10)
        out.append(chunk[:cut])
        if fin:
            pend = []
        elif carry:
            pend = chunk[cut:]
        else:
            pos -= len(chunk) - cut
            pend = []


def _chunk_mixed(c):
    """does some delivered buffer contain lines with different column counts?"""
    body = "".join(c["ents"])
    if not c["nl"]:
        body = body[:-1]
    for ch in _sim_chunks([ord(x) for x in body], c["k"], c["gz"]):
        counts = {l.count("\t") for l in "".join(map(chr, ch)).split("\n")[:-1]}
        if len(counts) > 1:
            return True
    return False


def agree(c, got, exp):
    if c["op"] == "custom_pair":
        if not isinstance(got, dict) or "err" not in got:
            return False
        return got["err"] != "format" or exp["line_lo"] <= got["line"] <= exp["line_hi"]
    if c["op"] != "read":
        return got == exp
    if not isinstance(got, dict) or "err" not in got:
        return False
    if got["err"] == "format":
        if "lost" in got:
            return False        # the line number did not survive pickling / copying the exception
        if got.get("later") and c.get("viol"):
            n = LINES.get(c["fmt"], 1)
            true_lines = {i * n + d for i, _ in c["viol"] for d in range(n)}
            seq = [got["line"]] + list(got["later"])
            if any(l not in true_lines for l in got["later"]) or any(b <= a for a, b in zip(seq, seq[1:])):
                return False    # after a reported error the reader went on and named a line that holds no violation (or went backwards)
        return exp["line_lo"] <= got["line"] <= exp["line_hi"]
    return True




def model_request(c):
    if c["op"] == "custom_pair":
        return None
    if c["op"] != "read":
        return c
    if c.get("via") == "read_on":
        return None        # reading on after an error: decided against the oracle (every reported line holds a violation)
    if c.get("via") == "count":
        return None        # 600 kB files: decided against the oracle (exact line known), the list-based Lean model is slow on them
    body = "".join(c["ents"])
    if not c["nl"]:
        body = body[:-1]
    data = [ord(ch) for ch in body]
    mode = "carry" if c["gz"] else "seek"
    if c["fmt"] in LINES:
        return {"op": "kline_read", "n": LINES[c["fmt"]], "marker": ord("@" if c["fmt"] == "fastq" else ">"), "plus": c["fmt"] == "fastq",
                "mode": mode, "file": data, "k": c["k"], "via": "whole" if c.get("via") == "whole" else "chunks"}
    cols = [l.count("\t") + 1 for l in body.split("\n") if l != "" or True][:body.count("\n") + (0 if body.endswith("\n") else 1)]
    if c["kind"] == "multi":
        return {"op": "delim_read", "mode": mode, "file": data, "k": c["k"], "bad": sorted({i for i, _ in c["viol"]}), "cols": cols, "colcheck": True}
    if c["kind"] in ("nonnum", "strand") or c["kind"].startswith("tok:"):
        return {"op": "delim_read", "mode": mode, "file": data, "k": c["k"], "bad": [c["i"]], "cols": cols, "colcheck": c["fmt"] != "sam"}
    if c["k"] > len(data) + 1:      # the whole file is one buffer: the column check decides alone
        return {"op": "delim_read", "mode": mode, "file": data, "k": c["k"], "bad": [], "cols": cols, "colcheck": c["fmt"] != "sam"}
    return None


def agree_model(c, got, m):
    if c["op"] != "read":
        return got == m
    if c["kind"].startswith("tok:") and isinstance(got, dict) and str(got.get("err", "")).startswith("other:"):
        # the property only demands *an* error for a non-numeric value; which texts the library diagnoses as a
        # FormatException (with a line) rather than another exception is not modelled
        return True
    if (c["kind"].startswith("trunc:") or c["kind"] == "plus_del") and isinstance(got, dict) and str(got.get("err", "")).startswith("other:"):
        # a truncated record must raise; the line is constrained only when the library diagnoses it as a format error
        return True
    if isinstance(got, dict) and isinstance(m, dict) and str(got.get("err", "")).startswith("other:") and m.get("err") == "other":
        return True       # f.read() of a file without a single complete record: "no complete entry" in both
    return core.canon(got) == core.canon(m)


def finding_key(c, got, exp):
    if c["op"] == "custom_pair":
        return "custom-header-format:" + ("after-reading-another-table-type" if c["first"] else "single") + (":yields-table" if isinstance(got, dict) and "table" in got else ":wrong-line")
    if c["op"] != "read":
        return c["op"]
    if isinstance(got, dict) and "lost" in got:
        return "exception:line-number-lost-by-" + got["lost"].split(":")[0]
    if isinstance(got, dict) and got.get("later") and c.get("via") == "read_on":
        return "read-on-after-error:later-line-wrong"
    if c["kind"] == "multi" and c["fmt"] not in LINES and isinstance(got, dict) and got.get("err") == "format" \
            and got["line"] in [i for i, _ in c["viol"]]:
        return "multi:delimited-cross-column:later-violation-named"
    if isinstance(got, dict) and "table" in got:
        if c["kind"].startswith("ncols"):
            return "ncols:mixed-in-one-chunk" if _chunk_mixed(c) else "ncols:chunk-local-uniform"
        return f"{c['kind']}:yields-table"
    return f"{c['kind']}:wrong-line"


def tags(c, got):
    """input distribution recorded in the evidence"""
    t = ["op:" + c["op"]]
    if c["op"] == "read":
        kind = c["kind"].split(":")[0] + (":col" + c["kind"].split(":")[1] if c["kind"].startswith("tok:") else "")
        L = sum(len(e) for e in c["ents"])
        t += ["fmt:" + c["fmt"], "violation:" + kind, "via:" + c.get("via", "read_chunks"), "gz" if c["gz"] else "plain", "lazy" if c["lazy"] else "eager",
              "bad-record:" + ("first" if c["i"] == 0 else "last" if c["i"] == len(c["ents"]) - 1 else "middle"),
              "k:" + ("1" if c["k"] == 1 else "<file" if c["k"] < L else ">=file")]
    if isinstance(got, dict):
        t.append("outcome:" + ("FormatException" if got.get("err") == "format" else str(got.get("err")) if "err" in got else "table"))
    return t
