"""C07 — encoded arrays behave like NumPy arrays of characters."""
import itertools
import numpy as np
from .. import core
from ..core import SKIP

ID = "C07"
PARALLEL = 16
RULE = ("lists of 0..4 strings of length 0..5 (all-empty rows, single row, empty list) over BaseEncoding, ACGT, ACGTN and amino-acid encodings x "
        "programs of 1..4 (thorough: 1..8) operations drawn from {row int/slice/mask/fancy index, column slice incl. negative steps and "
        "reversal, column int on a row selection, concatenate, ravel, copy, row / row-slice / flat item assignment, append, insert} with "
        "in-range, negative and empty selections (10% out-of-range), then an observation (decoded text, == character, str_equal); exhaustive "
        "over every single operation with every index in [-len-1, len] on a fixed set of values; strops split/join. Non-trivial = >= 2 ops, "
        "unequal row lengths, or an empty row/selection")
EXHAUSTIVE = {"quick": False, "thorough": False}
MODEL_OPS = {"program", "eqchar", "observe_m", "strequal", "split", "join"}
ASSUMPTIONS = ["npstructures RaggedArray indexing/assignment and NumPy indexing are specified (Base/PySlice + Model/C07.apply), not verified; "
               "every use is exercised against the Python list-of-strings oracle",
               "decode tables of the alphabet encodings are injective (C06.gen_tables_ok)",
               "StringArray wraps NumPy fixed-width byte strings, which cannot hold a trailing NUL: NUL is excluded from the StringArray cases only "
               "(encoded arrays are exercised with NUL and DEL, also at the end of a row)"]
MANIFEST = {
    "text": "Lean 4: a model of every supported structural operation on encoded (ragged) arrays over Python/NumPy index semantics "
            "(normIdx, CPython slice adjustment, masks, fancy lists, scatter assignment with broadcast) and theorem C07.natural / C07.programs: "
            "for EVERY value, EVERY finite operation sequence and every element map (decoding), running the program on codes and decoding "
            "equals running it on the decoded text, failing at the same step; C07.eq_char / strEqual_map: comparison on codes equals "
            "comparison on text for injective decode tables; C07.slice_in_range, reverse_slice: slices never leave the sequence and "
            "[::-1] is reversal; C07.split_join. Correspondence: real EncodedArray/EncodedRaggedArray programs vs the Lean model vs a "
            "Python list-of-strings oracle written with Python's own slicing.",
    "note": "The ragged indexing engine itself is npstructures (external): the theorem is about the model of bionumpy's wrapping over the "
            "specified index semantics; detection of changes inside /repo is by the correspondence. Result encoding = operand encoding is "
            "checked on the implementation.",
    "technique": "Lean 4 naturality proof over an operation algebra (cases + induction over programs) + differential correspondence",
    "design": "§6 C07",
}

ENCS = ["BaseEncoding", "ACGTEncoding", "ACGTnEncoding", "AminoAcidEncoding"]
ALPH = {"BaseEncoding": "ACGTNacgtn,;|xyz01\x00\x7f",      # incl. NUL and DEL: text is bytes, not C strings (a row may END with NUL)
         "ACGTEncoding": "ACGT", "ACGTnEncoding": "ACGTN", "AminoAcidEncoding": "ACDEFGHIKLMNPQRSTVWY*"}


OTHER_ENC = {"ACGTEncoding": "ACTGEncoding", "ACGTnEncoding": "ACTGnEncoding", "BaseEncoding": "ACTGEncoding"}
ALPH_OTHER = {"ACTGEncoding": "ACTG", "ACTGnEncoding": "ACTGN"}


def _enc(name):
    import bionumpy as bnp
    from bionumpy.encodings import alphabet_encoding as ae
    from bionumpy.encoded_array import BaseEncoding
    return BaseEncoding if name == "BaseEncoding" else getattr(ae, name)


def _dec_table(name):
    if name == "BaseEncoding":
        return list(range(256))
    return [ord(c) for c in ALPH[name]]


# ------------------------------------------------------------------ oracle: Python lists of strings
class Bad(Exception):
    pass


class Refused(Exception):
    pass


def _norm(n, i):
    if -n <= i < n:
        return i % n if n else None
    raise Bad()


def _resolve(n, ix):
    t = ix["t"]
    if t == "int":
        return [_norm(n, ix["i"])]
    if t == "slice":
        if ix["s"] == 0:
            raise Bad()
        return list(range(n))[slice(ix["a"], ix["b"], ix["s"])]
    if t == "mask":
        if len(ix["m"]) != n:
            raise Bad()
        return [k for k, b in enumerate(ix["m"]) if b]
    return [_norm(n, i) for i in ix["is"]]


def _fit(n, v):
    if len(v) == n:
        return list(v)
    if len(v) == 1:
        return list(v) * n
    raise Bad()


def o_apply(val, op):
    kind, x = val
    o = op["o"]
    if o == "index":
        ix = op["ix"]
        if kind == "scalar":
            raise Bad()
        pos = _resolve(len(x), ix)
        if ix["t"] == "int":
            return ("flat", list(x[pos[0]])) if kind == "rag" else ("scalar", x[pos[0]])
        return (kind, [x[p] if kind == "flat" else list(x[p]) for p in pos])
    if o == "colSlice" and kind == "rag":
        if op["s"] == 0:
            raise Bad()
        return ("rag", [r[slice(op["a"], op["b"], op["s"])] for r in x])
    if o == "colInt" and kind == "rag":
        sel = [x[p] for p in _resolve(len(x), op["rows"])]
        return ("flat", [r[_norm(len(r), op["j"])] for r in sel])
    if o == "concat" and kind in ("flat", "rag"):
        w = op["w"]
        if w["t"] != kind:
            raise Bad()
        return (kind, x + (w["l"] if kind == "flat" else [list(r) for r in w["r"]]))
    if o == "ravel" and kind in ("flat", "rag"):
        return ("flat", [c for r in x for c in r] if kind == "rag" else list(x))
    if o == "copy":
        return val
    if o == "setRow" and kind == "rag":
        p = _norm(len(x), op["i"])
        y = [list(r) for r in x]
        y[p] = _fit(len(x[p]), op["v"])     # NumPy assignment: same length, or one value broadcast (also into an empty row)
        return ("rag", y)
    if o == "setRowSlice" and kind == "rag":
        p = _norm(len(x), op["i"])
        row = list(x[p])
        pos = list(range(len(row)))[slice(op["a"], op["b"], 1)]
        for k, c in zip(pos, _fit(len(pos), op["v"])):
            row[k] = c
        y = [list(r) for r in x]
        y[p] = row
        return ("rag", y)
    if o == "setFlat" and kind == "flat":
        pos = _resolve(len(x), op["ix"])
        y = list(x)
        for k, c in zip(pos, _fit(len(pos), op["v"])):
            y[k] = c
        return ("flat", y)
    if o == "append" and kind == "flat":
        return ("flat", list(x) + list(op["v"]))
    if o == "insert" and kind == "flat":
        i, n = op["i"], len(x)
        if not -n <= i <= n:
            raise Bad()
        p = i + n if i < 0 else i
        return ("flat", list(x[:p]) + list(op["v"]) + list(x[p:]))
    raise Bad()


def o_run(val, ops):
    for op in ops:
        val = o_apply(val, op)
    return val


def _val_json(val, f=lambda c: c):
    kind, x = val
    if kind == "flat":
        return {"t": "flat", "l": [f(c) for c in x]}
    if kind == "rag":
        return {"t": "rag", "r": [[f(c) for c in r] for r in x]}
    return {"t": "scalar", "c": f(x)}


# ------------------------------------------------------------------ generators
def _rand_idx(rng, n, allow_int=True):
    kinds = ["slice", "slice", "mask", "list"] + (["int", "int"] if allow_int else [])
    t = rng.choice(kinds)
    if t == "int":
        if n == 0 or rng.random() < 0.1:
            return {"t": "int", "i": rng.choice([n, -n - 1, n + 2])}
        return {"t": "int", "i": rng.randrange(-n, n)}
    if t == "slice":
        pick = lambda: rng.choice([None, None, rng.randint(-n - 2, n + 2)])
        return {"t": "slice", "a": pick(), "b": pick(), "s": rng.choice([1, 1, 1, -1, 2, -2, 3])}
    if t == "mask":
        return {"t": "mask", "m": [rng.random() < 0.5 for _ in range(n)]}
    if n == 0:
        return {"t": "list", "is": []}
    k = rng.choice([0, 1, 2, 3, 5])
    lst = [rng.randrange(-n, n) for _ in range(k)]
    if lst and rng.random() < 0.08:
        lst[rng.randrange(len(lst))] = n
    return {"t": "list", "is": lst}


def _rand_op(rng, val, codes):
    kind, x = val
    rs = lambda k: [rng.choice(codes) for _ in range(k)]
    if kind == "rag":
        n = len(x)
        o = rng.choice(["index", "index", "index", "colSlice", "colSlice", "colInt", "concat", "ravel", "copy", "setRow", "setRowSlice"])
        if o == "index":
            return {"o": "index", "ix": _rand_idx(rng, n)}
        if o == "colSlice":
            m = max([len(r) for r in x] or [0])
            pick = lambda: rng.choice([None, None, rng.randint(-m - 1, m + 1)])
            return {"o": "colSlice", "a": pick(), "b": pick(), "s": rng.choice([1, 1, 1, -1, 2, -2])}
        if o == "colInt":
            rows = _rand_idx(rng, n, allow_int=False)
            m = min([len(r) for r in x] or [0])
            j = rng.randrange(-m, m) if m and rng.random() < 0.85 else rng.choice([0, -1, 1, m])
            return {"o": "colInt", "rows": rows, "j": j}
        if o == "concat":
            return {"o": "concat", "w": {"t": "rag", "r": [rs(rng.choice([0, 1, 3])) for _ in range(rng.choice([0, 1, 2]))]}}
        if o in ("ravel", "copy"):
            return {"o": o}
        if n == 0:
            return {"o": "copy"}
        i = rng.randrange(-n, n)
        L = len(x[i])
        if o == "setRow":
            return {"o": "setRow", "i": i, "v": rs(L if rng.random() < 0.9 else L + 1)}
        a, b = sorted([rng.randint(0, L), rng.randint(0, L)])
        a2 = a if rng.random() < 0.7 else a - L - (1 if rng.random() < 0.2 else 0)
        pos = list(range(L))[slice(a2, b, 1)]
        k = len(pos) if rng.random() < 0.7 else 1
        return {"o": "setRowSlice", "i": i, "a": a2, "b": b, "v": rs(k)}
    if kind == "flat":
        n = len(x)
        o = rng.choice(["index", "index", "index", "concat", "copy", "ravel", "setFlat", "setFlat", "append", "insert"])
        if o == "index":
            return {"o": "index", "ix": _rand_idx(rng, n)}
        if o == "concat":
            return {"o": "concat", "w": {"t": "flat", "l": rs(rng.choice([0, 1, 3]))}}
        if o in ("copy", "ravel"):
            return {"o": o}
        if o == "setFlat":
            ix = _rand_idx(rng, n)
            try:
                k = len(_resolve(n, ix))
            except Bad:
                k = 1
            return {"o": "setFlat", "ix": ix, "v": rs(k if rng.random() < 0.7 else 1)}
        if o == "append":
            return {"o": "append", "v": rs(rng.choice([0, 1, 2]))}
        return {"o": "insert", "i": rng.randint(-n - 1, n + 1), "v": rs(rng.choice([1, 2]))}
    return {"o": "copy"}


def _rand_value(rng, codes):
    shape = rng.choice(["rag", "rag", "rag", "flat"])
    if shape == "flat":
        return ("flat", [rng.choice(codes) for _ in range(rng.choice([0, 1, 2, 4, 6]))])
    n = rng.choice([0, 1, 1, 2, 3, 4])
    lens = [rng.choice([0, 0, 1, 2, 3, 5, 8]) for _ in range(n)]
    if rng.random() < 0.15:
        lens = [0] * n
    elif rng.random() < 0.12:
        lens = [1] * n      # every row exactly one character (round 9: a list of one-character rows must stay a list of rows)
    return ("rag", [[rng.choice(codes) for _ in range(l)] for l in lens])


def cases(tier, rng):
    big = tier in ("thorough", "widen")
    # 1. exhaustive single operations on fixed values
    for enc in ENCS:
        codes = list(range(len(ALPH[enc]))) if enc != "BaseEncoding" else [ord(c) for c in ALPH[enc]]
        c = codes
        fixed = [("rag", [[c[0], c[1], c[2], c[3]], [c[0], c[1]], [], [c[2], c[2], c[3], c[1], c[0]]]), ("rag", [[], []]), ("rag", [[c[1]]]),
                 ("flat", [c[0], c[1], c[2], c[3], c[0]]), ("flat", [])]
        for val in fixed:
            n = len(val[1])
            for i in range(-n - 1, n + 1):
                yield {"op": "program", "enc": enc, "v": _val_json(val), "ops": [{"o": "index", "ix": {"t": "int", "i": i}}]}
            rng_steps = (1, -1, 2, -2) if big else (1, -1, 2)
            for a, b, s in itertools.product([None] + list(range(-n - 1, n + 2)), [None] + list(range(-n - 1, n + 2)), rng_steps):
                if big or rng.random() < 0.25:
                    yield {"op": "program", "enc": enc, "v": _val_json(val), "ops": [{"o": "index", "ix": {"t": "slice", "a": a, "b": b, "s": s}}]}
                if val[0] == "rag" and (big or rng.random() < 0.25):
                    yield {"op": "program", "enc": enc, "v": _val_json(val), "ops": [{"o": "colSlice", "a": a, "b": b, "s": s}]}
            if val[0] == "flat":
                for i in range(-n - 2, n + 2):
                    yield {"op": "program", "enc": enc, "v": _val_json(val), "ops": [{"o": "insert", "i": i, "v": [c[1], c[2]]}]}
                    yield {"op": "program", "enc": enc, "v": _val_json(val), "ops": [{"o": "setFlat", "ix": {"t": "int", "i": i}, "v": [c[3]]}]}
    # 1b. every single column of every column-strided / reversed view of two long rows (and of a materialised copy of it)
    for enc in ENCS:
        codes = list(range(len(ALPH[enc]))) if enc != "BaseEncoding" else [ord(ch) for ch in ALPH[enc]]
        rows = [[codes[(i * 3 + k) % len(codes)] for k in range(L)] for i, L in enumerate((7, 6))]
        for st in (2, 3, -1, -2, -3):
            for a in (None, 1):
                base = [{"o": "colSlice", "a": a, "b": None, "s": st}] if (st > 0 or a is None) else [{"o": "colSlice", "a": None, "b": None, "s": st}]
                n_cols = min(len(r[slice(base[0]["a"], None, st)]) for r in rows)
                for j in range(-n_cols, n_cols):
                    for npint in (False, True):
                        yield {"op": "program", "enc": enc, "v": _val_json(("rag", rows)), "npint": npint,
                               "ops": base + [{"o": "colInt", "rows": {"t": "slice", "a": None, "b": None, "s": 1}, "j": j}]}
                        if not npint:
                            yield {"op": "program", "enc": enc, "v": _val_json(("rag", rows)),
                                   "ops": base + [{"o": "copy"}, {"o": "colInt", "rows": {"t": "list", "is": [1, 0]}, "j": j}]}
    # 2. random programs
    for _ in range(12000 if big else 1500):
        enc = rng.choice(ENCS)
        codes = list(range(len(ALPH[enc]))) if enc != "BaseEncoding" else [ord(ch) for ch in ALPH[enc]]
        val = _rand_value(rng, codes)
        ops, cur = [], val
        for _ in range(rng.randint(1, 8 if big else 4)):
            op = _rand_op(rng, cur, codes)
            ops.append(op)
            try:
                cur = o_apply(cur, op)
            except Bad:
                break
        kind = rng.choice(["program", "program", "eqchar", "copy_indep"])
        case = {"op": kind, "enc": enc, "v": _val_json(val), "ops": ops, "npint": rng.random() < 0.4, "from_str": rng.random() < 0.5,
                "from_rows": rng.random() < 0.3, "vform": rng.choice(["str", "str", "base", "enc", "enc_other"])}
        if kind == "copy_indep":
            # after the program: c = r.copy(); assign into c; the original r must be unchanged (and vice versa)
            try:
                cur_ok = cur if not isinstance(cur, Exception) else None
                asg = _rand_op(rng, cur, codes)
                tries = 0
                while asg["o"] not in ("setRow", "setRowSlice", "setFlat") and tries < 20:
                    asg = _rand_op(rng, cur, codes)
                    tries += 1
                if asg["o"] not in ("setRow", "setRowSlice", "setFlat"):
                    kind = case["op"] = "program"
                else:
                    case["asg"] = asg
                    case["into"] = rng.choice(["copy", "orig"])
            except Exception:
                kind = case["op"] = "program"
        if kind == "eqchar":
            case["c"] = rng.choice(codes)
        yield case
    # 2b. other observations of the result of a program: iteration, str(), tolist(), len(), == / != with a string of the same
    #     length or another array, np.where between two arrays; and the same row programs on a StringArray made from the rows
    for _ in range(6000 if big else 900):
        enc = rng.choice(ENCS)
        codes = list(range(len(ALPH[enc]))) if enc != "BaseEncoding" else [ord(ch) for ch in ALPH[enc]]
        val = _rand_value(rng, codes)
        ops, cur = [], val
        for _ in range(rng.randint(0, 6 if big else 3)):
            op = _rand_op(rng, cur, codes)
            try:
                nxt = o_apply(cur, op)
            except Bad:
                continue
            ops.append(op)
            cur = nxt
        obs = rng.choice(["iter", "str", "tolist", "len", "eqstr", "neqchar", "where", "eqarr"])
        case = {"op": "observe", "enc": enc, "v": _val_json(val), "ops": ops, "obs": obs, "npint": rng.random() < 0.3, "from_str": rng.random() < 0.5,
                "from_rows": rng.random() < 0.3, "vform": rng.choice(["str", "base", "enc"])}
        if obs in ("eqstr", "where", "eqarr"):
            if cur[0] != "flat":
                continue
            other = [ch if rng.random() < 0.6 else rng.choice(codes) for ch in cur[1]]
            case["s"] = other
            if obs == "where":
                case["m"] = [rng.random() < 0.5 for _ in cur[1]]
        if obs == "neqchar":
            case["c"] = rng.choice(codes)
        yield case
    # text is bytes: rows that end with / consist of NUL or DEL, through every conversion to strings
    for v in ({"t": "rag", "r": [[65, 0], [0], [67, 67, 67, 67], []]}, {"t": "rag", "r": [[0, 0]]}, {"t": "rag", "r": [[65, 127], [127]]},
              {"t": "flat", "l": [65, 0]}, {"t": "flat", "l": [0]}):
        for obs in ("tolist", "iter", "str", "len"):
            for ops in ([], [{"o": "index", "ix": {"t": "slice", "a": None, "b": None, "s": -1}}], [{"o": "copy"}]):
                if obs == "str" and v["t"] == "rag":
                    continue
                yield {"op": "observe", "enc": "BaseEncoding", "v": v, "ops": ops, "obs": obs, "from_str": False, "vform": "enc"}
    for _ in range(3000 if big else 500):
        enc = rng.choice(ENCS)
        codes = list(range(len(ALPH[enc]))) if enc != "BaseEncoding" else [ord(ch) for ch in ALPH[enc]]
        # StringArray wraps NumPy fixed-width byte strings ('S' dtype), which cannot hold a trailing NUL (NumPy strips it):
        # NUL is kept out of the StringArray cases (it stays in every EncodedArray / EncodedRaggedArray case)
        codes = [k for k in codes if not (enc == "BaseEncoding" and k == 0)]
        n = rng.choice([1, 1, 2, 3, 4, 6])
        rows = [[rng.choice(codes) for _ in range(rng.choice([0, 1, 2, 3, 5, 8]))] for _ in range(n)]
        if rng.random() < 0.1:
            rows = [[] for _ in rows]
        ops, cur = [], ("rag", rows)
        for _ in range(rng.randint(0, 5 if big else 3)):
            if cur[0] != "rag":
                break
            if rng.random() < 0.25:
                op = {"o": "concat", "w": {"t": "rag", "r": [[rng.choice(codes) for _ in range(rng.choice([0, 1, 3, 9]))] for _ in range(rng.choice([0, 1, 2]))]}}
            else:
                op = {"o": "index", "ix": _rand_idx(rng, len(cur[1]))}
            try:
                nxt = o_apply(cur, op)
            except Bad:
                continue
            ops.append(op)
            cur = nxt
        obs = rng.choice(["tolist", "tolist", "len", "eqstr", "isin", "eqarr"])
        case = {"op": "sa", "enc": enc, "v": _val_json(("rag", rows)), "ops": ops, "obs": obs}
        # the StringArray is made from a ragged array, from one flat encoded array (one string) or from a 2-d encoded array (equal
        # lengths); "alias": the source is overwritten after the conversion — the strings must not change (conversion copies)
        if len(rows) == 1 and rows[0]:
            case["src"] = rng.choice(["rag", "flat"])
        elif rows and rows[0] and len({len(r) for r in rows}) == 1:
            case["src"] = rng.choice(["rag", "matrix"])
        case["alias"] = rng.random() < 0.5
        if obs in ("eqstr", "isin"):
            pool = (cur[1] if cur[0] == "rag" else [cur[1]]) + rows
            case["s"] = list(rng.choice(pool)) if pool and rng.random() < 0.8 else [rng.choice(codes)]
            case["s2"] = [rng.choice(codes) for _ in range(2)]
        if obs == "eqarr":
            if cur[0] != "rag":
                continue
            case["rows2"] = [list(r) if rng.random() < 0.6 else [rng.choice(codes) for _ in range(rng.choice([0, 1, 2, 9]))] for r in cur[1]]
        yield case
    # 2c. str_equal of ONE sequence (1-d array / single row) with a string: every pair of strings of length 0..3 over two letters
    #     (a one-character operand must not be broadcast against a homopolymer)
    for enc in (ENCS if big else ENCS[:2]):
        codes = list(range(len(ALPH[enc]))) if enc != "BaseEncoding" else [ord(ch) for ch in ALPH[enc]]
        words = [[]] + [list(w) for n in (1, 2, 3) for w in itertools.product(codes[:2], repeat=n)]
        for a in words:
            for b in words:
                if not b:
                    continue
                yield {"op": "strequal", "enc": enc, "r": [a], "s": b, "single": True}
    # 2d. NumPy's spellings of concatenation on flat arrays and 2-d blocks (np.append with and without axis, concatenate, vstack, hstack)
    for _ in range(400 if big else 60):
        enc = rng.choice(ENCS)
        codes = list(range(len(ALPH[enc]))) if enc != "BaseEncoding" else [ord(ch) for ch in ALPH[enc]]
        w = rng.choice([1, 2, 3, 5])
        blk = lambda h: [[rng.choice(codes) for _ in range(w)] for _ in range(h)]
        flat = lambda n: [rng.choice(codes) for _ in range(n)]
        shape = rng.choice(["ff", "mm", "mm", "mf", "fm"])
        a = flat(rng.choice([0, 1, 4])) if shape[0] == "f" else blk(rng.choice([1, 2, 3]))
        b = flat(rng.choice([1, 3])) if shape[1] == "f" else blk(rng.choice([1, 2]))
        if shape == "mm":
            for f, axis in (("append", None), ("append", 0), ("concatenate", 0), ("concatenate", None), ("vstack", None)):
                yield {"op": "npjoin", "enc": enc, "a": a, "b": b, "f": f, "axis": axis}
        elif shape == "ff":
            for f, axis in (("append", None), ("concatenate", None), ("hstack", None), ("append", 0)):
                yield {"op": "npjoin", "enc": enc, "a": a, "b": b, "f": f, "axis": axis}
        else:
            yield {"op": "npjoin", "enc": enc, "a": a, "b": b, "f": "append", "axis": None}
    # 3. str_equal, split, join
    for _ in range(600 if big else 120):
        enc = rng.choice(ENCS)
        codes = list(range(len(ALPH[enc]))) if enc != "BaseEncoding" else [ord(ch) for ch in ALPH[enc]]
        rows = [[rng.choice(codes[:3]) for _ in range(rng.choice([0, 1, 2, 2, 3]))] for _ in range(rng.choice([1, 2, 4, 6]))]
        s = list(rng.choice(rows)) if rng.random() < 0.7 else [rng.choice(codes) for _ in range(2)]
        yield {"op": "strequal", "enc": enc, "r": rows, "s": s}
        base = [ord(ch) for ch in "ACGT"]
        rows2 = [[rng.choice(base) for _ in range(rng.choice([0, 1, 2, 4]))] for _ in range(rng.choice([1, 2, 3, 5]))]
        yield {"op": "join", "r": rows2, "sep": 44}
        flat = [c for r in rows2 for c in r + [44]][:-1]
        yield {"op": "split", "s": flat, "sep": 44}


def nontrivial(c):
    if c["op"] in ("program", "eqchar", "copy_indep", "observe", "sa"):
        v = c["v"]
        rag_uneven = v["t"] == "rag" and len({len(r) for r in v["r"]}) > 1
        return len(c["ops"]) >= 2 or rag_uneven or (v["t"] == "rag" and any(len(r) == 0 for r in v["r"]))
    return True


# ------------------------------------------------------------------ implementation
_FROM_STR = False
_FROM_ROWS = False


def _build(enc_name, vj):
    r = _build0(enc_name, vj)
    if _FROM_ROWS and vj["t"] == "rag" and vj["r"]:
        # round 9: the operand reassembled from its own rows (`as_encoded_array([r[0], r[1], …])`, the rows as 1-d encoded
        # arrays obtained by integer row indexing) — the same list of strings, whatever the row lengths (all of length one included)
        import bionumpy as bnp
        return bnp.as_encoded_array([r[i] for i in range(len(r))], _enc(enc_name))
    return r


def _build0(enc_name, vj):
    import bionumpy as bnp
    from bionumpy.encoded_array import EncodedArray, EncodedRaggedArray
    E = _enc(enc_name)
    if _FROM_STR:      # build through the public string entry (as users do), not from raw codes
        # (a BaseEncoding array made from a str literal is a read-only view of the Python bytes object — np.frombuffer —
        #  so, like the repository's own tests, take a copy before any item assignment; not counted against the property)
        if vj["t"] == "flat" and all(_dec_table(enc_name)[c] < 128 for c in vj["l"]):
            r = bnp.as_encoded_array(_text_of(vj["l"], enc_name), E)
            return r if r.raw().flags.writeable else r.copy()
        if vj["t"] == "rag" and vj["r"]:
            return bnp.as_encoded_array([_text_of(r, enc_name) for r in vj["r"]], E)
    dt = np.uint8
    if vj["t"] == "flat":
        return EncodedArray(np.array(vj["l"], dtype=dt), E)
    flat = [c for r in vj["r"] for c in r]
    return EncodedRaggedArray(EncodedArray(np.array(flat, dtype=dt), E), [len(r) for r in vj["r"]])


_NPINT = False


def _np_idx(ix):
    t = ix["t"]
    if t == "int":
        return np.int64(ix["i"]) if _NPINT else ix["i"]
    if t == "slice":
        return slice(ix["a"], ix["b"], ix["s"])
    if t == "mask":
        return np.array(ix["m"], dtype=bool)
    return list(ix["is"])


def _text_of(codes, enc_name):
    dec = _dec_table(enc_name)
    return "".join(chr(dec[c]) for c in codes)


def _observe(v, enc_name):
    from bionumpy.encoded_array import EncodedArray, EncodedRaggedArray
    E = _enc(enc_name)
    if not (v.encoding == E):
        return {"err": "encoding-changed"}
    if isinstance(v, EncodedRaggedArray):
        return {"text": {"t": "rag", "r": [[ord(ch) for ch in row.to_string()] for row in v]}}
    if v.data.ndim == 0:
        return {"text": {"t": "scalar", "c": ord(v.to_string())}}
    return {"text": {"t": "flat", "l": [ord(ch) for ch in v.to_string()]}}


def impl(c):
    global _NPINT, _FROM_STR, _FROM_ROWS
    _FROM_ROWS = False
    import bionumpy as bnp
    from bionumpy.encoded_array import EncodedArray, EncodedRaggedArray
    from bionumpy.io.strops import split, join, str_equal
    op = c["op"]
    if op == "npjoin":
        # NumPy's other spellings of concatenation on flat arrays and rectangular (2-d) blocks: np.append (axis None flattens),
        # np.concatenate / vstack along rows, np.hstack of flat arrays
        E = _enc(c["enc"])
        mk = lambda x: EncodedArray(np.array(x, dtype=np.uint8), E)
        a, b = mk(c["a"]), mk(c["b"])
        f = c["f"]
        if f == "append":
            r = np.append(a, b) if c["axis"] is None else np.append(a, b, axis=c["axis"])
        elif f == "concatenate":
            r = np.concatenate([a, b]) if c["axis"] is None else np.concatenate([a, b], axis=c["axis"])
        elif f == "vstack":
            r = np.vstack([a, b])
        else:
            r = np.hstack([a, b])
        if not isinstance(r, EncodedArray) or r.encoding != E:
            return {"err": "not-an-encoded-array-of-the-same-encoding"}
        return {"shape": [int(x) for x in r.shape], "codes": [int(x) for x in np.asarray(r.raw()).ravel()], "text": [int(x) for x in np.asarray(E.decode(r).raw()).ravel()]}
    if op == "strequal" and c.get("single"):
        one = _build(c["enc"], {"t": "flat", "l": c["r"][0]})
        other = _text_of(c["s"], c["enc"]) if c["enc"] == "BaseEncoding" else _build(c["enc"], {"t": "flat", "l": c["s"]})
        res = str_equal(one, other)
        return [bool(res)] if np.ndim(res) == 0 else {"err": "not-a-scalar", "value": [bool(x) for x in np.ravel(res)]}
    if op == "strequal":
        r = _build(c["enc"], {"t": "rag", "r": c["r"]})
        return [bool(b) for b in str_equal(r, _text_of(c["s"], c["enc"]) if c["enc"] == "BaseEncoding" else _build(c["enc"], {"t": "rag", "r": [c["s"]] * len(c["r"])}))]
    if op == "join":
        r = _build("BaseEncoding", {"t": "rag", "r": c["r"]})
        return [int(x) for x in join(r, sep=chr(c["sep"])).raw()]
    if op == "split":
        f = _build("BaseEncoding", {"t": "flat", "l": c["s"]})
        return [[int(x) for x in row.raw()] for row in split(f, sep=chr(c["sep"]))]
    enc = c["enc"]
    _NPINT = bool(c.get("npint"))
    _FROM_STR = bool(c.get("from_str"))
    _FROM_ROWS = bool(c.get("from_rows"))
    vform = c.get("vform", "str")

    def value(codes_):
        if vform == "enc_other":
            # the same TEXT, already encoded with ANOTHER alphabet (other code order): assigning it must give that text or raise
            text, other = _text_of(codes_, enc), OTHER_ENC.get(enc)
            if other and text and all(ch in ALPH_OTHER[other] for ch in text):
                from bionumpy.encodings import alphabet_encoding as ae
                return bnp.as_encoded_array(text, getattr(ae, other))
            return text
        if vform == "enc":
            return _build(enc, {"t": "flat", "l": codes_})
        if vform == "base":
            return bnp.as_encoded_array(_text_of(codes_, enc))
        return _text_of(codes_, enc)

    def step(v, o):
        k = o["o"]
        if k == "index":
            return v[_np_idx(o["ix"])]
        if k == "colSlice":
            return v[:, slice(o["a"], o["b"], o["s"])]
        if k == "colInt":
            return v[_np_idx(o["rows"]), (np.int64(o["j"]) if _NPINT else o["j"])]
        if k == "concat":
            return np.concatenate([v, _build(enc, o["w"])])
        if k == "ravel":
            return v.ravel()
        if k == "copy":
            return v.copy()
        if k in ("setRow", "setRowSlice", "setFlat"):
            val = value(o["v"])
            try:
                if k == "setRow":
                    v[o["i"]] = val
                elif k == "setRowSlice":
                    v[o["i"], slice(o["a"], o["b"])] = val
                else:
                    v[_np_idx(o["ix"])] = val
            except Exception:
                if vform == "enc_other" and not isinstance(val, str):
                    raise Refused()      # data in another alphabet may be refused (C06); it must never be stored as other letters
                raise
            return v
        if k == "append":
            return np.append(v, _build(enc, {"t": "flat", "l": o["v"]}))
        if k == "insert":
            return np.insert(v, o["i"], _build(enc, {"t": "flat", "l": o["v"]}))
        raise ValueError(k)

    if op == "sa":
        from bionumpy.string_array import string_array, StringArray
        try:
            src = c.get("src", "rag")
            if src == "flat":
                source = _build(enc, {"t": "flat", "l": c["v"]["r"][0]})
            elif src == "matrix":
                source = EncodedArray(np.array(c["v"]["r"], dtype=np.uint8), _enc(enc))
            else:
                source = _build(enc, c["v"])
            sa = string_array(source)
            if c.get("alias"):
                raw = (source.ravel() if isinstance(source, EncodedRaggedArray) else source).raw()
                if raw.size and raw.flags.writeable:
                    other = [k for k in (list(range(len(ALPH[enc]))) if enc != "BaseEncoding" else [ord(ch) for ch in ALPH[enc]]) if k != int(raw.ravel()[0])]
                    raw[...] = other[0]
            for o in c["ops"]:
                if o["o"] == "index":
                    sa = sa[_np_idx(o["ix"])]
                else:
                    sa = np.concatenate([sa, string_array(_build(enc, o["w"]))]) if o["w"]["r"] else np.concatenate([sa, string_array(np.array([], dtype="S"))])
                if not isinstance(sa, StringArray):
                    return {"err": "not-a-StringArray", "type": type(sa).__name__}
            obs = c["obs"]
            if obs == "tolist":
                return {"obs": sa.tolist()}
            if obs == "len":
                return {"obs": len(sa)}
            if obs == "lengths":
                L = sa.lengths
                return {"obs": int(L) if np.ndim(L) == 0 else [int(k) for k in L]}
            if obs == "eqstr":
                r = sa == _text_of(c["s"], enc)
                return {"obs": bool(r) if np.ndim(r) == 0 else [bool(b) for b in r]}
            if obs == "isin":
                r = np.isin(sa, [_text_of(c["s"], enc), _text_of(c["s2"], enc)])
                return {"obs": bool(r) if np.ndim(r) == 0 else [bool(b) for b in r]}
            if obs == "eqarr":
                r = sa == string_array([_text_of(r2, enc) for r2 in c["rows2"]])
                return {"obs": [bool(b) for b in r]}
        except Exception as e:
            return {"err": "index", "exc": type(e).__name__}
    if op == "observe":
        try:
            v = _build(enc, c["v"])
            for o in c["ops"]:
                v = step(v, o)
            if not (v.encoding == _enc(enc)):
                return {"err": "encoding-changed"}
            obs = c["obs"]
            if obs == "iter":
                return {"obs": [e.to_string() for e in v]}
            if obs == "str":
                return {"obs": str(v)}
            if obs == "tolist":
                return {"obs": v.tolist()}
            if obs == "len":
                return {"obs": len(v)}
            if obs == "neqchar":
                r = (v != chr(_dec_table(enc)[c["c"]]))
                if isinstance(v, EncodedRaggedArray):
                    return {"obs": {"t": "rag", "r": [[bool(b) for b in row] for row in r.tolist()]}}
                if v.data.ndim == 0:
                    return {"obs": {"t": "scalar", "c": bool(r)}}
                return {"obs": {"t": "flat", "l": [bool(b) for b in r]}}
            if obs == "eqstr":
                return {"obs": [bool(b) for b in (v == _text_of(c["s"], enc))]}
            if obs == "eqarr":
                return {"obs": [bool(b) for b in (v == _build(enc, {"t": "flat", "l": c["s"]}))]}
            if obs == "where":
                w = np.where(np.array(c["m"], dtype=bool), v, _build(enc, {"t": "flat", "l": c["s"]}))
                if not (w.encoding == _enc(enc)):
                    return {"err": "encoding-changed"}
                return {"obs": w.to_string()}
        except Refused:
            return {"refused": True}
        except Exception as e:
            return {"err": "index", "exc": type(e).__name__}
    if op == "copy_indep":
        try:
            v = _build(enc, c["v"])
            for o in c["ops"]:
                v = step(v, o)
            cp = v.copy()
            if c["into"] == "copy":
                cp = step(cp, c["asg"])
            else:
                v = step(v, c["asg"])
            a, b = _observe(v, enc), _observe(cp, enc)
            if "err" in a or "err" in b:
                return {"err": "index"}
            return {"orig": a["text"], "copy": b["text"]}
        except Refused:
            return {"refused": True}
        except Exception as e:
            return {"err": "index", "exc": type(e).__name__}
    try:
        v = _build(enc, c["v"])
        try:
            for o in c["ops"]:
                v = step(v, o)
        except Refused:
            return {"refused": True}
        if op == "eqchar":
            ch = chr(_dec_table(enc)[c["c"]])
            r = (v == ch)
            if isinstance(v, EncodedRaggedArray):
                return {"eq": {"t": "rag", "r": [[bool(b) for b in row] for row in r.tolist()]}}
            if v.data.ndim == 0:
                return {"eq": {"t": "scalar", "c": bool(r)}}
            return {"eq": {"t": "flat", "l": [bool(b) for b in r]}}
        return _observe(v, enc)
    except Exception as e:
        return {"err": "index", "exc": type(e).__name__}


def oracle(c):
    op = c["op"]
    if op == "npjoin":
        a, b = np.array(c["a"], dtype=np.int64), np.array(c["b"], dtype=np.int64)
        f = c["f"]
        r = (np.append(a, b) if c["axis"] is None else np.append(a, b, axis=c["axis"])) if f == "append" else \
            (np.concatenate([a, b]) if c["axis"] is None else np.concatenate([a, b], axis=c["axis"])) if f == "concatenate" else \
            np.vstack([a, b]) if f == "vstack" else np.hstack([a, b])
        dec = _dec_table(c["enc"])
        return {"shape": [int(x) for x in r.shape], "codes": [int(x) for x in r.ravel()], "text": [int(dec[x]) for x in r.ravel()]}
    if op == "strequal":
        return [r == c["s"] for r in c["r"]]
    if op == "join":
        out = []
        for i, r in enumerate(c["r"]):
            out += r + ([c["sep"]] if i < len(c["r"]) - 1 else [])
        return out
    if op == "split":
        out, cur = [], []
        for b in c["s"]:
            if b == c["sep"]:
                out.append(cur)
                cur = []
            else:
                cur.append(b)
        return out + [cur]
    dec = _dec_table(c["enc"])
    vj = c["v"]
    val = ("flat", [dec[x] for x in vj["l"]]) if vj["t"] == "flat" else ("rag", [[dec[x] for x in r] for r in vj["r"]])
    ops = []
    for o in c["ops"]:
        o2 = dict(o)
        if "v" in o2:
            o2["v"] = [dec[x] for x in o2["v"]]
        if "w" in o2:
            w = o2["w"]
            o2["w"] = {"t": w["t"], "l": [dec[x] for x in w["l"]]} if w["t"] == "flat" else {"t": "rag", "r": [[dec[x] for x in r] for r in w["r"]]}
        ops.append(o2)
    try:
        r = o_run(val, ops)
        if op == "copy_indep":
            asg = dict(c["asg"])
            if "v" in asg:
                asg["v"] = [dec[x] for x in asg["v"]]
            r2 = o_apply(r, asg)
    except Bad:
        return SKIP      # out-of-range index / ill-shaped assignment: the property quantifies over in-range programs only
    if op in ("observe", "sa"):
        try:
            return {"obs": _expect_obs(c, r)}
        except Bad:
            return SKIP
    if op == "copy_indep":
        if r[0] == "scalar":
            return SKIP
        return {"orig": _val_json(r2 if c["into"] == "orig" else r), "copy": _val_json(r2 if c["into"] == "copy" else r)}
    if op == "eqchar":
        ch = dec[c["c"]]
        return {"eq": _val_json(r, lambda x: x == ch)}
    return {"text": _val_json(r)}



def _expect_obs(c, r):
    """the observation `c["obs"]` of a result value r = (kind, x) with characters as ASCII codes; Bad = outside the domain"""
    kind, x = r
    obs = c["obs"]
    dec = _dec_table(c["enc"])
    txt = lambda l: "".join(chr(ch) for ch in l)
    if c["op"] == "sa":
        if obs == "tolist":
            return txt(x) if kind == "flat" else [txt(row) for row in x]
        if obs == "len":
            if kind != "rag":
                raise Bad()
            return len(x)
        if obs == "lengths":
            if kind != "rag":
                raise Bad()          # .lengths of a single (0-d) element is not an operation of the property
            return [len(row) for row in x]
        s1 = [dec[k] for k in c.get("s", [])]
        if obs == "eqstr":
            return (x == s1) if kind == "flat" else [row == s1 for row in x]
        if obs == "isin":
            pool = [s1, [dec[k] for k in c["s2"]]]
            return (x in pool) if kind == "flat" else [row in pool for row in x]
        if obs == "eqarr":
            return [row == [dec[k] for k in r2] for row, r2 in zip(x, c["rows2"])]
        raise Bad()
    if obs == "iter":
        if kind == "scalar":
            raise Bad()
        return [txt([ch]) for ch in x] if kind == "flat" else [txt(row) for row in x]
    if obs == "str":
        if kind == "rag":
            raise Bad()
        return txt(x) if kind == "flat" else chr(x)
    if obs == "tolist":
        return txt(x) if kind == "flat" else (chr(x) if kind == "scalar" else [txt(row) for row in x])
    if obs == "len":
        if kind == "scalar":
            raise Bad()
        return len(x)
    if obs == "neqchar":
        ch = dec[c["c"]]
        return _val_json(r, lambda y: y != ch)
    if kind != "flat":
        raise Bad()
    other = [dec[k] for k in c["s"]]
    if obs in ("eqstr", "eqarr"):
        return [a == b for a, b in zip(x, other)]
    if obs == "where":
        return txt([a if m else b for a, b, m in zip(x, other, c["m"])])
    raise Bad()


def _strip(x):
    return {k: v for k, v in x.items() if k != "exc"} if isinstance(x, dict) else x


def agree(c, got, exp):
    if isinstance(got, dict) and got.get("refused") and c.get("vform") == "enc_other":
        return True
    if c["op"] == "npjoin" and c["f"] in ("vstack", "hstack") and isinstance(got, str) and "no implementation found" in got:
        return True      # NumPy functions the encoded arrays do not support refuse loudly (TypeError from the dispatch): not an operation the property speaks about
    return core.canon(_strip(got)) == core.canon(exp)


def _obs_from_lean(m):
    """the Lean reply of `observe_m` in the harness's observation format"""
    if isinstance(m, dict) and "obs_text" in m:
        return {"obs": "".join(chr(x) for x in m["obs_text"])}
    return m


def _val_of_json(j):
    return ("flat", j["l"]) if j["t"] == "flat" else (("rag", j["r"]) if j["t"] == "rag" else ("scalar", j["c"]))


def agree_model(c, got, m):
    if isinstance(got, dict) and got.get("refused") and c.get("vform") == "enc_other":
        return True
    m = _obs_from_lean(m)
    if c["op"] in ("observe", "sa") and isinstance(m, dict) and "text" in m:
        try:
            m = {"obs": _expect_obs(c, _val_of_json(m["text"]))}
        except Bad:
            return True
    return core.canon(_strip(got)) == core.canon(m)


def agree_spec(c, sp, exp):
    sp = _obs_from_lean(sp)
    if c["op"] in ("observe", "sa") and isinstance(sp, dict) and "text" in sp:
        try:
            sp = {"obs": _expect_obs(c, _val_of_json(sp["text"]))}
        except Bad:
            return True
    return core.canon(sp) == core.canon(exp)


def model_request(c):
    if c["op"] == "copy_indep":
        return None      # aliasing is not observable in the pure model; decided against the oracle
    if c["op"] in ("program", "eqchar"):
        if isinstance(oracle(c), core.Skip):
            return None
        return dict(c, dec=_dec_table(c["enc"]))
    if c["op"] in ("observe", "sa"):
        if isinstance(oracle(c), core.Skip):
            return None
        if c["op"] == "observe" and c["obs"] in ("eqstr", "eqarr", "neqchar", "where", "len"):
            return dict(c, op="observe_m", dec=_dec_table(c["enc"]))      # the observation itself is computed by the Lean model
        return dict(c, op="program", dec=_dec_table(c["enc"]))
    return c


def finding_key(c, got, exp):
    if c["op"] == "sa":
        return "StringArray:" + c["obs"]
    if c["op"] == "observe" and not any(o["o"] == "colSlice" and o["s"] < 0 and (o["a"] is not None or o["b"] is not None) for o in c["ops"]):
        return "observe:" + c["obs"]
    if c["op"] not in ("program", "eqchar", "copy_indep", "observe"):
        return c["op"]
    if any(o["o"] == "colSlice" and o["s"] < 0 and (o["a"] is not None or o["b"] is not None) for o in c["ops"]):
        return "colSlice:negative-step-with-explicit-bounds"
    if c["op"] == "copy_indep":
        return "copy:not-independent-of-original" if not (isinstance(got, dict) and "err" in got) else "copy:raises"
    last = c["ops"][-1]["o"] if c["ops"] else "none"
    if isinstance(got, dict) and "err" in got and "err" not in exp:
        return f"{c['v']['t']}:{last}:raises-{got.get('exc', '')}"
    return f"{c['v']['t']}:{last}:wrong-result"


# ------------------------------------------------------------------ history / aliasing probe (see core.run_check)
def live_cases(tier, rng):
    out = []
    for c in cases("quick", rng):
        if c["op"] == "program" and len(c["ops"]) >= 1:
            out.append(c)
        if len(out) >= (3000 if tier in ("thorough", "widen") else 700):
            break
    return out


def impl_live(c):
    """the live result object of the program and a canonicaliser for it"""
    import bionumpy as bnp
    holder = {}
    orig_observe = _observe

    def run():
        global _observe
        captured = {}

        def spy(v, enc_name):
            captured["v"] = v
            return orig_observe(v, enc_name)
        _observe = spy
        try:
            impl(c)
        finally:
            _observe = orig_observe
        return captured.get("v")
    v = run()
    if v is None:
        raise ValueError("no live value")
    return v, (lambda obj: orig_observe(obj, c["enc"]))


def mutate_live(obj, c):
    """modify a program result in place through item assignment of another letter of the encoding"""
    from bionumpy.encoded_array import EncodedArray, EncodedRaggedArray
    flat = obj.ravel() if isinstance(obj, EncodedRaggedArray) else obj
    if not isinstance(flat, EncodedArray) or flat.data.ndim == 0 or flat.size == 0:
        return False
    raw = flat.raw()
    if not raw.flags.writeable:
        return False
    dec = _dec_table(c["enc"])
    if c["enc"] == "BaseEncoding":
        raw[0] = 65 if int(raw[0]) != 65 else 67
    else:
        raw[0] = (int(raw[0]) + 1) % len(ALPH[c["enc"]])
    return True


def tags(c, got):
    """input distribution recorded in the evidence"""
    t = ["op:" + c["op"]]
    if "enc" in c:
        t.append("enc:" + c["enc"])
    if "ops" in c:
        t.append("program-length:" + str(min(len(c["ops"]), 6)))
        t += ["step:" + o["o"] + (":" + o["ix"]["t"] if o["o"] in ("index", "setFlat") else "") for o in c["ops"]]
    if "v" in c:
        v = c["v"]
        t.append("value:" + v["t"] + (":empty-rows" if v["t"] == "rag" and any(len(r) == 0 for r in v["r"]) else ""))
    if "obs" in c:
        t.append("obs:" + c["obs"])
    if c.get("from_rows") and "v" in c and c["v"]["t"] == "rag" and c["v"]["r"]:
        t.append("built:from-rows" + (":all-one-char" if all(len(r) == 1 for r in c["v"]["r"]) else ""))
    if isinstance(got, dict):
        t.append("outcome:" + ("raises" if "err" in got else "returns"))
    return t
