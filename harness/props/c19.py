"""C19 — tables of entries behave like column-aligned NumPy records."""
import dataclasses
import itertools

import numpy as np

from .. import core
from ..core import SKIP

ID = "C19"
PARALLEL = 16
CASE_TIMEOUT_S = 60
RULE = ("exhaustive: every table type (every bnpdataclass of bionumpy.datatypes whose field types are supported + dynamically made "
        "classes covering string, identifier, int, float, bool, Optional, list-of-int, encoded, strand and nested-table columns) "
        "x 0..3 rows x every single operation of a fixed list (int-list / negative / slice / mask indexing, masks from "
        "field == / != / isin, concatenate on either side incl. empty operands, sort_by each sortable field, replace each field, "
        "add_fields, invalid index / mask / length) x every final conversion (tolist, iteration, todict/from_dict, pandas round "
        "trip, from_entry_tuples); the four view makers (t[[2,0,1]], t[mask], t[1:], t[::-1]) x every operation with nothing "
        "read in between; seeded random programs of 2-6 operations on 0..12 rows (half of them on fresh views); rows<->table "
        "round trips (incl. no rows, wrong width); every field kind x every argument form of the constructor and every "
        "argument form of add_fields without a type map (both tabulated into Gen/C19.lean); encoded data in another alphabet "
        "around the first differing letter into construction / replace / add_fields; sort_by text keys (prefix relations, "
        "equal-length keys in alphabets whose code order is not the letter order, one-letter rows, one 500 kB row); two "
        "add_fields calls with different types; nested classes to depth 3 through dict and pandas; narrow_type, "
        "dynamic_concatenate, apply_to_npdataclass; history pairs; every one of these table programs and single-entry picks also on "
        "the same table in its two other provenances: written as tab-separated text and LAZILY read back (bnp.open(..., buffer_type="
        "get_bufferclass_for_datatype(cls)).read(); concatenation with a second lazily read / an in-memory operand), and built from "
        "text columns handed over as EncodedArray / EncodedRaggedArray over character codes in int16/int32/int64/uint16/uint32; "
        "the row number of t[i] / column[i] as Python int and as NumPy scalar of nine integer types; wide-code text into every "
        "text kind through constructor / replace / add_fields (same text or raise); two more provenances: copy.deepcopy of the "
        "table (owns copies of its encoding objects) and encoded columns handed over already encoded with the library's singleton "
        "encodings, incl. a type whose fields are declared with the user's own equal-but-not-identical AlphabetEncoding objects "
        "(D_own), down to 0 rows / letterless rows; operands that had set_context / a failed get_context called before "
        "each operation (ctx; the context must still be there afterwards). sort_by orders numeric fields by value and text fields as "
        "byte strings. Non-trivial = >= 2 ops on a table with >= 2 column kinds, or an empty / single-row operand")
EXHAUSTIVE = {"quick": False, "thorough": False}
MODEL_OPS = {"program", "roundtrip", "dict", "pick", "sort_float"}
ASSUMPTIONS = [
    "per-column indexing / concatenation (NumPy, npstructures RaggedArray, EncodedArray, StringArray) has its list-level meaning",
    "Python-level index normalisation (negative ints, slice.indices) is the runtime's: the model receives index lists",
    "np.argsort orders distinct keys like a stable sort; generated sort keys are distinct unless whole rows are identical",
    "pandas DataFrame construction / to_dict('series') preserve column contents",
]
TRUSTED_EXTRA = ["cell contents are compared as Python values (str / int / float bit pattern / bool / list / nested tuple)"]
MANIFEST = {
    "text": "Lean 4 theorems over a column-major table model (any cell type, any size): every operation and every finite program "
            "preserves 'all columns equally long' (inv); indexing, boolean masking, masks from field comparisons, concatenation, sort_by (numeric fields by "
            "value, text fields as byte strings), replace and add_fields act on whole rows (toRows (op t) = op_rows (toRows t)); "
            "sort_by yields a permutation of the rows with non-decreasing key, is stable and idempotent and never fails on an "
            "existing field; take/mask/replace raise exactly when (none_iff); t[iy][ix] = t[iy[ix]], t[range] = t, concat is "
            "associative; "
            "rows->table->rows and table->rows->table are identities (zip(*.) twice), including the empty table; "
            "from_dict(todict(t)) = t for arbitrarily nested table fields (dotted keys split at the first dot, level by level; "
            "needs dot-free distinct field names, refuted otherwise). Typed construction: the dispatch of "
            "_implicit_format_conversion is re-tabulated from the running code on every run (10 field kinds x 30 argument forms, text also as bytes / object arrays / NumPy str_ scalars / raw identifier bytes "
            "-> class of the stored column or raise; add_fields type inference x 14 forms; Gen/C19.lean) and the kernel re-checks 'converts to the declared type or "
            "raises' over the whole table with per-kind declared classes (int -> integer array, float -> float array, bool -> bool array, ...), "
            "except the explicitly listed cells of the recorded findings (20 cells keep another numeric dtype, 42 store the argument "
            "unconverted: construct_census; no listed cell is stale: construct_whitelists_tight). The whole program interpreter on columns "
            "equals the row-wise interpreter on entries, in rows, width and failure (run_refines_rows; the row interpreter is the "
            "Spec side the driver runs); table[i] for an integer i = rows[i], IndexError exactly outside -n <= i < n "
            "(pyIndex_none_iff, pick_refines_rows). Correspondence: the real "
            "classes of bionumpy.datatypes and dynamically made ones with every column kind, 0..N rows, single operations "
            "exhaustively and random programs, nested classes up to depth 3, against the Lean model, the Lean row-level spec and a "
            "pure-Python list-of-tuples oracle; every final conversion (tolist, iteration, dict, pandas, entry tuples) must "
            "reproduce the same rows and operands must be unchanged; the same programs on lazily read tables (file readers' "
            "table class) and on tables whose text columns hold wide integer character codes.",
    "note": "Per-type indexing/concatenation lives in npstructures and the column classes (externals, exercised by the "
            "correspondence); pandas DataFrame construction / to_dict('series') are assumed content-preserving. Sort ties between "
            "different rows are not exercised (NumPy's default sort is not stable). The pandas round trip and 'operands unchanged' "
            "have no Lean counterpart (pandas is an external; the model is functional): correspondence only (Audit/C19.lean).",
    "technique": "Lean 4 proofs (transpose / gather algebra, induction over programs, mutual recursion over nested tables) + kernel-checked obligation over a dispatch table regenerated from source + differential correspondence with the real table classes",
    "design": "§6 C19",
}

_CACHE = {}

DYN = [
    ("D_all", ["str", "sid", "int", "float", "bool", "opt", "li", "dna", "strand", "inner"]),
    ("D_num", ["int", "float"]),
    ("D_txt", ["sid", "str"]),
    # tables whose columns are ALL text / encoded text (no numeric or identifier column raises on their behalf)
    ("D_seq", ["str", "dna"]),
    ("D_one", ["str"]),
    ("D_rag", ["int", "li", "dna"]),
    ("D_nest", ["int", "inner", "sid"]),
    # integers beyond 2**53 (ids, hashes) and 32-bit edges, handed over as list / int64 / object array / pandas object column
    ("D_big", ["bigint", "sid", "float", "int"]),
    # fields declared with the USER'S OWN alphabet encoding objects, equal to the library's singletons but not identical
    ("D_own", ["int", "dna2", "strand2", "str"]),
]


def _mods():
    if "m" in _CACHE:
        return _CACHE["m"]
    import inspect
    from typing import List, Optional
    import bionumpy as bnp
    from bionumpy import datatypes as dt
    from bionumpy.bnpdataclass import bnpdataclass, BNPDataClass, make_dataclass
    from bionumpy.typing import SequenceID
    from bionumpy.encodings import DNAEncoding, StrandEncoding
    from bionumpy.encodings.alphabet_encoding import AlphabetEncoding

    @bnpdataclass
    class Inner:
        a: int
        s: str

    pytype = {"str": str, "sid": SequenceID, "int": int, "bigint": int, "float": float, "bool": bool, "opt": Optional[int],
              "li": List[int], "dna": DNAEncoding, "strand": StrandEncoding, "inner": Inner,
              "dna2": AlphabetEncoding("ACGT"), "strand2": type(StrandEncoding)("+-.")}
    assert pytype["dna2"] == DNAEncoding and pytype["dna2"] is not DNAEncoding and pytype["strand2"] == StrandEncoding
    classes = {}
    for name, kinds in DYN:
        cls = make_dataclass([("f%d" % i, pytype[k]) for i, k in enumerate(kinds)], name=name)
        classes[name] = (cls, kinds, ["f%d" % i for i in range(len(kinds))])
    for name in sorted(dir(dt)):
        o = getattr(dt, name)
        if not (inspect.isclass(o) and issubclass(o, BNPDataClass) and o is not BNPDataClass):
            continue
        kinds = []
        for f in dataclasses.fields(o):
            k = None
            for kk, t in pytype.items():
                try:
                    if f.type == t:
                        k = kk
                        break
                except Exception:
                    pass
            kinds.append(k)
        if all(k is not None for k in kinds):
            classes[name] = (o, kinds, [f.name for f in dataclasses.fields(o)])
    m = dict(bnp=bnp, classes=classes, Inner=Inner, pytype=pytype, BNPDataClass=BNPDataClass)
    _CACHE["m"] = m
    return m


def type_names():
    return sorted(_mods()["classes"])


# ---------------------------------------------------------------- typed construction: behavioural tabulation

KIND_ORDER = ["str", "sid", "int", "float", "bool", "opt", "li", "dna", "strand", "inner"]


ALPHAS = ["ACGTEncoding", "ACTGEncoding", "ACGTnEncoding", "ACTGnEncoding", "ACUGEncoding", "AminoAcidEncoding",
          "CigarOpEncoding", "BamEncoding", "DigitEncoding"]


def _alpha(name):
    from bionumpy.encodings import alphabet_encoding as ae
    return getattr(ae, name)


def _alphabet(name):
    return "".join(_alpha(name).get_alphabet())


def _forms():
    """argument forms a constructor may be given (each a zero-argument factory of a 2-row column)"""
    import pandas as pd
    from npstructures import RaggedArray
    from bionumpy.string_array import as_string_array
    m = _mods()
    bnp, Inner = m["bnp"], m["Inner"]
    return {
        "list_str": lambda: ["ACG", "T"],
        "list_int": lambda: [1, 2],
        "list_float": lambda: [1.5, 2.0],
        "list_bool": lambda: [True, False],
        "list_none": lambda: [None, 3],
        "nd_int": lambda: np.array([1, 2]),
        "nd_float": lambda: np.array([1.5, 2.0]),
        "nd_bool": lambda: np.array([True, False]),
        "nd_str": lambda: np.array(["ACG", "T"]),
        "nd_obj_int": lambda: np.array([1, 2], dtype=object),
        "series_obj_int": lambda: pd.Series([1, 2], dtype=object),
        "actg_ragged": lambda: bnp.as_encoded_array(["ACT", "A"], _alpha("ACTGEncoding")),      # other alphabet, shared prefix AC
        "actg_flat": lambda: bnp.as_encoded_array("ACT", _alpha("ACTGEncoding")),
        "encoded_ragged": lambda: bnp.as_encoded_array(["ACG", "T"]),
        "dna_ragged": lambda: bnp.as_encoded_array(["ACG", "T"], bnp.DNAEncoding),
        "string_array": lambda: as_string_array(["ACG", "T"]),
        "ragged_int": lambda: RaggedArray([[1], [2, 3]]),
        "list_list_int": lambda: [[1], [2, 3]],
        "table": lambda: Inner([1, 2], ["a", "b"]),
        "list_entries": lambda: Inner([1, 2], ["a", "b"]).tolist(),
        "series_str": lambda: pd.Series(["ACG", "T"], dtype="string"),
        "series_int": lambda: pd.Series([1, 2]),
        "strand_str": lambda: ["+", "-"],
        # text in its other carriers: byte strings (kind 'S'), Python objects holding str / bytes, NumPy str_ scalars,
        # the raw bytes of an identifier column, a 0-filled fixed-width byte matrix
        "list_bytes": lambda: [b"ACG", b"T"],
        "nd_bytes": lambda: np.array([b"ACG", b"T"]),
        "nd_obj_str": lambda: np.array(["ACG", "T"], dtype=object),
        "nd_obj_bytes": lambda: np.array([b"ACG", b"T"], dtype=object),
        "list_npstr": lambda: [np.str_("ACG"), np.str_("T")],
        "sid_raw": lambda: as_string_array(["ACG", "T"]).raw(),
        "series_bytes": lambda: pd.Series([b"ACG", b"T"]),
    }


FORM_ORDER = ["list_str", "list_int", "list_float", "list_bool", "list_none", "nd_int", "nd_float", "nd_bool", "nd_str",
              "nd_obj_int", "series_obj_int", "actg_ragged", "actg_flat", "encoded_ragged", "dna_ragged", "string_array", "ragged_int", "list_list_int", "table", "list_entries",
              "series_str", "series_int", "strand_str",
              "list_bytes", "nd_bytes", "nd_obj_str", "nd_obj_bytes", "list_npstr", "sid_raw", "series_bytes"]

# the declared type's column classes (what "converted to its declared type" means for each field kind)
ALLOWED = {
    "str": ["encragged:base", "encragged:alpha", "encflat:base", "encflat:alpha"],
    "sid": ["stringarray", "encflat:base", "encflat:alpha"],
    "int": ["ndarray:i", "ndarray:u"],      # per field kind (audit review #20): an int field holds an integer array, ...
    "float": ["ndarray:f"],
    "bool": ["ndarray:b"],
    "opt": ["ndarray:b", "ndarray:i", "ndarray:u", "ndarray:f", "ndarray:O"],
    "li": ["ragged:b", "ragged:i", "ragged:u", "ragged:f", "ndarray:b", "ndarray:i", "ndarray:u", "ndarray:f"],
    "dna": ["encragged:alpha", "encflat:alpha"],
    "strand": ["encflat:alpha"],
    "inner": ["table"],
}


def _col_class(m, v):
    from npstructures import RaggedArray
    from bionumpy.string_array import StringArray
    from bionumpy.encoded_array import EncodedArray, EncodedRaggedArray
    bnp = m["bnp"]
    if isinstance(v, np.ndarray):
        return "ndarray:" + v.dtype.kind
    if isinstance(v, EncodedRaggedArray):
        return "encragged:" + ("base" if v.encoding == bnp.BaseEncoding else "alpha")
    if isinstance(v, EncodedArray):
        return "encflat:" + ("base" if v.encoding == bnp.BaseEncoding else "alpha")
    if isinstance(v, StringArray):
        return "stringarray"
    if isinstance(v, RaggedArray):
        return "ragged:" + v.dtype.kind
    if isinstance(v, m["BNPDataClass"]):
        return "table"
    return "other:" + type(v).__name__


def construct_outcome(kind, form):
    """class of the column a one-field table of this kind holds after construction from this form, or 'raise'"""
    from npstructures import RaggedArray
    from bionumpy.string_array import StringArray
    from bionumpy.encoded_array import EncodedArray, EncodedRaggedArray
    from bionumpy.bnpdataclass import make_dataclass
    m = _mods()
    bnp = m["bnp"]
    key = ("cls1", kind)
    if key not in _CACHE:
        _CACHE[key] = make_dataclass([("f", m["pytype"][kind])], name="One_" + kind)
    try:
        t = _CACHE[key](_forms()[form]())
        v = t.f
        len(t)
    except Exception:
        return "raise"
    if isinstance(v, np.ndarray):
        return "ndarray:" + v.dtype.kind
    if isinstance(v, EncodedRaggedArray):
        return "encragged:" + ("base" if v.encoding == bnp.BaseEncoding else "alpha")
    if isinstance(v, EncodedArray):
        return "encflat:" + ("base" if v.encoding == bnp.BaseEncoding else "alpha")
    if isinstance(v, StringArray):
        return "stringarray"
    if isinstance(v, RaggedArray):
        return "ragged:" + v.dtype.kind
    if isinstance(v, m["BNPDataClass"]):
        return "table"
    return "other:" + type(v).__name__


# add_fields WITHOUT a type map: the field type is inferred from the values ("for basic types, they can be inferred")
INFER_FORMS = ["list_int", "list_str", "list_float", "list_bool", "list_mixed", "nd_int", "nd_float", "nd_bool", "nd_str",
               "encoded_ragged", "dna_ragged", "list_dna_rows", "string_array", "list_list_int"]
# what the values naturally are: the classes a column inferred from them may have
INFER_ALLOWED = {
    "list_int": ["ndarray:i"], "nd_int": ["ndarray:i"], "list_float": ["ndarray:f"], "nd_float": ["ndarray:f"],
    "list_bool": ["ndarray:b"], "nd_bool": ["ndarray:b"], "list_mixed": ["ndarray:f", "raise"],
    "list_str": ["encragged:base", "stringarray"], "nd_str": ["encragged:base", "stringarray"],
    "encoded_ragged": ["encragged:base", "stringarray"], "string_array": ["encragged:base", "stringarray", "raise"],
    "dna_ragged": ["encragged:alpha"], "list_dna_rows": ["encragged:alpha"],
    "list_list_int": ["ragged:i", "raise"],      # not a "basic type": refusing is fine, a wrong class is not
}


def infer_outcome(form):
    """class of the column `Interval.add_fields({'extra': <form>})` (no type map) stores, or 'raise'"""
    m = _mods()
    bnp = m["bnp"]
    forms = dict(_forms())
    forms["list_mixed"] = lambda: [1.5, 2]
    forms["list_dna_rows"] = lambda: list(bnp.as_encoded_array(["ACG", "T"], bnp.DNAEncoding))
    try:
        t = m["classes"]["Interval"][0](["a", "b"], [1, 2], [3, 4])
        r = t.add_fields({"extra": forms[form]()})
        col = r.extra
        len(r)
        r.tolist()
    except Exception:
        return "raise"
    return _col_class(m, col)


def regenerate():
    rows = [(k, f, construct_outcome(k, f)) for k in KIND_ORDER for f in FORM_ORDER]
    irows = [(f, infer_outcome(f)) for f in INFER_FORMS]
    out = ["import BnpVerif.Model.C19",
           "/-! GENERATED on every run by harness/props/c19.py from the package imported from /repo: what the constructor of a",
           "one-field table of every field kind does with every argument form (class of the stored column, or `raise`).",
           "Do not edit. -/",
           "namespace Gen.C19", "",
           "def constructTable : List (String × String × String) := ["]
    out.append(",\n".join(f'  ("{k}", "{f}", "{o}")' for k, f, o in rows))
    out.append("]")
    out.append("\n/-- `add_fields` without a type map: argument form ↦ class of the inferred column (or `raise`) -/")
    out.append("def inferTable : List (String × String) := [")
    out.append(",\n".join(f'  ("{f}", "{o}")' for f, o in irows))
    out.append("]")
    out.append("\nend Gen.C19\n")
    return [("BnpVerif/Gen/C19.lean", "\n".join(out))]


# ---------------------------------------------------------------- cell values

def _b4(s):
    out = ""
    while True:
        out = "ACGT"[s % 4] + out
        s //= 4
        if s == 0:
            return out


def cell(kind, s):
    """the Python value a cell with code s has in a column of this kind"""
    if kind == "str":
        return "n%d" % s + "x" * (s % 3)
    if kind == "sid":
        return "id%03d" % s + "y" * (s % 3)      # varying width; order = order of the code
    if kind == "int":
        return s
    if kind == "bigint":             # 32-bit edges and integers that no double represents (|x| > 2**53), injective in s
        return [2 ** 31 - 1, 2 ** 31, 2 ** 32 + 1, 2 ** 53 + 1, 2 ** 62 + 3, -(2 ** 53) - 1, -(2 ** 31) - 1][s % 7] + 2 * (s // 7)
    if kind == "float":
        return s / 4
    if kind == "bool":
        return s % 2 == 0
    if kind == "opt":
        return 2 * s
    if kind == "li":
        return [s] * (s % 3)
    if kind in ("dna", "dna2"):
        return _b4(s)
    if kind in ("strand", "strand2"):
        return "+-."[s % 3]
    if kind == "inner":
        return (10 + s, "s%d" % s)
    raise ValueError(kind)


def canon_cell(kind, v):
    if kind == "float":
        return float(v).hex()
    if kind == "inner":
        return [int(v[0]), str(v[1])]
    if kind in ("int", "opt", "bigint"):
        return int(v)
    if kind == "bool":
        return bool(v)
    if kind == "li":
        return [int(x) for x in v]
    return str(v)


WIDE_DT = ["int16", "int32", "int64", "uint16", "uint32"]
WIDE_KINDS = ("str", "dna", "strand", "dna2", "strand2")
ENC_KINDS = {"dna": "dna", "dna2": "dna", "strand": "strand", "strand2": "strand"}      # kind -> the library's singleton encoding


def _wide_text(vals, dtype, flat=False):
    """the texts as an EncodedArray / EncodedRaggedArray the CALLER built from its own NumPy array of character codes
    (the documented EncodedArray constructor), the codes stored in an integer dtype wider than one byte"""
    from bionumpy.encoded_array import EncodedArray, EncodedRaggedArray, BaseEncoding
    codes = np.array([ord(ch) for v in vals for ch in v], dtype=np.dtype(dtype))
    if flat:
        return EncodedArray(codes, BaseEncoding)
    return EncodedRaggedArray(EncodedArray(codes, BaseEncoding), [len(v) for v in vals])


def _column(m, kind, seeds, wide=None):
    vals = [cell(kind, s) for s in seeds]
    if wide == "enc":
        if kind in ENC_KINDS:       # the column ALREADY encoded, with the library's module-level encoding object
            return m["bnp"].as_encoded_array("".join(vals) if ENC_KINDS[kind] == "strand" else vals, m["pytype"][ENC_KINDS[kind]])
    elif wide and kind in WIDE_KINDS:
        return _wide_text(vals, wide, flat=(kind in ("strand", "strand2")))
    if kind == "inner":
        return m["Inner"]([v[0] for v in vals], [v[1] for v in vals])
    if kind == "bigint":
        import pandas as pd
        how = (sum(seeds) + len(seeds)) % 4 if len(seeds) else 1
        if how == 0:
            return [int(v) for v in vals]
        if how == 1:
            return np.array(vals, dtype=np.int64)
        if how == 2:
            return np.array(vals, dtype=object)
        return pd.Series(vals, dtype=object)
    if kind in ("int", "opt"):
        return np.array(vals, dtype=int)
    if kind == "float":
        return np.array(vals, dtype=float)
    if kind == "bool":
        return np.array(vals, dtype=bool)
    if kind == "li" and not vals:
        return []
    return vals


class NotLazy(Exception):
    pass


def _wide_of(src):
    if src and src.startswith("enc"):
        return "enc"
    return src[5:] if src and src.startswith("wide:") else None


def file_type(tname):
    """can a table of this type be had from a delimited text file (the generic buffer class of its data class)?
    Nested-table columns have no text form; the GFF / GTF family is read eagerly by design (known finding of C04)."""
    kinds = _mods()["classes"][tname][1]
    return "inner" not in kinds and "bool" not in kinds and not tname.startswith(("GFF", "GTF")) and tname != "D_own"


def _cell_text(kind, s):
    v = cell(kind, s)
    if kind == "li":
        return ",".join(str(x) for x in v)
    if kind == "float":
        return repr(float(v))
    return str(v)


def _read_table(m, tname, cols):
    """the same table as the file readers hand it out: the rows written as tab-separated text (by this harness) and read
    with `bnp.open(..., buffer_type=get_bufferclass_for_datatype(cls)).read()` — a LAZILY parsed table of the same type"""
    import os
    import tempfile
    from bionumpy.io.delimited_buffers import get_bufferclass_for_datatype
    from bionumpy.bnpdataclass.lazybnpdataclass import LazyBNPDataClass
    cls, kinds, names = m["classes"][tname]
    key = ("buf", tname)
    if key not in _CACHE:
        _CACHE[key] = get_bufferclass_for_datatype(cls, delimiter="\t")
    n = len(cols[0]) if cols else 0
    fd, path = tempfile.mkstemp(suffix=".tsv", prefix="c19_")
    try:
        with os.fdopen(fd, "w") as f:
            for i in range(n):
                f.write("\t".join(_cell_text(k, c[i]) for k, c in zip(kinds, cols)) + "\n")
        with m["bnp"].open(path, buffer_type=_CACHE[key]) as f:
            t = f.read()
    finally:
        os.unlink(path)
    if n and not isinstance(t, LazyBNPDataClass):
        raise NotLazy(type(t).__name__)
    return t


def _table(m, tname, cols, src=None):
    cls, kinds, names = m["classes"][tname]
    if src == "file":
        return _read_table(m, tname, cols)
    wide = _wide_of(src)
    t = cls(*[_column(m, k, c, wide) for k, c in zip(kinds, cols)])
    if src and src.endswith("copy"):
        import copy
        t = copy.deepcopy(t)        # the copy owns copies of its columns' encoding objects (equal to, not identical with, the declared ones)
    return t


def _touch(t, ctx):
    """calls of the table's public interface that are NOT column operations, made on an operand before it is used:
    'set' = auxiliary information attached with set_context, 'get' = a look-up of a context name that is not there
    (a failed call: KeyError on in-memory tables, None on lazily read ones)"""
    import logging
    if not ctx:
        return
    logging.disable(logging.WARNING)      # get_context logs a deprecation line per call
    try:
        if ctx == "set":
            t.set_context("note", "n1")
        else:
            try:
                t.get_context("no_such_name")
            except KeyError:
                pass
            t.has_context("no_such_name")
    finally:
        logging.disable(logging.NOTSET)


def _ctx_kept(t, ctx):
    import logging
    if ctx != "set":
        return True
    logging.disable(logging.WARNING)
    try:
        return bool(t.has_context("note")) and t.get_context("note") == "n1"
    finally:
        logging.disable(logging.NOTSET)


def _dcls(t):
    """the table's data class (for a lazily read table: the class of the table with all columns loaded)"""
    from bionumpy.bnpdataclass.lazybnpdataclass import LazyBNPDataClass
    return type(t.get_data_object()) if isinstance(t, LazyBNPDataClass) else type(t)


def _py(v):
    """canonical Python value of one cell as the table reports it"""
    if dataclasses.is_dataclass(v):
        return tuple(_py(getattr(v, f.name)) for f in dataclasses.fields(v))
    if hasattr(v, "to_string"):
        return v.to_string()
    if isinstance(v, np.ndarray):
        return v.tolist() if v.ndim else v.item()
    if hasattr(v, "tolist") and not isinstance(v, (str, bytes)):
        return v.tolist()
    return v


def _rows_tolist(t, kinds):
    out = []
    for e in t.tolist():
        out.append([canon_cell(k, _py(getattr(e, f.name))) for k, f in zip(kinds, dataclasses.fields(e))])
    return out


def _rows_iter(t, kinds):
    out = []
    for e in t:
        out.append([canon_cell(k, _py(getattr(e, f.name))) for k, f in zip(kinds, dataclasses.fields(e))])
    return out


def _kinds_after(kinds, ops):
    kinds = list(kinds)
    for op in ops:
        if op["k"] == "add":
            kinds += op["kinds"]
    return kinds


# ---------------------------------------------------------------- oracle on rows (pure Python)

class Raise(Exception):
    pass


def _skey(kind, code):
    """what sort_by orders by: the number for numeric fields, the text (as bytes) for text fields"""
    v = cell(kind, code)
    return v.encode() if isinstance(v, str) else v


def _frank(x):
    """the place of a float among the values np.argsort orders: -inf < ... < -0.0 = 0.0 < ... < inf < nan (NaN last)"""
    x = float(x)
    if x != x:
        return [2, 0.0]
    return [0, x + 0.0] if x != 0 else [0, 0.0]


def _apply_rows(width, rows, op):
    k = op["k"]
    n = len(rows)
    if k == "take":
        if any(i >= n for i in op["ix"]):
            raise Raise()
        return width, [rows[i] for i in op["ix"]]
    if k == "mask":
        if len(op["m"]) != n:
            raise Raise()
        return width, [r for r, b in zip(rows, op["m"]) if b]
    if k in ("concat", "concatL"):
        o = op["other"]
        if len(o) != width or any(len(c) != len(o[0]) for c in o):
            raise Raise()
        orows = [list(r) for r in zip(*o)]
        return width, (rows + orows if k == "concat" else orows + rows)
    if k == "pred":
        if op["j"] >= width:
            raise Raise()
        keep = (lambda x: x not in op["vals"]) if op["how"] == "ne" else (lambda x: x in op["vals"])
        return width, [r for r in rows if keep(r[op["j"]])]
    if k == "sort":
        if op["j"] >= width:
            raise Raise()
        return width, sorted(rows, key=lambda r: _skey(op["kind"], r[op["j"]]))
    if k == "replace":
        if width == 1 and op["j"] == 0:
            return 1, [[x] for x in op["c"]]        # the only column: any length is a valid table
        if op["j"] >= width or len(op["c"]) != n:
            raise Raise()
        return width, [r[:op["j"]] + [x] + r[op["j"] + 1:] for r, x in zip(rows, op["c"])]
    if k == "add":
        new = op["new"]
        if not new or any(len(c) != n for c in new):
            raise Raise()
        return width + len(new), [r + [c[i] for c in new] for i, r in enumerate(rows)]
    raise ValueError(k)


def _run_rows(width, rows, ops):
    for op in ops:
        width, rows = _apply_rows(width, rows, op)
    return width, rows


def oracle(c):
    if c["op"] in ("program",):
        width = len(c["cols"])
        rows = [list(r) for r in zip(*c["cols"])]
        try:
            w, rows = _run_rows(width, rows, c["ops"])
        except Raise:
            return {"err": "raise"}
        return {"rows": rows, "width": w}
    if c["op"] == "roundtrip":
        if any(len(r) != c["width"] for r in c["rows"]):
            if len({len(r) for r in c["rows"]}) > 1:
                return SKIP          # ragged tuples: outside "rectangular input"
            return {"err": "raise"}
        return {"rows": c["rows"], "width": c["width"]}
    if c["op"] == "construct_enc":
        return {"same_text_or_raise": c["text"]}
    if c["op"] == "wide_text":
        return {"same_text_or_raise": c["texts"]}
    if c["op"] == "sort_text":
        order = sorted(range(len(c["texts"])), key=lambda i: c["texts"][i].encode())
        return {"ids": order, "texts": [c["texts"][i] for i in order]}
    if c["op"] == "pick":
        width = len(c["cols"])
        rows = [list(r) for r in zip(*c["cols"])]
        try:
            w, rows = _run_rows(width, rows, c["ops"])
        except Raise:
            return SKIP
        try:
            return {"row": rows[c["i"]]}          # Python's own list indexing: IndexError outside -n <= i < n
        except IndexError:
            return {"err": "index"}
    if c["op"] == "sort_float":
        keys = [float(x) for x in c["keys"]]
        return {"ranks": sorted(_frank(k) for k in keys)}
    if c["op"] == "add_twice":
        return {"each_honours_its_type": True}
    if c["op"] == "sort_long":
        return {"first": "n%d" % (c["rows"] - 2), "last": "n%d" % (c["rows"] - 1), "n": c["rows"]}
    if c["op"] == "dict":
        keys, cnt = [], [0]

        def walk(sch, prefix):
            for nm, sub in sch:
                if sub == "leaf":
                    keys.append(prefix + nm)
                    cnt[0] += 1
                else:
                    walk(sub, prefix + nm + ".")
        walk(c["schema"], "")
        return {"keys": keys, "leaves": list(range(cnt[0])), "roundtrip": True}
    if c["op"] == "util":
        if c["what"] == "narrow":
            return {"text": [c["text"]], "alpha": True} if c["ok"] else {"err": "raise"}
        seeds = [5 + i for i in range(c["n"])]
        if c["what"] == "dyncat":
            return {"rows": [[s_, s_] for s_ in seeds]}
        return {"rows": [[s_ + 1, s_] for s_ in seeds], "operand": [[s_, s_] for s_ in seeds]}
    if c["op"] == "infer_cell":
        return {"natural_class": True}
    if c["op"] == "construct_cell":
        return {"conforms_or_raises": True}
    if c["op"] == "construct":
        single = len(_mods()["classes"][c["type"]][1]) == 1
        if c["bad"] and not (single and c["bad"]["what"] == "len"):
            return {"err": "raise"}
        return {"ok": True}
    raise ValueError(c["op"])


# ---------------------------------------------------------------- cases

FINALS = ["tolist", "iter", "dict", "pandas", "tuples"]
PREDABLE = {"sid", "int", "float", "opt", "bigint"}      # fields whose `==`, `!=`, `np.isin` give a row mask
SORTABLE = {"int", "float", "opt", "sid", "str", "dna", "bigint", "dna2"}
ADDABLE = ["int", "str", "float", "bigint"]


TEXT_CARRIERS = ["list_str", "list_bytes", "nd_bytes", "nd_str", "nd_obj_str", "nd_obj_bytes", "list_npstr", "sid_raw", "digits_bytes"]


def _text_column(carrier):
    """two cells of text that is no number (and, last, text that LOOKS like numbers), in every carrier text comes in"""
    from bionumpy.string_array import as_string_array
    return {"list_str": lambda: ["zz", "y"], "list_bytes": lambda: [b"zz", b"y"], "nd_bytes": lambda: np.array([b"zz", b"y"]),
            "nd_str": lambda: np.array(["zz", "y"]), "nd_obj_str": lambda: np.array(["zz", "y"], dtype=object),
            "nd_obj_bytes": lambda: np.array([b"zz", b"y"], dtype=object), "list_npstr": lambda: [np.str_("zz"), np.str_("y")],
            "sid_raw": lambda: as_string_array(["zz", "y"]).raw(), "digits_bytes": lambda: np.array([b"10", b"7"])}[carrier]()


def _single_ops(kinds, n, rng):
    """the fixed list of single operations for a table with n rows"""
    w = len(kinds)
    ops = []
    ids = list(range(n))
    ops.append({"k": "take", "ix": ids[::-1], "py": ["list"]})
    ops.append({"k": "take", "ix": [], "py": ["list"]})
    if n:
        ops.append({"k": "take", "ix": [n - 1, 0, n - 1], "py": ["list"]})
        ops.append({"k": "take", "ix": [n - 1], "py": ["neg", [-1]]})
    for a, b, s in [(None, None, None), (1, None, None), (None, -1, None), (None, None, -1), (None, None, 2), (0, 0, None), (1, 3, None)]:
        ops.append({"k": "take", "ix": ids[slice(a, b, s)], "py": ["slice", a, b, s]})
    ops.append({"k": "take", "ix": [n], "py": ["list"]})                      # out of range
    ops.append({"k": "mask", "m": [i % 2 == 0 for i in range(n)]})
    ops.append({"k": "mask", "m": [False] * n})
    ops.append({"k": "mask", "m": [True] * (n + 1)})                          # wrong length
    for on in (0, 1, 2):
        o = [[40 + i for i in range(on)] for _ in range(w)]
        ops.append({"k": "concat", "other": o})
        ops.append({"k": "concatL", "other": o})
    for j, k in enumerate(kinds):
        if k in PREDABLE:
            present = 10 + 3 * (n - 1) if n else 10
            ops.append({"k": "pred", "j": j, "how": "eq", "vals": [present], "kind": k})
            ops.append({"k": "pred", "j": j, "how": "ne", "vals": [present], "kind": k})
            ops.append({"k": "pred", "j": j, "how": "eq", "vals": [999], "kind": k})
            ops.append({"k": "pred", "j": j, "how": "isin", "vals": [10, 999, present], "kind": k})
        if k in SORTABLE:
            ops.append({"k": "sort", "j": j, "kind": k})
        ops.append({"k": "replace", "j": j, "c": [50 + i for i in range(n)]})
    if w >= 2:
        ops.append({"k": "replace", "j": 0, "c": [50 + i for i in range(n + 1)]})  # wrong length
    ops.append({"k": "add", "new": [[60 + i for i in range(n)]], "kinds": ["int"]})
    ops.append({"k": "add", "new": [[60 + i for i in range(n)], [70 + i for i in range(n)]], "kinds": ["str", "float"]})
    ops.append({"k": "add", "new": [[60 + i for i in range(n + 1)]], "kinds": ["int"]})  # wrong length
    return ops


def _random_program(kinds, rng, nmax):
    w = len(kinds)
    n = rng.choice([0, 1, 1, 2, 3, 5, 8, nmax])
    seeds = rng.sample(range(0, 200), n)
    cols = [list(seeds) for _ in range(w)]
    rows = [list(r) for r in zip(*cols)] if n else []
    width = w
    kinds = list(kinds)
    ops = []
    fresh = [200]

    def new(k):
        out = list(range(fresh[0], fresh[0] + k))
        fresh[0] += k
        return out

    for _ in range(rng.randrange(2, 7)):
        n = len(rows)
        what = rng.choice(["take", "take", "slice", "mask", "concat", "concat", "sort", "replace", "add", "bad", "pred", "pred"])
        if what == "take":
            ix = [rng.randrange(n) for _ in range(rng.randrange(0, n + 3))] if n else []
            if n and rng.random() < 0.3:
                ix = [n - 1 - i for i in ix]
                op = {"k": "take", "ix": ix, "py": ["neg", [i - n for i in ix]]}
            else:
                op = {"k": "take", "ix": ix, "py": ["list"]}
        elif what == "slice":
            a = rng.choice([None, 0, 1, 2, -1, -2, n, n + 2])
            b = rng.choice([None, 0, 1, 3, -1, n, n + 1])
            s = rng.choice([None, None, 1, 2, 3, -1, -2])
            op = {"k": "take", "ix": list(range(n))[slice(a, b, s)], "py": ["slice", a, b, s]}
        elif what == "mask":
            op = {"k": "mask", "m": [rng.random() < 0.6 for _ in range(n)]}
        elif what == "concat":
            on = rng.choice([0, 0, 1, 2, 4])
            base = new(on)
            op = {"k": rng.choice(["concat", "concatL"]), "other": [list(base) for _ in range(width)]}
        elif what == "pred":
            cand = [j for j, k in enumerate(kinds) if k in PREDABLE]
            if not cand:
                continue
            j = rng.choice(cand)
            pool = [r[j] for r in rows] or [0]
            op = {"k": "pred", "j": j, "how": rng.choice(["eq", "ne", "isin"]), "kind": kinds[j],
                  "vals": [rng.choice(pool)] + ([rng.choice(pool), 777] if rng.random() < 0.5 else [])}
            if op["how"] != "isin":
                op["vals"] = op["vals"][:1]
        elif what == "sort":
            cand = [j for j, k in enumerate(kinds) if k in SORTABLE]
            if not cand:
                continue
            j = rng.choice(cand)
            op = {"k": "sort", "j": j, "kind": kinds[j]}
        elif what == "replace":
            j = rng.randrange(width)
            op = {"k": "replace", "j": j, "c": new(n) if rng.random() < 0.7 else [rows[rng.randrange(n)][j] for _ in range(n)]}
        elif what == "add":
            if width >= 14:
                continue
            ks = [rng.choice(ADDABLE) for _ in range(rng.choice([1, 1, 2]))]
            op = {"k": "add", "new": [new(n) for _ in ks], "kinds": ks}
        else:
            bad = rng.choice(["ix", "mask", "len"])
            if bad == "ix":
                op = {"k": "take", "ix": [0, n + rng.randrange(3)], "py": ["list"]}
            elif bad == "mask":
                op = {"k": "mask", "m": [True] * (n + rng.choice([1, 2]))}
            else:
                op = {"k": "replace", "j": rng.randrange(width), "c": new(n + 1)}
                if width == 1:
                    continue
        ops.append(op)
        try:
            width, rows = _apply_rows(width, rows, op)
        except Raise:
            break
        if op["k"] == "add":
            kinds += op["kinds"]
        # keep sort keys unambiguous: rows with equal key must be identical rows
    return cols, ops


def _sort_unambiguous(c):
    """a sort step whose key has ties between different rows has no defined tie order in NumPy"""
    width = len(c["cols"])
    rows = [list(r) for r in zip(*c["cols"])]
    for op in c["ops"]:
        if op["k"] == "sort" and op["j"] < width:
            seen = {}
            for r in rows:
                if seen.setdefault(r[op["j"]], r) != r:
                    return False
        try:
            width, rows = _apply_rows(width, rows, op)
        except Raise:
            return True
    return True


NPI = ["int64", "int32", "intp", "int8", "uint8", "int16", "uint16", "uint64", "uint32"]      # NumPy integer scalar types of a row number


def _npi(i, j):
    """how the row number i is spelled: a Python int (False) or one of the NumPy integer scalar types (unsigned: i >= 0)"""
    if j % 2:
        return False
    t = NPI[(j // 2) % len(NPI)]
    return "int64" if (t.startswith("u") and i < 0) or not -128 <= i <= 127 else t


def srcs(tname, j=0):
    """where else a table of this type comes from (None = the constructor given lists / plain arrays): "file" = written
    as text and lazily read back; "wide:<dtype>" = its text columns handed over as encoded arrays of wide integer codes"""
    kinds = _mods()["classes"][tname][1]
    out = []
    if file_type(tname):
        out.append("file")
    if any(k in WIDE_KINDS for k in kinds):
        out.append("wide:" + WIDE_DT[j % len(WIDE_DT)])
    if any(k in ENC_KINDS for k in kinds):
        out.append(["enc", "enc+copy"][j % 2])
    out.append("copy")
    return out


def _with_src(c, src):
    c = dict(c)
    if src:
        c["src"] = src
    return c


def cases(tier, rng):
    big = tier in ("thorough", "widen")
    names = type_names()
    m = _mods()
    # 1. every type x 0..3 rows x every single op x every final conversion
    for tname in names:
        kinds = m["classes"][tname][1]
        for n in (0, 1, 2, 3):
            cols = [[10 + 3 * i for i in range(n)] for _ in kinds]
            yield {"op": "program", "type": tname, "cols": cols, "ops": [], "final": "all"}
            for src in srcs(tname, n):
                yield {"op": "program", "type": tname, "cols": cols, "ops": [], "final": "all", "src": src}
            for i, op in enumerate(_single_ops(kinds, n, rng)):
                fin = "all" if (big or tname.startswith("D_")) else FINALS[(i + n) % len(FINALS)]
                yield {"op": "program", "type": tname, "cols": cols, "ops": [op], "final": fin}
                # the same table as the file readers hand it out (lazily parsed) / with text columns given as wide codes
                ss = srcs(tname, i + n)
                for si, src in enumerate(ss):
                    if not big and not tname.startswith("D_") and si != (i + n) % len(ss):
                        continue        # quick tier, library types: one other provenance per operation, in rotation
                    yield {"op": "program", "type": tname, "cols": cols, "ops": [op], "src": src,
                           "final": "all" if big else FINALS[(i + n + si + 1) % len(FINALS)]}
                # the operand has seen a non-column call of its public interface first (context attached / a failed look-up)
                allsrc = [None] + srcs(tname, i)
                yield _with_src({"op": "program", "type": tname, "cols": cols, "ops": [op], "ctx": ["set", "get"][(i + n) % 2],
                                 "final": FINALS[(i + 2 * n) % len(FINALS)]}, allsrc[(i // 2 + n) % len(allsrc)])
        # rows <-> table
        w = len(kinds)
        for rows in ([], [[5] * w], [[5] * w, [6] * w, [7] * w], [[5] * (w + 1)], [[5] * (w + 1), [6] * (w + 1)]):
            yield {"op": "roundtrip", "type": tname, "rows": rows, "width": w}
        if w > 1:
            yield {"op": "roundtrip", "type": tname, "rows": [[5] * (w - 1), [6] * (w - 1)], "width": w}
        # construction: converts or raises
        yield {"op": "construct", "type": tname, "n": 2, "bad": None}
        for j, k in enumerate(kinds):
            yield {"op": "construct", "type": tname, "n": 2, "bad": {"col": j, "what": "len"}}
            if k in ("int", "float", "opt", "dna", "strand", "bool"):
                yield {"op": "construct", "type": tname, "n": 2, "bad": {"col": j, "what": "content"}}
            if k in ("int", "float", "bool", "opt"):
                # the same text in its other carriers (bytes, object arrays, NumPy str_ scalars, raw identifier bytes), and
                # through every path that builds a table: the constructor, replace, add_fields with a declared type
                for ci, carrier in enumerate(TEXT_CARRIERS):
                    for vi, via in enumerate(("ctor", "replace", "add_fields")):
                        if tname.startswith("D_") or (ci + vi + j) % 3 == 0:
                            yield {"op": "construct", "type": tname, "n": 2,
                                   "bad": {"col": j, "what": "content", "carrier": carrier, "via": via}}
    # 1h. ONE entry by integer index, t[i] and column[i], i from below -len to above len-1 (Python int / NumPy integer),
    #     on the table as built and on fresh, never-read selections of it (slice, reversed, index list, mask, two in a row)
    for tname in names:
        kinds = m["classes"][tname][1]
        dyn = tname.startswith("D_")
        for n in ((0, 1, 3, 5) if dyn else (0, 3)):
            cols = [[10 + 3 * i for i in range(n)] for _ in kinds]
            ids = list(range(n))
            sels = [[], [{"k": "take", "ix": ids[1:4], "py": ["slice", 1, 4, None]}],
                    [{"k": "take", "ix": ids[::-1], "py": ["slice", None, None, -1]}],
                    [{"k": "take", "ix": [j for j in (0, 2, 3) if j < n], "py": ["list"]}],
                    [{"k": "mask", "m": [j % 3 != 1 for j in range(n)]}],
                    [{"k": "take", "ix": ids[::2], "py": ["slice", None, None, 2]}, {"k": "take", "ix": list(range(len(ids[::2])))[::-1], "py": ["slice", None, None, -1]}]]
            for si, sel in enumerate(sels):
                ln = len(_run_rows(len(kinds), [list(r) for r in zip(*cols)], sel)[1])
                for i in range(-ln - 3, ln + 3):
                    if not dyn and -ln < i < ln - 1 and i != 0:
                        continue                      # library types: the borders and one inside
                    yield {"op": "pick", "type": tname, "cols": cols, "ops": sel, "i": i, "np": (i + si) % 2 == 0,
                           "by": "column" if (dyn and (i + n) % 2 == 0) else "table"}
                    # every spelling of the row number on every provenance of the table (built, lazily read, wide codes)
                    allp = [None] + srcs(tname, i + si)
                    for sj, src in enumerate(allp):
                        if not big and not dyn and sj != (i + si) % len(allp):
                            continue        # quick tier, library types: one provenance per row number, in rotation
                        for spell in [_npi(i, 2 * (i + si + sj + n))] + ([False] if src and (dyn or big) else []):
                            cc = _with_src({"op": "pick", "type": tname, "cols": cols, "ops": sel, "i": i, "np": spell,
                                            "by": "column" if (dyn and (i + n + sj) % 2 == 1) else "table"}, src)
                            if (i + si + sj) % 4 == 0:
                                cc["ctx"] = ["set", "get"][(i + sj) % 2]
                            yield cc
    # 1i. float keys with the values an order-by-comparison shortcut gets wrong: NaN (every comparison False), +-inf,
    #     -0.0 / 0.0 (equal, different bits): every sequence up to length 3 (4 thorough), longer ones sampled
    FV = ["nan", "-inf", "-0.0", "0.0", "1.0", "2.5", "inf"]
    for ln in range(0, (5 if big else 4)):
        for sel in itertools.product(FV, repeat=ln):
            yield {"op": "sort_float", "type": "D_num", "keys": list(sel), "fresh": ln % 2 == 1}
    for _ in range(4000 if big else 400):
        ln = rng.randrange(4, 10)
        ks = [rng.choice(FV + ["3.0", "4.0", "5.0"]) for _ in range(ln)]
        yield {"op": "sort_float", "type": "D_num", "keys": ks, "fresh": rng.random() < 0.5}
    # 1g. fresh, un-materialised views handed straight to every operation: t[[2,0,1]], t[mask], t[1:], t[::-1] then each single op
    vtypes = [n for n in names if n.startswith("D_")] + [n for n in ("Interval", "Bed6", "SequenceEntry", "BedGraph") if n in names]
    fi = 0
    for tname in vtypes:
        kinds = m["classes"][tname][1]
        cols = [[10 + 3 * i for i in range(3)] for _ in kinds]
        for first, n2 in (({"k": "take", "ix": [2, 0, 1], "py": ["list"]}, 3), ({"k": "mask", "m": [True, False, True]}, 2),
                          ({"k": "take", "ix": [1, 2], "py": ["slice", 1, None, None]}, 2),
                          ({"k": "take", "ix": [2, 1, 0], "py": ["slice", None, None, -1]}, 3)):
            for op in _single_ops(kinds, n2, rng):
                fi += 1
                yield {"op": "program", "type": tname, "cols": cols, "ops": [first, op], "final": FINALS[fi % len(FINALS)], "fresh": True}
                for si, src in enumerate(srcs(tname, fi)):
                    yield {"op": "program", "type": tname, "cols": cols, "ops": [first, op], "src": src,
                           "final": FINALS[(fi + si + 1) % len(FINALS)], "fresh": True}
    # 1b. typed construction: every field kind x every argument form
    for k in KIND_ORDER:
        for f in FORM_ORDER:
            yield {"op": "construct_cell", "type": "D_all", "kind": k, "form": f}
    # 1d. alphabet-encoded fields given data ALREADY encoded in another alphabet (shared prefix): construction,
    #     replace and add_fields must keep the text or raise; texts chosen around the first differing position
    hows = ["construct", "replace", "add"]
    ci = 0
    for D in ALPHAS:
        for S in ALPHAS:
            if D == S:
                continue
            a, b = _alphabet(D), _alphabet(S)
            pfx = 0
            while pfx < min(len(a), len(b)) and a[pfx] == b[pfx]:
                pfx += 1
            lo, hi = max(0, pfx - 1), min(len(b), pfx + 2)
            letters = sorted(set(b[lo:hi] + b[:1]), key=b.index)
            texts = {b[:pfx + 1], b[:pfx], b[:pfx + 2], b[pfx:pfx + 1], b[pfx + 1:pfx + 2], b[max(0, pfx - 1):pfx]} - {""}
            if big:
                texts |= {"".join(t) for l in (1, 2, 3) for t in itertools.product(letters, repeat=l)}
            for t in sorted(texts):
                for how in (hows if big else [hows[ci % 3]]):
                    ci += 1
                    yield {"op": "construct_enc", "type": "D_all", "declared": D, "source": S, "text": t, "how": how,
                           "shape": "ragged"}
                if big or ci % 4 == 0:
                    yield {"op": "construct_enc", "type": "D_all", "declared": D, "source": S, "text": t, "how": "construct",
                           "shape": "flat"}
    # 1d'. text fields given character codes in an integer dtype wider than one byte (an EncodedArray the caller made from
    #      its own code array): every text kind x dtype x construction / replace / add_fields: the same text, or a refusal
    for kind, texts in (("str", ["ACG", "", "Tn x"]), ("sid", ["id1", "chr2_x", "z"]), ("dna", ["ACG", "", "TTGA"]), ("strand", ["+", "-", "."])):
        for dt in WIDE_DT + ["uint8", "int8", "uint64"]:
            for n in (0, 1, 3):
                for how in hows:
                    yield {"op": "wide_text", "type": "D_all", "kind": kind, "dtype": dt, "texts": texts[:n], "how": how}
    # 1e. sort_by a text key where one key is another key plus trailing letters of the smallest code, keys that differ
    #     only in length, the empty key; every arrangement (longer first, ...)
    fam = {"dna": ["AC", "ACA", "ACAA", "", "A", "C", "AAC", "CA"],
           "str": ["ab", "ab ", "ab  ", "", "a", "b", "aba", " a"],
           "digit": ["12", "120", "1200", "", "1", "0", "012", "2"],
           # keys of ONE common length in alphabets whose code order is not the character order
           "actg": ["TA", "GA", "GT", "AC", "CC", "TG", "GG"],
           "amino": ["*A", "YA", "AC", "WW", "A*", "CA", "Y*"],
           "bam": ["=A", "NA", "AC", "TT", "BN", "NB", "A="],
           "cigar": ["MI", "=X", "XM", "DS", "IM", "X=", "SD"]}
    # one letter per row (a 1-d encoded column): every order of 3-4 letters whose code order and character order differ
    for kind, letters in (("actg", "TGAC"), ("amino", "*YAW"), ("bam", "N=TA"), ("cigar", "M=XD")):
        for sel in itertools.permutations(letters, 3 if not big else 4):
            yield {"op": "sort_text", "type": "D_all", "kind": kind, "texts": list(sel), "flat": True}
    for kind, texts in fam.items():
        for k in ((2, 3, 4) if big else (2, 3)):
            for sel in itertools.permutations(texts, k):
                if not big and k == 3 and rng.random() < 0.5:
                    continue
                yield {"op": "sort_text", "type": "D_all", "kind": kind, "texts": list(sel)}
    # 1f. history: two add_fields calls in one process, same class, same new field name, different declared types
    kinds2 = ["int", "str", "float", "dna", "sid", "bool"]
    for base in ("D_num", "Interval"):
        for k1 in kinds2:
            for k2 in kinds2:
                if k1 != k2:
                    yield {"op": "add_twice", "type": base, "k1": k1, "k2": k2, "n": 2}
    # 1b'. sort_by a text column with one very long row (cost must follow the amount of text, not rows x longest row)
    yield {"op": "sort_long", "type": "D_all", "rows": 2000, "long": 500000}
    # 1c. nested tables <-> flat dicts with dotted keys (todict / from_dict / pandas), nesting depth <= 3,
    #     names reused across levels, prefixes of each other
    L = "leaf"
    fixed = [
        [["a", L]],
        [["a", L], ["b", [["a", L], ["c", L]]]],
        [["b", [["b", [["b", L]]]]], ["bb", L]],
        [["x", [["y", L], ["z", [["y", L], ["x", L]]]]], ["y", L], ["xy", [["x", L]]]],
        [["a", [["a", L]]], ["a_", [["a", L]]], ["aa", L]],
    ]
    for sch in fixed:
        for n in (0, 1, 3):
            yield {"op": "dict", "type": "D_all", "schema": sch, "n": n}
    names_pool = ["a", "b", "ab", "a_b", "x", "val", "a1"]

    def rnd_schema(depth):
        out, used = [], set()
        for _ in range(rng.randrange(1, 4)):
            nm = rng.choice([x for x in names_pool if x not in used])
            used.add(nm)
            out.append([nm, rnd_schema(depth + 1) if depth < 2 and rng.random() < 0.4 else L])
        return out
    for _ in range(300 if big else 40):
        yield {"op": "dict", "type": "D_all", "schema": rnd_schema(0), "n": rng.choice([0, 1, 2])}
    # 1i. helpers around the table classes: narrow_type, dynamic_concatenate, apply_to_npdataclass
    for n in (0, 1, 3):
        for cuts in ([], [1], [1, 2]):
            yield {"op": "util", "type": "D_num", "what": "dyncat", "n": n, "cuts": [x for x in cuts if x <= n]}
        yield {"op": "util", "type": "D_num", "what": "apply", "n": n}
    for txt, ok in (("ACG", True), ("", True), ("AXG", False)):
        yield {"op": "util", "type": "D_num", "what": "narrow", "text": txt, "ok": ok}
    # 1h. add_fields without a type map: every argument form
    for f in INFER_FORMS:
        yield {"op": "infer_cell", "type": "Interval", "form": f}
    # 2. random programs
    R = (60000 if big else 2000)
    for _ in range(R):
        tname = rng.choice(names if rng.random() < 0.5 else [n for n in names if n.startswith("D_")])
        kinds = m["classes"][tname][1]
        cols, ops = _random_program(kinds, rng, 12)
        c = {"op": "program", "type": tname, "cols": cols, "ops": ops, "final": rng.choice(FINALS), "fresh": rng.random() < 0.5}
        src = rng.choice([None, None] + srcs(tname, rng.randrange(len(WIDE_DT))))
        if src:
            c["src"] = src
        if rng.random() < 0.3:
            c["ctx"] = rng.choice(["set", "get"])
        if _sort_unambiguous(c):
            yield c


def nontrivial(c):
    if c["op"] not in ("program",):
        return True
    kinds = _mods()["classes"][c["type"]][1]
    n = len(c["cols"][0]) if c["cols"] else 0
    small = n <= 1 or any(op["k"] in ("concat", "concatL") and (not op["other"] or len(op["other"][0]) <= 1) for op in c["ops"])
    return (len(c["ops"]) >= 2 and len(set(kinds)) >= 2) or (small and len(c["ops"]) >= 1)


# ---------------------------------------------------------------- implementation

def _apply_impl(m, t, op, kinds, names, src=None, tname=None):
    bnp = m["bnp"]
    k = op["k"]
    wide = _wide_of(src)
    if k == "take":
        py = op["py"]
        if py[0] == "slice":
            return t[slice(py[1], py[2], py[3])], kinds, names
        if py[0] == "neg":
            return t[list(py[1])], kinds, names
        return t[np.array(op["ix"], dtype=int)], kinds, names
    if k == "mask":
        return t[np.array(op["m"], dtype=bool)], kinds, names
    if k in ("concat", "concatL"):
        if len(op["other"]) != len(kinds):
            raise ValueError("width")
        if src == "file" and tname and len(kinds) == len(m["classes"][tname][1]) and sum(map(len, op["other"])) % 2 == 0:
            o = _read_table(m, tname, op["other"])      # both operands lazily read (every other case: one read, one in memory)
        else:
            o = _dcls(t)(*[_column(m, kk, c, wide) for kk, c in zip(kinds, op["other"])])
        return np.concatenate([t, o] if k == "concat" else [o, t]), kinds, names
    if k == "pred":
        col = getattr(t, names[op["j"]])
        vals = [cell(kinds[op["j"]], v) for v in op["vals"]]
        if op["how"] == "eq":
            mk = col == vals[0]
        elif op["how"] == "ne":
            mk = col != vals[0]
        else:
            mk = np.isin(col, vals)
        return t[mk], kinds, names
    if k == "sort":
        return t.sort_by(names[op["j"]]), kinds, names
    if k == "replace":
        j = op["j"]
        return bnp.replace(t, **{names[j]: _column(m, kinds[j], op["c"], wide)}), kinds, names
    if k == "add":
        new_names = ["x%d" % (len(names) + i) for i in range(len(op["kinds"]))]
        fields = {nn: _column(m, kk, c, wide) for nn, kk, c in zip(new_names, op["kinds"], op["new"])}
        tmap = {nn: m["pytype"][kk] for nn, kk in zip(new_names, op["kinds"])}
        return t.add_fields(fields, field_type_map=tmap), kinds + op["kinds"], names + new_names
    raise ValueError(k)


def _final(m, t, kinds, how, rows):
    cls = _dcls(t)
    if how == "tolist":
        return _rows_tolist(t, kinds) == rows
    if how == "iter":
        return _rows_iter(t, kinds) == rows and len(t) == len(rows)
    if how == "dict":
        return _rows_tolist(cls.from_dict(t.todict()), kinds) == rows
    if how == "pandas":
        return _rows_tolist(cls.from_data_frame(t.topandas()), kinds) == rows
    if how == "tuples":
        tuples = [tuple(getattr(e, f.name) for f in dataclasses.fields(e)) for e in t.tolist()]
        return _rows_tolist(cls.from_entry_tuples(tuples), kinds) == rows
    raise ValueError(how)


def impl(c):
    m = _mods()
    cls, kinds, names = m["classes"][c["type"]]
    kinds, names = list(kinds), list(names)
    if c["op"] in ("program",):
        src = c.get("src")
        try:
            t = _table(m, c["type"], c["cols"], src)
        except Exception as e:
            return {"err": "harness-construct:" + type(e).__name__}
        unchanged = True
        ctx = c.get("ctx")
        fresh = bool(c.get("fresh"))       # fresh: intermediate results go straight into the next operation, never read in between
        for i, op in enumerate(c["ops"]):
            before = None if fresh else _rows_tolist(t, kinds)
            old_kinds = list(kinds)
            try:
                _touch(t, ctx)
                t2, kinds, names = _apply_impl(m, t, op, kinds, names, src, c["type"])
                lens = {len(getattr(t2, f.name)) for f in dataclasses.fields(t2)}
            except Exception as e:
                return {"err": "raise", "at": op["k"], "exc": type(e).__name__}
            if not fresh and _rows_tolist(t, old_kinds) != before:
                unchanged = False
            if not _ctx_kept(t, ctx):
                unchanged = False
            if len(lens) != 1:
                return {"rows": None, "unequal_lengths": sorted(lens)}
            t = t2
        finals = FINALS if c["final"] == "all" else [c["final"]]
        try:
            _touch(t, ctx)
        except Exception as e:
            return {"err": "raise", "at": "context", "exc": type(e).__name__}
        iter_rows = None
        if "iter" in finals:
            # iterate the result BEFORE anything else touches it (tolist() re-bases sliced ragged columns)
            try:
                iter_rows = (_rows_iter(t, kinds), len(t))
            except Exception as e:
                iter_rows = "raise:" + type(e).__name__
        try:
            rows = _rows_tolist(t, kinds)
        except Exception as e:
            return {"err": "raise", "at": "tolist", "exc": type(e).__name__}
        out = {"rows": rows, "width": len(kinds), "unchanged": unchanged, "final": {}}
        for how in finals:
            if how == "iter":
                out["final"][how] = iter_rows if isinstance(iter_rows, str) else bool(iter_rows == (rows, len(rows)))
                continue
            try:
                out["final"][how] = bool(_final(m, t, kinds, how, rows))
            except Exception as e:
                out["final"][how] = "raise:" + type(e).__name__
        return out
    if c["op"] == "roundtrip":
        try:
            tuples = [tuple(cell(k, s) if k != "inner" else m["Inner"].single_entry(*cell(k, s))
                            for k, s in zip(itertools.cycle(kinds) if len(r) > len(kinds) else kinds, r)) for r in c["rows"]]
            t = cls.from_entry_tuples(tuples)
            lens = {len(getattr(t, f.name)) for f in dataclasses.fields(t)}
            if len(lens) != 1:
                return {"rows": None, "unequal_lengths": sorted(lens)}
            return {"rows": _rows_tolist(t, kinds), "width": len(dataclasses.fields(t))}
        except Exception as e:
            return {"err": "raise", "exc": type(e).__name__}
    if c["op"] == "construct_enc":
        from bionumpy.bnpdataclass import make_dataclass
        bnp = m["bnp"]
        D, S = _alpha(c["declared"]), _alpha(c["source"])
        key = ("enc_cls", c["declared"])
        if key not in _CACHE:
            _CACHE[key] = make_dataclass([("seq", D), ("i", int)], name="Enc_" + c["declared"])
        T = _CACHE[key]
        text = c["text"]
        dtext = _alphabet(c["declared"])[0]
        try:
            if c["shape"] == "flat":
                x = bnp.as_encoded_array(text, S)
                n = len(text)
            else:
                x = bnp.as_encoded_array([text, text[:1]], S)
                n = 2
            if c["how"] == "construct":
                col = T(x, list(range(n))).seq
            elif c["how"] == "replace":
                col = bnp.replace(T([dtext] * n, list(range(n))), seq=x).seq
            else:
                col = T([dtext] * n, list(range(n))).add_fields({"y": x}, {"y": D}).y
            got = col.tolist()
            got = list(got) if isinstance(got, str) else got
            return {"text": got, "encoding_is_declared": bool(col.encoding == D)}
        except Exception as e:
            return {"err": "raise", "exc": type(e).__name__}
    if c["op"] == "wide_text":
        from bionumpy.bnpdataclass import make_dataclass
        bnp = m["bnp"]
        key = ("wide_cls", c["kind"])
        if key not in _CACHE:
            _CACHE[key] = make_dataclass([("t", m["pytype"][c["kind"]]), ("i", int)], name="Wide_" + c["kind"])
        T = _CACHE[key]
        texts, n = c["texts"], len(c["texts"])
        plain = {"str": "x", "sid": "x", "dna": "A", "strand": "+"}[c["kind"]]
        try:
            x = _wide_text(texts, c["dtype"], flat=(c["kind"] == "strand"))
            if c["how"] == "construct":
                t, nm = T(x, list(range(n))), "t"
            elif c["how"] == "replace":
                t, nm = bnp.replace(T([plain] * n, list(range(n))), t=x), "t"
            else:
                t, nm = T([plain] * n, list(range(n))).add_fields({"y": x}, {"y": m["pytype"][c["kind"]]}), "y"
            got = [str(_py(getattr(e, nm))) for e in t.tolist()]
            col = getattr(t, nm).tolist()
            col = list(col) if isinstance(col, str) else [str(v) for v in col]
            its = [str(_py(getattr(e, nm))) for e in t]
            return {"text": got, "column": col, "iter": its, "ids": [int(v) for v in t.i]}
        except Exception as e:
            return {"err": "raise", "exc": type(e).__name__}
    if c["op"] == "pick":
        # the row number as a Python int or as the NumPy integer scalar np.argmax / np.flatnonzero(...)[0] / iteration over
        # an index array give (c["np"]: False / True = int64 / the name of the scalar type)
        i = int(c["i"]) if not c["np"] else getattr(np, "int64" if c["np"] is True else c["np"])(c["i"])
        src = c.get("src")

        def selected():
            t = _table(m, c["type"], c["cols"], src)
            for op in c["ops"]:                       # fresh: nothing reads the selection before it is indexed
                _touch(t, c.get("ctx"))
                t, _, _ = _apply_impl(m, t, op, kinds, names, src, c["type"])
            _touch(t, c.get("ctx"))
            return t
        try:
            if c["by"] == "table":
                try:
                    e = selected()[i]
                except IndexError:
                    return {"err": "index"}
                return {"row": [canon_cell(k, _py(getattr(e, nm))) for k, nm in zip(kinds, names)]}
            row, errs = [], 0
            for k, nm in zip(kinds, names):
                try:
                    row.append(canon_cell(k, _py(getattr(selected(), nm)[i])))
                except IndexError:
                    errs += 1
            if errs == len(kinds):
                return {"err": "index"}
            if errs:
                return {"err": "mixed", "row": row}
            return {"row": row}
        except Exception as e:
            return {"err": "raise", "exc": type(e).__name__}
    if c["op"] == "sort_float":
        from bionumpy.bnpdataclass import make_dataclass
        if "sortf_cls" not in _CACHE:
            _CACHE["sortf_cls"] = make_dataclass([("k", float), ("i", int), ("tag", str)], name="SortF")
        try:
            keys = [float(x) for x in c["keys"]]
            n = len(keys)
            t = _CACHE["sortf_cls"](np.array(keys, dtype=float), list(range(n)), ["t%d" % j for j in range(n)])
            if c.get("fresh") and n:
                t = t[np.arange(n)][::-1][::-1]       # an un-materialised view of the same rows
            before = [float(x).hex() for x in t.k] if not c.get("fresh") else None
            r = t.sort_by("k")
            ids = [int(x) for x in r.i]
            out = {"ids": ids, "ranks": [_frank(x) for x in r.k.tolist()], "rows_intact": r.tag.tolist() == ["t%d" % j for j in ids]
                   and [float(x).hex() for x in r.k.tolist()] == [keys[j].hex() for j in ids] and sorted(ids) == list(range(n))}
            if before is not None and [float(x).hex() for x in t.k] != before:
                out["operand_changed"] = True
            return out
        except Exception as e:
            return {"err": "raise", "exc": type(e).__name__}
    if c["op"] == "sort_text":
        from bionumpy.bnpdataclass import make_dataclass
        key = ("sort_cls", c["kind"])
        if key not in _CACHE:
            ft = {"dna": m["pytype"]["dna"], "str": str, "digit": _alpha("DigitEncoding"), "actg": _alpha("ACTGEncoding"),
                  "amino": _alpha("AminoAcidEncoding"), "bam": _alpha("BamEncoding"), "cigar": _alpha("CigarOpEncoding")}[c["kind"]]
            _CACHE[key] = make_dataclass([("k", ft), ("i", int), ("tag", str)], name="Sort_" + c["kind"])
        try:
            texts = c["texts"]
            keycol = "".join(texts) if c.get("flat") else texts       # flat: one str -> a 1-d encoded column, one letter per row
            t = _CACHE[key](keycol, list(range(len(texts))), ["t%d" % i for i in range(len(texts))]).sort_by("k")
            ids = [int(x) for x in t.i]
            tags = t.tag.tolist()
            ktexts = t.k.tolist()
            ktexts = list(ktexts) if isinstance(ktexts, str) else ktexts
            if tags != ["t%d" % i for i in ids]:
                return {"ids": ids, "texts": ktexts, "rows_torn": tags}
            return {"ids": ids, "texts": ktexts}
        except Exception as e:
            return {"err": "raise", "exc": type(e).__name__}
    if c["op"] == "add_twice":
        n = c["n"]
        out = {}
        try:
            t = _table(m, c["type"], [[3 + i for i in range(n)] for _ in kinds])
            res = []
            for j, k in enumerate((c["k1"], c["k2"])):
                seeds = [20 + 5 * j + i for i in range(n)]
                r = t.add_fields({"extra": _column(m, k, seeds)}, field_type_map={"extra": m["pytype"][k]})
                res.append((k, seeds, r))
            for tag, (k, seeds, r) in zip(("first", "second"), res):      # observed after BOTH calls
                col = r.extra
                vals = [canon_cell(k, _py(getattr(e, "extra"))) for e in r.tolist()]
                out[tag] = {"cls": _col_class(m, col), "ok_cls": _col_class(m, col) in ALLOWED[k],
                            "ok_vals": vals == [canon_cell(k, cell(k, s_)) for s_ in seeds],
                            "declared": str(dataclasses.fields(r)[-1].type) == str(m["pytype"][k])}
            return out
        except Exception as e:
            return {"err": "raise", "exc": type(e).__name__}
    if c["op"] == "sort_long":
        from bionumpy.datatypes import SequenceEntry
        n = c["rows"]
        # rows 0..n-3 hold "CC…", row n-2 holds "A" (sorts first), row n-1 the long "T…" row (sorts last)
        seqs = ["C" * (5 + i % 3) for i in range(n - 2)] + ["A", "T" * c["long"]]
        try:
            t = SequenceEntry(["n%d" % i for i in range(n)], seqs).sort_by("sequence")
            names = t.name.tolist()
            return {"first": names[0], "last": names[-1], "n": len(t)}
        except Exception as e:
            return {"err": "raise", "exc": type(e).__name__}
    if c["op"] == "dict":
        from bionumpy.bnpdataclass import make_dataclass
        counter = [0]
        n = c["n"]

        def build(sch, name):
            fields, vals = [], []
            for nm, sub in sch:
                if sub == "leaf":
                    fields.append((nm, int))
                    vals.append(np.full(n, counter[0], dtype=int))
                    counter[0] += 1
                else:
                    sub_cls, sub_obj = build(sub, name + "_" + nm)
                    fields.append((nm, sub_cls))
                    vals.append(sub_obj)
            cls_ = make_dataclass(fields, name=name)
            return cls_, cls_(*vals)
        try:
            cls_, t = build(c["schema"], "N")
            d = t.todict()
            keys = list(d)
            # the model's leaves hold the leaf number in one cell; with 0 rows the columns are empty: report the order of the keys' leaves
            leaves = list(range(len(keys))) if n == 0 else [int(np.asarray(d[k])[0]) for k in keys]
            same = lambda u: list(u.todict()) == keys and all(np.array_equal(np.asarray(u.todict()[k]), np.asarray(d[k])) for k in keys) and len(u) == n
            ok = same(cls_.from_dict(d)) and same(cls_.from_data_frame(t.topandas()))
            return {"keys": keys, "leaves": leaves, "roundtrip": bool(ok)}
        except Exception as e:
            return {"err": "raise", "exc": type(e).__name__}
    if c["op"] == "util":
        import io, contextlib
        from bionumpy.bnpdataclass.bnpdataclass import narrow_type, dynamic_concatenate
        from bionumpy.bnpdataclass.bnpdataclassfunction import apply_to_npdataclass
        try:
            if c["what"] == "narrow":
                from bionumpy.datatypes import SequenceEntry
                N = narrow_type(SequenceEntry, "sequence", m["pytype"]["dna"])
                t = N(["a"], [c["text"]])
                return {"text": t.sequence.tolist(), "alpha": _col_class(m, t.sequence) == "encragged:alpha"}
            seeds = [5 + i for i in range(c["n"])]
            t = _table(m, "D_num", [seeds, seeds])
            rows_of = lambda u: [[int(a), int(b * 4)] for a, b in zip(u.f0.tolist(), u.f1.tolist())]
            if c["what"] == "dyncat":
                b = [0] + c["cuts"] + [c["n"]]
                parts = [t[x:y] for x, y in zip(b[:-1], b[1:])]
                with contextlib.redirect_stdout(io.StringIO()):
                    r = dynamic_concatenate(iter(parts))
                return {"rows": rows_of(r)}
            plus1 = apply_to_npdataclass("f0")(lambda x: x + 1)
            r = plus1(t)
            return {"rows": rows_of(r), "operand": rows_of(t)}
        except Exception as e:
            return {"err": "raise", "exc": type(e).__name__}
    if c["op"] == "infer_cell":
        o = infer_outcome(c["form"])
        return {"outcome": o, "natural_class": o in INFER_ALLOWED[c["form"]]}
    if c["op"] == "construct_cell":
        o = construct_outcome(c["kind"], c["form"])
        return {"outcome": o, "conforms_or_raises": o == "raise" or o in ALLOWED[c["kind"]]}
    if c["op"] == "construct":
        n = c["n"]
        colsv = [_column(m, k, [3 + i for i in range(n)]) for k in kinds]
        bad = c["bad"]
        if bad:
            j, k = bad["col"], kinds[bad["col"]]
            if bad["what"] == "len":
                colsv[j] = _column(m, k, [3 + i for i in range(n + 1)])
            elif "carrier" in bad:
                badcol = _text_column(bad["carrier"])
                if bad["via"] == "ctor":
                    colsv[j] = badcol
            else:
                colsv[j] = {"int": ["zz", "y"], "float": ["zz", "y"], "opt": ["zz", "y"], "dna": ["ACX", "G"], "strand": ["+", "x"],
                            "bool": ["zz", "y"]}[k]
        try:
            t = cls(*colsv)
            if bad and bad.get("via") == "replace":
                t = m["bnp"].replace(t, **{names[j]: badcol})
            elif bad and bad.get("via") == "add_fields":
                t = t.add_fields({"extra": badcol}, field_type_map={"extra": m["pytype"][k]})
                kinds, names = kinds + [k], names + ["extra"]
        except Exception as e:
            return {"err": "raise", "exc": type(e).__name__}
        unconv = [k for k, f in zip(kinds, dataclasses.fields(t))
                  if k in ("int", "float", "opt", "bool") and np.asarray(getattr(t, f.name)).dtype.kind not in "biuf"]
        if unconv:
            return {"ok": True, "unconverted": unconv}
        try:
            _rows_tolist(t, kinds)
            return {"ok": True}
        except Exception as e:
            return {"err": "raise", "exc": "late:" + type(e).__name__}
    raise ValueError(c["op"])


# ---------------------------------------------------------------- comparison

def _expected_rows(c, seeds_rows):
    m = _mods()
    kinds = _kinds_after(m["classes"][c["type"]][1], c.get("ops", []))
    return [[canon_cell(k, cell(k, s)) for k, s in zip(kinds, r)] for r in seeds_rows]


def _same(c, got, ref):
    if "err" in ref:
        return isinstance(got, dict) and got.get("err") == "raise"
    if not isinstance(got, dict) or got.get("rows") is None:
        return False
    return got["rows"] == _expected_rows(c, ref["rows"]) and got["width"] == ref["width"]


def _same_pick(c, got, ref):
    if not isinstance(got, dict):
        return False
    if "err" in ref:
        return got.get("err") == ref["err"]
    kinds = _mods()["classes"][c["type"]][1]
    return got.get("row") == [canon_cell(k, cell(k, s_)) for k, s_ in zip(kinds, ref["row"])]


def agree(c, got, exp):
    if c["op"] == "construct_enc":
        if isinstance(got, dict) and got.get("err") == "raise":
            return True
        want = [c["text"], c["text"][:1]] if c["shape"] == "ragged" else list(c["text"])
        return isinstance(got, dict) and got.get("text") == want and got.get("encoding_is_declared") is True
    if c["op"] == "wide_text":
        if isinstance(got, dict) and got.get("err") == "raise":
            return True
        return isinstance(got, dict) and got.get("text") == c["texts"] and got.get("column") == c["texts"] \
            and got.get("iter") == c["texts"] and got.get("ids") == list(range(len(c["texts"])))
    if c["op"] == "sort_text":
        return core.canon(got) == core.canon(exp)
    if c["op"] == "pick":
        return _same_pick(c, got, exp)
    if c["op"] == "sort_float":
        return isinstance(got, dict) and got.get("ranks") == exp["ranks"] and got.get("rows_intact") is True \
            and "operand_changed" not in got
    if c["op"] == "add_twice":
        return isinstance(got, dict) and all(tag in got and all(got[tag][f] is True for f in ("ok_cls", "ok_vals", "declared"))
                                             for tag in ("first", "second"))
    if c["op"] == "sort_long":
        return core.canon(got) == core.canon(exp)
    if c["op"] == "dict":
        return core.canon(got) == core.canon(exp)
    if c["op"] == "util":
        if "err" in exp:
            return isinstance(got, dict) and got.get("err") == "raise"
        return core.canon(got) == core.canon(exp)
    if c["op"] == "infer_cell":
        return isinstance(got, dict) and got.get("natural_class") is True
    if c["op"] == "construct_cell":
        return isinstance(got, dict) and got.get("conforms_or_raises") is True
    if c["op"] == "construct":
        if c["bad"] and c["bad"].get("carrier") == "digits_bytes" and isinstance(got, dict) and "ok" in got:
            return "unconverted" not in got          # byte text that spells numbers: converted to numbers, or refused
        return isinstance(got, dict) and (("ok" in got) == ("ok" in exp))
    if not _same(c, got, exp):
        return False
    if "err" in exp or c["op"] not in ("program",):
        return True
    return got.get("unchanged") is True and all(v is True for v in got["final"].values())


def live_cases(tier, rng):
    """programs for the history / aliasing probe: a result table must still read the same after a LATER program ran"""
    m = _mods()
    names = [n for n in type_names()]
    out = []
    while len(out) < (1200 if tier in ("thorough", "widen") else 300):
        tname = rng.choice(names)
        cols, ops = _random_program(m["classes"][tname][1], rng, 8)
        c = {"op": "program", "type": tname, "cols": cols, "ops": ops, "final": "tolist", "fresh": True}
        src = rng.choice([None, None] + srcs(tname, rng.randrange(len(WIDE_DT))))
        if src:
            c["src"] = src
        if _sort_unambiguous(c) and "err" not in oracle(c):
            out.append(c)
    return out


def impl_live(c):
    m = _mods()
    cls, kinds, names = m["classes"][c["type"]]
    kinds, names = list(kinds), list(names)
    t = _table(m, c["type"], c["cols"], c.get("src"))
    for op in c["ops"]:
        t, kinds, names = _apply_impl(m, t, op, kinds, names, c.get("src"), c["type"])
    final_kinds = list(kinds)
    return t, (lambda obj: {"rows": _rows_tolist(obj, final_kinds), "width": len(final_kinds), "unchanged": True, "final": {}})


def agree_spec(c, s, exp):
    if c["op"] == "sort_float":      # the model sorts ids by rank: its rank sequence is the oracle's
        rk = sorted(set(map(tuple, exp["ranks"])))
        return isinstance(s, dict) and "rows" in s and \
            [rk.index(tuple(_frank(c["keys"][r[0]]))) for r in s["rows"]] == [rk.index(tuple(x)) for x in exp["ranks"]]
    if c["op"] == "sort_text":
        return isinstance(s, dict) and "rows" in s and [r[0] for r in s["rows"]] == exp["ids"]
    return core.canon(s) == core.canon(exp)


def agree_model(c, got, m):
    if c["op"] == "pick":
        return _same_pick(c, got, m)
    if c["op"] == "sort_float":      # same order up to the order inside a tie group (equal keys; NumPy's sort is not stable)
        return isinstance(got, dict) and "rows" in m and "ids" in got and \
            [_frank(c["keys"][j]) for j in got["ids"]] == [_frank(c["keys"][r[0]]) for r in m["rows"]]
    if c["op"] == "sort_text":
        return isinstance(got, dict) and "rows" in m and got.get("ids") == [r[0] for r in m["rows"]] and "rows_torn" not in got
    if c["op"] == "dict":
        return core.canon(got) == core.canon(m)
    return _same(c, got, m)


def _codes(c):
    out = set()
    for col in c["cols"]:
        out.update(col)
    for op in c["ops"]:
        for k in ("other", "new"):
            for col in op.get(k, []):
                out.update(col)
        out.update(op.get("c", []))
    return sorted(out)


def model_request(c):
    if c["op"] == "program":
        ops = []
        codes = None
        for op in c["ops"]:
            o = {k: v for k, v in op.items() if k not in ("py", "kinds", "kind")}
            if op["k"] == "sort":
                codes = codes if codes is not None else _codes(c)
                order = sorted(set(_skey(op["kind"], x) for x in codes))
                rank = {v: i for i, v in enumerate(order)}
                o["keys"] = [[x, rank[_skey(op["kind"], x)]] for x in codes]
            ops.append(o)
        return {"op": "program", "cols": c["cols"], "ops": ops}
    if c["op"] == "roundtrip":
        return {"op": "roundtrip", "rows": c["rows"], "width": c["width"]}
    if c["op"] == "dict":
        return {"op": "dict", "schema": c["schema"]}
    if c["op"] == "pick":
        return {"op": "pick", "cols": c["cols"], "i": c["i"],
                "ops": [{k: v for k, v in op.items() if k not in ("py", "kinds", "kind")} for op in c["ops"]]}
    if c["op"] == "sort_float":
        n = len(c["keys"])
        rk = sorted(set(tuple(_frank(x)) for x in c["keys"]))
        keys = [[j, rk.index(tuple(_frank(c["keys"][j])))] for j in range(n)]
        return {"op": "program", "cols": [list(range(n)), list(range(n))], "ops": [{"k": "sort", "j": 0, "keys": keys}]}
    if c["op"] == "sort_text":
        n = len(c["texts"])
        order = sorted(set(t.encode() for t in c["texts"]))
        keys = [[i, order.index(c["texts"][i].encode())] for i in range(n)]
        return {"op": "program", "cols": [list(range(n)), list(range(n))], "ops": [{"k": "sort", "j": 0, "keys": keys}]}
    return None


def finding_key(c, got, exp):
    m = _mods()
    kinds = m["classes"][c["type"]][1]
    if c["op"] == "construct_enc":
        return "construct:encoded-in-other-alphabet-" + ("silently-different-text" if "text" in got else "other")
    if c["op"] == "wide_text":
        return "construct:wide-character-codes-" + c["kind"] + "-silently-different-text"
    if c["op"] == "sort_text":
        return "sort_by:text-order-" + c["kind"] + ("-one-letter-rows" if c.get("flat") else "")
    if c["op"] == "pick":
        if isinstance(got, dict) and got.get("exc") == "TypeError" and "li" in kinds and c["ops"] and "err" not in exp:
            return "iter:int-index-on-sliced-ragged-column"      # npstructures' int(1-element array) on a plain ragged view
        if isinstance(exp, dict) and "err" in exp:
            return "index:entry-out-of-range-" + ("accepted" if isinstance(got, dict) and "row" in got else "other-error")
        return "index:entry-" + ("raises" if isinstance(got, dict) and "err" in got else "wrong-row")
    if c["op"] == "sort_float":
        return "sort_by:float-key-" + ("raises" if isinstance(got, dict) and "err" in got else "special-values-order")
    if c["op"] == "add_twice":
        return "add_fields:history-" + c["k1"] + "-then-" + c["k2"]
    if c["op"] == "sort_long":
        return "sort_by:long-row"
    if c["op"] == "dict":
        return "dict:" + ("raises-" + str(got.get("exc")) if isinstance(got, dict) and "err" in got else "nested-roundtrip")
    if c["op"] == "util":
        return "util:" + c["what"]
    if c["op"] == "infer_cell":
        return "add_fields:inferred-type-" + c["form"]
    if c["op"] == "construct_cell":
        if c["kind"] in ("int", "float", "bool") and isinstance(got, dict) and str(got.get("outcome", "")).startswith("ndarray:") \
                and got["outcome"][-1] in "biuf":
            return "construct:dtype-kept-" + c["kind"]      # a numeric array, but not of the declared dtype
        return "construct:unconverted-" + c["kind"]
    if c["op"] == "construct":
        if "ok" in got and c["bad"]:
            return "construct:accepts-" + c["bad"]["what"] + "-" + kinds[c["bad"]["col"]]
        return "construct:raises-on-valid"
    if c["op"] == "roundtrip":
        if not c["rows"]:
            return "from_entry_tuples:no-rows"
        return "from_entry_tuples:" + ("raises" if "err" in got else "wrong-rows")
    if isinstance(got, dict) and got.get("err") == "raise" and "err" not in exp:
        at = got.get("at")
        if at == "sort":
            j = [op for op in c["ops"] if op["k"] == "sort"][-1]["j"]
            allk = _kinds_after(kinds, c["ops"])
            return "sort_by:raises-on-" + (allk[j] if j < len(allk) else "?") + "-key"
        return f"{at}:raises-{got.get('exc')}"
    if isinstance(got, dict) and "err" not in got and "err" in exp:
        return "accepts-invalid:" + c["ops"][-1]["k"]
    if isinstance(got, dict) and got.get("rows") is not None and _same(c, got, exp):
        if got.get("unchanged") is not True:
            return "operand-modified"
        bad = sorted(k for k, v in got["final"].items() if v is not True)
        if bad == ["iter"] and got["final"]["iter"] == "raise:TypeError":
            return "iter:int-index-on-sliced-ragged-column"
        return "final:" + ",".join(f"{k}={got['final'][k]}" for k in bad)
    if isinstance(got, dict) and "unequal_lengths" in got:
        return "unequal-column-lengths"
    return "wrong-rows:" + (c["ops"][-1]["k"] if c.get("ops") else "none")
